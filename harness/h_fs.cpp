// h_fs.cpp - C19: path functions against a lexical path algebra, File histories against a byte-array/inode model checked on disk through
// libc, Directory::create truthfulness and recursive unlink containment on random trees with links to outside locations.
// modes: paths-str (all strings over "a./\b" up to length `scale`), paths-comp (component grammar), paths-rel (pairs for getRelativePath),
//        paths-rand (random longer names), files (operation histories + failpoints), files-alias (the same histories, every path argument
//        in one of 8 spellings of the same directory entry, plus a sweep of failing calls on a missing name), trees (random trees, create/unlink),
//        create-race (Directory::create with another "process" - played by the libc shims - creating/removing directories between its system calls, every
//        call position enumerated), create-threads (really concurrent Directory::create calls on overlapping paths)
// Entry names: 3 cases in 4 of mode trees (3 in 8 of files / files-alias) use names that start with one, two or more dots ("..data", "...", "..a3", ".hidden", ".. 1") for
// files, directories, symbolic links, FIFOs and hard links next to ordinary names: such names are ordinary entries, only "." and ".." themselves are special.
#include "vh.hpp"
#include "scratch.hpp"
#include "../interpose/fs_shims.hpp"
#include <nstd/File.hpp>
#include <nstd/Directory.hpp>

using namespace vh;

// =================================================================================================== path algebra (reference)
static inline bool isSep(char c) { return c == '/' || c == '\\'; }

struct Canon {   // canonical lexical form: absolute flag + component list ("" == "."; "/.." == "/"; separators '/' and '\\' alike)
  bool abs; Vec<int> off, len; Text buf;
  int n() const { return (int)off.n; }
  const char* comp(int i) const { return buf.d + off[i]; }
  bool isDotDot(int i) const { return len[i] == 2 && comp(i)[0] == '.' && comp(i)[1] == '.'; }
  void set(const char* p, size_t k, bool keepAbsDotDot = false) {
    abs = k > 0 && isSep(p[0]); off.clear(); len.clear(); buf.clear(); buf.reserve(k + 1);
    size_t i = 0;
    while (i < k) {
      while (i < k && isSep(p[i])) ++i;
      size_t s = i; while (i < k && !isSep(p[i])) ++i;
      size_t l = i - s; if (!l) break;
      if (l == 1 && p[s] == '.') continue;
      if (l == 2 && p[s] == '.' && p[s + 1] == '.') {
        if (off.n && !isDotDot((int)off.n - 1)) { buf.n = (size_t)off[off.n - 1]; off.pop(); len.pop(); continue; }
        if (abs && !keepAbsDotDot) continue;
      }
      off.push((int)buf.n); len.push((int)l); buf.add(p + s, l);
    }
  }
  bool compEq(int i, const Canon& o, int j) const { return len[i] == o.len[j] && !memcmp(comp(i), o.comp(j), (size_t)len[i]); }
  bool eq(const Canon& o) const { if (abs != o.abs || n() != o.n()) return false; for (int i = 0; i < n(); ++i) if (!compEq(i, o, i)) return false; return true; }
  void print(Text& t) const { t.add(abs ? "abs[" : "rel["); for (int i = 0; i < n(); ++i) { if (i) t.add(","); t.addEsc(comp(i), (size_t)len[i]); } t.add("]"); }
};

static size_t g_histMark = 0;
static void histInput(const char* what, const char* p, size_t n, const char* p2 = 0, size_t n2 = 0) {
  hist.n = g_histMark; if (hist.d) hist.d[hist.n] = 0;
  hist.add(what); hist.add("(\""); hist.addEsc(p, n); hist.add("\"");
  if (p2) { hist.add(", \""); hist.addEsc(p2, n2); hist.add("\""); }
  hist.add(")\n");
}
#ifndef VERIF_NO_PRIVATE
static const char* sdata(const String& s) { return s.data->str; }
#else
static const char* sdata(const String& s) { return (const char*)s; }   // fallback flavour: public conversion only
#endif
static bool sEq(const String& s, const char* p, size_t n) { return s.length() == n && !memcmp(sdata(s), p, n); }
static void esc(Text& t, const String& s) { t.add("\""); t.addEsc(sdata(s), s.length()); t.add("\""); }

static char g_key[200];
static const char* key(const char* fmt, ...) __attribute__((format(printf, 1, 2)));
static const char* key(const char* fmt, ...) { va_list ap; va_start(ap, fmt); vsnprintf(g_key, sizeof g_key, fmt, ap); va_end(ap); return g_key; }

static long g_pathChecks = 0;

// every unary path oracle on one input string
static void checkUnary(const char* p, size_t n) {
  String path(p, n);
  Canon cp; cp.set(p, n);
  const char* cls = cp.abs ? (cp.n() == 0 ? "absolute-resolving-to-root" : "absolute") : (cp.n() == 0 ? "relative-resolving-to-cwd" : (cp.isDotDot(0) ? "relative-leading-dotdot" : "relative"));
  setItem("path_classes", cls);
  // ---- simplifyPath: idempotent, equivalent, absolute stays absolute
  histInput("simplifyPath", p, n);
  setctx("File.simplifyPath");
  String s1 = File::simplifyPath(path);
  String s2 = File::simplifyPath(s1);
  if (!(s1 == s2)) { Text t; esc(t, s1); t.add(" -> "); esc(t, s2); fail(key("File.simplifyPath/%s/not-idempotent", cls), "simplifyPath(simplifyPath(p)) != simplifyPath(p): %s", t.c()); }
  Canon cs; cs.set(sdata(s1), s1.length());
  if (!cs.eq(cp)) { Text t; esc(t, s1); t.add(" = "); cs.print(t); t.add(" but the input is "); cp.print(t); fail(key("File.simplifyPath/%s/not-equivalent", cls), "simplifyPath result is not lexically equivalent to its input: %s", t.c()); }
  setctx("File.isAbsolutePath");
  if (File::isAbsolutePath(path) != cp.abs || File::isAbsolutePath(s1) != cp.abs) fail(key("File.isAbsolutePath/%s/changed-by-simplifyPath", cls), "isAbsolutePath(p)=%d isAbsolutePath(simplifyPath(p))=%d", (int)File::isAbsolutePath(path), (int)File::isAbsolutePath(s1));
  cnt("cmp_simplify", 2);
  // ---- directory name + base name recompose the path
  histInput("getDirectoryName/getBaseName", p, n);
  setctx("File.getDirectoryName");
  String dir = File::getDirectoryName(path);
  setctx("File.getBaseName");
  String base = File::getBaseName(path);
  bool hasSep = false; for (size_t i = 0; i < n; ++i) if (isSep(p[i])) hasSep = true;
  bool ok;
  if (!hasSep) ok = dir == "." && sEq(base, p, n);
  else { size_t dl = dir.length(), bl = base.length(); ok = dl + 1 + bl == n && !memcmp(sdata(dir), p, dl) && isSep(p[dl]) && !memcmp(sdata(base), p + dl + 1, bl); }
  for (size_t i = 0; i < base.length(); ++i) if (isSep(sdata(base)[i])) ok = false;
  if (!ok) { Text t; esc(t, dir); t.add(" + sep + "); esc(t, base); fail(key("File.getDirectoryName+getBaseName/%s/recompose", hasSep ? "with-separator" : "no-separator"), "directory name and base name do not recompose the path: %s", t.c()); }
  cnt("cmp_dir_base");
  // ---- stem + extension recompose the base name
  histInput("getStem/getExtension", p, n);
  setctx("File.getStem");
  String stem = File::getStem(path);
  setctx("File.getExtension");
  String ext = File::getExtension(path);
  int dots = 0; for (size_t i = 0; i < base.length(); ++i) if (sdata(base)[i] == '.') ++dots;
  const char* dcls = dots == 0 ? "no-dot" : dots == 1 ? "one-dot" : "multi-dot";
  setItem("basename_classes", dcls);
  if (dots == 0) ok = stem == base && ext.isEmpty();
  else ok = stem.length() + 1 + ext.length() == base.length() && !memcmp(sdata(stem), sdata(base), stem.length()) && sdata(base)[stem.length()] == '.' && !memcmp(sdata(ext), sdata(base) + stem.length() + 1, ext.length());
  if (!ok) { Text t; esc(t, stem); t.add(" + \".\" + "); esc(t, ext); t.add(" vs base "); esc(t, base); fail(key("File.getStem+getExtension/%s/recompose", dcls), "stem and extension do not recompose the base name: %s", t.c()); }
  cnt("cmp_stem_ext");
  // ---- explicit extension argument: removed iff the base name ends with it
  const char* exts[6]; size_t extl[6]; int ne = 0; char own[2][40];
  exts[ne] = "a"; extl[ne++] = 1; exts[ne] = ".a"; extl[ne++] = 2; exts[ne] = "."; extl[ne++] = 1; exts[ne] = "b.a"; extl[ne++] = 3;
  if (ext.length() && ext.length() < 38) { memcpy(own[0], sdata(ext), ext.length()); exts[ne] = own[0]; extl[ne++] = ext.length(); own[1][0] = '.'; memcpy(own[1] + 1, sdata(ext), ext.length()); exts[ne] = own[1]; extl[ne++] = ext.length() + 1; }
  for (int e = 0; e < ne; ++e) {
    histInput("getBaseName/getStem with extension", p, n, exts[e], extl[e]);
    String es(exts[e], extl[e]);
    setctx("File.getBaseName(ext)");
    String b2 = File::getBaseName(path, es);
    setctx("File.getStem(ext)");
    String st2 = File::getStem(path, es);
    char full[44]; size_t fl = 0; if (exts[e][0] != '.') full[fl++] = '.'; memcpy(full + fl, exts[e], extl[e]); fl += extl[e];
    bool ends = base.length() >= fl && !memcmp(sdata(base) + base.length() - fl, full, fl);
    size_t want = ends ? base.length() - fl : base.length();
    if (!sEq(b2, sdata(base), want)) { Text t; esc(t, b2); t.add(" base "); esc(t, base); fail(key("File.getBaseName(ext)/%s/value", ends ? "has-extension" : "other-extension"), "getBaseName(p, ext) = %s", t.c()); }
    if (!(st2 == b2)) { Text t; esc(t, st2); fail("File.getStem(ext)/differs-from-getBaseName(ext)", "getStem(p, ext) = %s", t.c()); }
    cnt("cmp_ext_arg");
  }
  ++g_pathChecks;
}

// getRelativePath oracle on one pair
static void checkRel(const char* f, size_t fn, const char* t, size_t tn) {
  String from(f, fn), to(t, tn);
  Canon cf, ct; cf.set(f, fn); ct.set(t, tn);
  int common = 0; while (common < cf.n() && common < ct.n() && cf.compEq(common, ct, common)) ++common;
  bool exists = cf.abs == ct.abs;
  for (int i = common; i < cf.n(); ++i) if (cf.isDotDot(i)) exists = false;
  const char* rel = cf.n() == common ? (ct.n() == common ? "same" : "to-below-from") : (ct.n() == common ? "to-above-from" : "sideways");
  char cls[64]; snprintf(cls, sizeof cls, "%s,%s", cf.abs != ct.abs ? "mixed" : cf.abs ? "absolute" : "relative", exists ? rel : "no-lexical-answer");
  setItem("rel_classes", cls);
  histInput("getRelativePath", f, fn, t, tn);
  setctx("File.getRelativePath");
  String r = File::getRelativePath(from, to);
  cnt("cmp_relative");
  if (r.isEmpty()) {
    Canon strictFrom; strictFrom.set(f, fn, true);
    if (exists && cf.abs && strictFrom.n() && strictFrom.isDotDot(0)) { cnt("rel_empty_accepted_for_dotdot_above_root"); return; }   // "/.." is only "/" by file-system convention, not lexically
    if (exists) { Text m; cf.print(m); m.add(" -> "); ct.print(m); fail(key("File.getRelativePath/%s/empty-although-answer-exists", cls), "empty result although a lexical answer exists: %s", m.c()); }
    cnt("rel_no_answer");
    return;
  }
  // from + "/" + r must denote to
  Text j; if (fn) j.add(f, fn); else j.add("."); j.add("/"); j.add(sdata(r), r.length());
  Canon cj; cj.set(j.c(), j.n);
  if (isSep(sdata(r)[0]) || !cj.eq(ct)) { Text m; esc(m, r); m.add(": from/rel = "); cj.print(m); m.add(" but to = "); ct.print(m); fail(key("File.getRelativePath/%s/does-not-denote-to", cls), "from + \"/\" + getRelativePath(from, to) does not denote to: %s", m.c()); }
  cnt("rel_answers");
}

static const char ALPHA[] = "a./\\b";
static long powl5(int e) { long r = 1; while (e-- > 0) r *= 5; return r; }
static long strCount(int maxLen) { long t = 0; for (int l = 0; l <= maxLen; ++l) t += powl5(l); return t; }
static size_t strAt(long idx, char* out) { int l = 0; while (idx >= powl5(l)) { idx -= powl5(l); ++l; } for (int i = 0; i < l; ++i) { out[i] = ALPHA[idx % 5]; idx /= 5; } out[l] = 0; return (size_t)l; }


// Enumerated modes: the case number printed in replay files is idx * 16 + scale, so that `--start <case> --cases 1` (the driver's replay
// command, which does not repeat --scale) re-executes exactly that case of exactly that enumeration.
struct EnumRange { long scale, lo, hi; };
static EnumRange enumRange(long (*total)(int), long defScale, long minScale, long maxScale) {
  EnumRange e; bool replay = opts.cases >= 0 && opts.start >= 16;
  e.scale = replay ? opts.start % 16 : (opts.scale > 1 ? opts.scale : defScale); if (e.scale < minScale) e.scale = minScale; if (e.scale > maxScale) e.scale = maxScale;
  long t = total((int)e.scale);
  e.lo = replay ? opts.start / 16 : opts.start; e.hi = opts.cases < 0 ? t : e.lo + opts.cases; if (e.hi > t) e.hi = t;
  return e;
}
static long strTotal(int scale) { return strCount(scale - 2); }
static long compTotal(int scale) { return strCount(scale); }

static void pathsStr() {
  EnumRange er = enumRange(strTotal, 8, 3, 12); int P = (int)er.scale - 2;
  for (long idx = er.lo; idx < er.hi; ++idx) {
    if (!mine(idx)) continue;
    beginCase(idx * 16 + er.scale);
    char s[40]; size_t n = strAt(idx, s);
    hist.addf("# all path strings with prefix \"%s\" (+0..2 more characters of \"a./\\b\" when the prefix has length %d)\n", s, P); g_histMark = hist.n;
    bool nontrivial = false; for (size_t i = 0; i < n; ++i) if (s[i] != 'a' && s[i] != 'b') nontrivial = true;
    checkUnary(s, n);
    if ((int)n == P) for (int a = 0; a < 5; ++a) { s[n] = ALPHA[a]; checkUnary(s, n + 1); for (int b = 0; b < 5; ++b) { s[n + 1] = ALPHA[b]; checkUnary(s, n + 2); } }
    s[n] = 0;
    if (idx % 9973 == 7) sample("path strings with prefix \"%s\"", s);
    endCase(mix(11, (u64)idx), nontrivial);
  }
}

// component grammar: n components over COMPS, every separator/lead/trail variant in the inner loop
static const char* COMPS[] = { "a", "b", ".", "..", "a.b" };
static void pathsComp() {
  EnumRange er = enumRange(compTotal, 4, 1, 6);
  static const char* SEPS[] = { "/", "\\", "//" }; static const char* LEAD[] = { "", "/", "\\", "//" }; static const char* TRAIL[] = { "", "/" };
  for (long idx = er.lo; idx < er.hi; ++idx) {
    if (!mine(idx)) continue;
    beginCase(idx * 16 + er.scale);
    long v = idx; int n = 0; while (v >= powl5(n)) { v -= powl5(n); ++n; }
    int comp[8]; for (int i = 0; i < n; ++i) { comp[i] = (int)(v % 5); v /= 5; }
    hist.add("# components:"); for (int i = 0; i < n; ++i) hist.addf(" %s", COMPS[comp[i]]); hist.add(" with every lead/separator/trail variant\n"); g_histMark = hist.n;
    long nsep = 1; for (int i = 0; i + 1 < n; ++i) nsep *= 3;
    for (long sv = 0; sv < nsep; ++sv) for (int ld = 0; ld < 4; ++ld) for (int tr = 0; tr < 2; ++tr) {
      Text p; p.add(LEAD[ld]); long s = sv;
      for (int i = 0; i < n; ++i) { if (i) { p.add(SEPS[s % 3]); s /= 3; } p.add(COMPS[comp[i]]); }
      p.add(TRAIL[tr]);
      checkUnary(p.c(), p.n);
    }
    if (idx % 997 == 5) sample("%s", hist.c());
    endCase(mix(12, (u64)idx), n >= 2);
  }
}

// pairs for getRelativePath: from = case, to = inner loop; components over {a, b, .., .}
static const char* RCOMPS[] = { "a", "b", "..", "." };
static long pow4(int e) { long r = 1; while (e-- > 0) r *= 4; return r; }
static long relCount(int N) { long t = 0; for (int l = 0; l <= N; ++l) t += pow4(l); return t * 2; }
static void relAt(long idx, Text& out, Rng* r) {
  bool abs = idx & 1; idx >>= 1; int n = 0; while (idx >= pow4(n)) { idx -= pow4(n); ++n; }
  if (abs) out.add(r && r->chance(1, 8) ? "\\" : "/");
  for (int i = 0; i < n; ++i) { if (i) out.add(r && r->chance(1, 6) ? (r->chance(1, 2) ? "\\" : "//") : "/"); out.add(RCOMPS[idx % 4]); idx /= 4; }
  if (r && n && r->chance(1, 6)) out.add("/");
}
static long relTotal(int scale) { return relCount(scale); }
static void pathsRel() {
  EnumRange er = enumRange(relTotal, 3, 1, 5); int N = (int)er.scale; long total = relCount(N);
  for (long idx = er.lo; idx < er.hi; ++idx) {
    if (!mine(idx)) continue;
    beginCase(idx * 16 + er.scale);
    Rng r(opts.seed, 1903, (u64)idx);
    Text from; relAt(idx, from, 0);
    hist.addf("# from = \"%s\", to = every path of <= %d components over {a, b, .., .}, absolute and relative (separator style varied by seed)\n", from.c(), N); g_histMark = hist.n;
    for (long j = 0; j < total; ++j) {
      Text to; relAt(j, to, &r);
      Text f2; if (r.chance(1, 4)) relAt(idx, f2, &r); else f2.add(from.c());
      checkRel(f2.c(), f2.n, to.c(), to.n);
    }
    if (idx % 97 == 3) sample("%s", hist.c());
    endCase(mix(13, (u64)idx), true);
  }
}

static void pathsRand() {
  static const char* NAMES[] = { "foo", "bar.txt", ".hidden", "a.tar.gz", "..", ".", "...", "x y", "a", "b", "dir.d", "name.", "..a", "a..b", "UPPER.Ext", "\xc3\xa4.\xc3\xb6" };
  for (long idx = opts.start; idx < opts.start + opts.cases; ++idx) {
    if (!mine(idx)) continue;
    beginCase(idx);
    Rng r(opts.seed, 1904, (u64)idx);
    hist.add("# random longer paths\n"); g_histMark = hist.n;
    Text a, b; Text* ps[2] = { &a, &b };
    bool absBoth = r.chance(1, 2); int shared = (int)r.range(0, 4);
    Text prefix; for (int i = 0; i < shared; ++i) { prefix.add(NAMES[r.below(r.chance(1, 4) ? 16 : 11)]); prefix.add("/"); }
    for (int k = 0; k < 2; ++k) {
      Text& p = *ps[k];
      if (absBoth || r.chance(1, 10)) p.add(r.chance(1, 6) ? "\\" : "/");
      if (r.chance(2, 3)) p.add(prefix.c());
      int n = (int)r.range(0, 9);
      for (int i = 0; i < n; ++i) { if (i) p.add(r.chance(1, 5) ? (r.chance(1, 2) ? "\\" : "//") : "/"); p.add(NAMES[r.below(16)]); }
      if (r.chance(1, 5)) p.add("/");
    }
    checkUnary(a.c(), a.n); checkUnary(b.c(), b.n);
    checkRel(a.c(), a.n, b.c(), b.n); checkRel(b.c(), b.n, a.c(), a.n);
    if (idx % 4001 == 1) sample("\"%s\" , \"%s\"", a.c(), b.c());
    endCase(mix(mix(14, (u64)idx), a.n * 131 + b.n), true);
  }
}

// =================================================================================================== files: histories against an inode model
#include <dirent.h>
#include <sys/stat.h>
#include <errno.h>

typedef Vec<u8> Bytes;
static void bset(Bytes& v, const u8* p, size_t n) { v.n = 0; v.grow(n ? n : 1); if (n) memcpy(v.d, p, n); v.n = n; }
static void bwrite(Bytes& v, size_t pos, const u8* p, size_t n) {
  if (!n) return;
  size_t ns = pos + n > v.n ? pos + n : v.n; v.grow(ns);
  if (pos > v.n) memset(v.d + v.n, 0, pos - v.n);
  memcpy(v.d + pos, p, n); v.n = ns;
}
struct Ino { Bytes d; };
struct Hnd { File* f; bool open; int ino; long pos; bool r, w; };
// spellings of one directory entry <case dir>/<leaf> (mode files-alias); all are pairwise textually different
static const char* const SPELL[] = { "plain", "dot-component", "subdir-dotdot", "double-separator", "other-absoluteness", "symlinked-directory", "symlink-to-parent", "parent-and-back" };
enum { NSPELL = 8 };
struct FCase {
  Vec<Ino*> inos; int name[3]; Hnd h[2]; char dir[160]; char pbuf[4][240]; int pk; bool absolute; long idx; char leaf[3][16];   // leaf[i] = directory entry name of file i ("f0".."f2", or dot-prefixed names)
  const char* path(int i) { char* b = pbuf[pk++ & 3]; snprintf(b, 240, "%s/%s", dir, leaf[i]); return b; }
  const char* sub(const char* s) { char* b = pbuf[pk++ & 3]; snprintf(b, 240, "%s/%s", dir, s); return b; }
  // the path argument handed to the library: style 0 is what path()/sub() produce
  const char* spell(const char* leaf, int style) {
    char* b = pbuf[pk++ & 3]; int k;
    switch (style) {
    case 1: k = absolute ? snprintf(b, 240, "%s/./%s", dir, leaf) : snprintf(b, 240, "./%s/%s", dir, leaf); break;
    case 2: k = snprintf(b, 240, "%s/d/../%s", dir, leaf); break;
    case 3: k = snprintf(b, 240, "%s//%s", dir, leaf); break;
    case 4: k = absolute ? snprintf(b, 240, "F%ld/%s", idx, leaf) : snprintf(b, 240, "%s/F%ld/%s", scratch::root, idx, leaf); break;
    case 5: k = absolute ? snprintf(b, 240, "%s/F%ldL/%s", scratch::root, idx, leaf) : snprintf(b, 240, "F%ldL/%s", idx, leaf); break;   // F<idx>L -> F<idx>
    case 6: k = snprintf(b, 240, "%s/d/up/%s", dir, leaf); break;                                                                          // d/up -> ..
    case 7: k = snprintf(b, 240, "%s/../F%ld/%s", dir, idx, leaf); break;
    default: k = snprintf(b, 240, "%s/%s", dir, leaf); break;
    }
    if (k >= 240) harnessBug("path too long");
    return b;
  }
  int newIno() { inos.push(new Ino); return (int)inos.n - 1; }
};
static FCase* F = 0;

// returns 0 missing, 1 regular file (content in out), 2 something else
static int diskRead(const char* path, Bytes& out) {
  struct stat st; if (lstat(path, &st) != 0) return 0;
  if (!S_ISREG(st.st_mode)) return 2;
  int fd = open(path, O_RDONLY); if (fd < 0) harnessBug("cannot open %s for verification: %s", path, strerror(errno));
  out.n = 0; out.grow((size_t)st.st_size + 1); size_t got = 0;
  for (;;) { if (got == out.cap) out.grow(out.cap * 2); ssize_t k = read(fd, out.d + got, out.cap - got); if (k < 0) harnessBug("read %s: %s", path, strerror(errno)); if (!k) break; got += (size_t)k; }
  out.n = got; close(fd); return 1;
}

struct Inj { bool on; int fn; long nth; int err; long sh; };
static Inj g_inj; static bool g_injAllowed = true;
static void planInj(Rng& r, const int* fns, int nf, int maxNth) {
  g_inj.on = false; if (!g_injAllowed || !r.chance(1, 6)) return;
  static const int errs[] = { ENOSPC, EIO, EACCES };
  g_inj.on = true; g_inj.fn = fns[r.below((u64)nf)]; g_inj.nth = r.range(1, maxNth); g_inj.err = errs[r.below(3)]; g_inj.sh = -1;
}
static const char* injTag() { static char b[64]; if (!g_inj.on) return ""; snprintf(b, sizeof b, ",inject=%s%s", fsshim::fnName(g_inj.fn), g_inj.sh >= 0 ? "-short" : ""); return b; }
static void injHist() { if (g_inj.on) hist.addf("   [failpoint: call #%ld of %s %s]\n", g_inj.nth, fsshim::fnName(g_inj.fn), g_inj.sh >= 0 ? "transfers fewer bytes" : strerror(g_inj.err)); }
static inline void arm() { if (g_inj.on) fsshim::arm(g_inj.fn, g_inj.nth, g_inj.err, g_inj.sh); }
static inline bool disarm() { bool f = g_inj.on && fsshim::fired() > 0; fsshim::disarm(); if (f) { cnt("ops_with_injected_failure"); setItem("injected_functions", fsshim::fnName(g_inj.fn)); } return f; }

static void resyncName(int i) {
  Bytes d; int k = diskRead(F->path(i), d);
  if (k != 1) { F->name[i] = -1; return; }
  if (F->name[i] < 0) F->name[i] = F->newIno();
  bset(F->inos[(size_t)F->name[i]]->d, d.d, d.n);
}
#ifndef VERIF_NO_PRIVATE
static int fdOf(Hnd& h) { return (int)(intptr_t)h.f->fp; }
static long posOf(Hnd& h) { return (long)lseek(fdOf(h), 0, SEEK_CUR); }
#else   // fallback flavour: no access to the descriptor; the offset is read through the public seek()
static int fdOf(Hnd&) { return -1; }
static long posOf(Hnd& h) { return (long)h.f->seek(0, File::currentPosition); }
#endif
static void resyncPos(Hnd& h) { if (h.open) h.pos = posOf(h); }

static void verifyDisk() {
  char k[220];
  for (int i = 0; i < 3; ++i) {
    Bytes d; int st = diskRead(F->path(i), d);
    if (F->name[i] < 0) { if (st) { snprintf(k, sizeof k, "%s/new-file-left-behind", (const char*)ctx); fail(k, "f%d exists on disk (%s, %lu bytes) although no successful operation created it", i, st == 1 ? "regular file" : "not a regular file", (unsigned long)d.n); } }
    else {
      Bytes& m = F->inos[(size_t)F->name[i]]->d;
      if (st != 1) { snprintf(k, sizeof k, "%s/file-missing", (const char*)ctx); fail(k, "f%d should exist with %lu bytes but %s", i, (unsigned long)m.n, st ? "is not a regular file" : "is missing"); }
      if (d.n != m.n || (m.n && memcmp(d.d, m.d, m.n))) { size_t at = 0; while (at < d.n && at < m.n && d.d[at] == m.d[at]) ++at; snprintf(k, sizeof k, "%s/content", (const char*)ctx); fail(k, "f%d on disk has %lu bytes, model %lu, first difference at offset %lu", i, (unsigned long)d.n, (unsigned long)m.n, (unsigned long)at); }
      cnt("bytes_compared", (long)m.n);
    }
  }
  DIR* dp = opendir(F->dir); if (!dp) harnessBug("opendir %s", F->dir);
  while (struct dirent* e = readdir(dp)) {
    const char* n = e->d_name; if (!strcmp(n, ".") || !strcmp(n, "..") || !strcmp(n, "d")) continue;
    int li = -1; for (int i = 0; i < 3; ++i) if (!strcmp(n, F->leaf[i])) li = i;
    if (li >= 0 && F->name[li] >= 0) continue;
    snprintf(k, sizeof k, "%s/new-file-left-behind", (const char*)ctx); fail(k, "directory entry \"%s\" appeared although no successful operation created it", n);
  }
  closedir(dp); cnt("listing_checks");
  for (int i = 0; i < 2; ++i) {
    Hnd& h = F->h[i];
    if (h.f->isOpen() != h.open) { snprintf(k, sizeof k, "%s/isOpen", (const char*)ctx); fail(k, "isOpen() = %d, model %d", (int)h.f->isOpen(), (int)h.open); }
    if (!h.open) continue;
    int fd = fdOf(h); long p = posOf(h);
    if (p != h.pos) { snprintf(k, sizeof k, "%s/position", (const char*)ctx); fail(k, "handle %d is at offset %ld, model %ld", i, p, h.pos); }
    Bytes& m = F->inos[(size_t)h.ino]->d; struct stat st;
    if (fd >= 0 && (fstat(fd, &st) != 0 || (size_t)st.st_size != m.n)) { snprintf(k, sizeof k, "%s/open-file-size", (const char*)ctx); fail(k, "file behind handle %d has %ld bytes, model %lu", i, (long)st.st_size, (unsigned long)m.n); }
  }
}

static long pickSize(Rng& r) { u64 c = r.below(100); if (c < 70) return r.range(0, 64); if (c < 85) return r.range(4095, 4097); if (c < 95) return r.range(1000, 9000); return r.range(65535, 70000); }
static const char* flagStr(uint fl) { static char b[8]; int n = 0; if (fl & File::readFlag) b[n++] = 'r'; if (fl & File::writeFlag) b[n++] = 'w'; if (fl & File::appendFlag) b[n++] = 'a'; if (fl & File::openFlag) b[n++] = 'o'; if (!n) b[n++] = '0'; b[n] = 0; return b; }
#define FKEY(kind) (snprintf(kbuf, sizeof kbuf, "%s/%s", (const char*)ctx, kind), kbuf)

static void fileHistories(bool alias) {
  fsshim::setPrefix(scratch::root);
  if (chdir(scratch::root) != 0) harnessBug("chdir scratch");
  g_injAllowed = !excluded("no-injection");
  char kbuf[240];
  for (long idx = opts.start; idx < opts.start + opts.cases; ++idx) {
    if (!mine(idx)) continue;
    beginCase(idx);
    Rng r(opts.seed, alias ? 1907 : 1905, (u64)idx);
    FCase fc; F = &fc; fc.pk = 0; fc.idx = idx;
    bool absolute = r.chance(1, 4); fc.absolute = absolute;
    { // names of the three files: ordinary, or starting with dots (ordinary directory entries as well; only "." and ".." are special)
      static const char* const LEAVES[4][3] = { { "..f0", "..f1", "..f2" }, { "...", "..data", ".hidden" }, { "..a", "f1", "...." }, { ".f0", "f1.", "..2024_03_01" } };
      int style = (int)r.below(8); for (int i = 0; i < 3; ++i) { if (style < 5) snprintf(fc.leaf[i], sizeof fc.leaf[i], "f%d", i); else snprintf(fc.leaf[i], sizeof fc.leaf[i], "%s", LEAVES[style == 5 ? 0 : 1 + (int)(idx % 3)][i]); }
      if (style >= 5) { cnt("file_cases_with_dot_prefixed_names"); for (int i = 0; i < 3; ++i) setItem("file_leaf_names", fc.leaf[i]); } }
    if (absolute) snprintf(fc.dir, sizeof fc.dir, "%s/F%ld", scratch::root, idx); else snprintf(fc.dir, sizeof fc.dir, "F%ld", idx);
    char sideLink[200]; snprintf(sideLink, sizeof sideLink, "%s/F%ldL", scratch::root, idx);
    { char p[200]; snprintf(p, sizeof p, "%s/F%ld", scratch::root, idx); scratch::rmrf(p); scratch::rmrf(sideLink); }
    if (mkdir(fc.dir, 0700) != 0 || mkdir(fc.sub("d"), 0700) != 0) harnessBug("mkdir case dir %s: %s", fc.dir, strerror(errno));
    if (alias) { char t[40]; snprintf(t, sizeof t, "F%ld", idx); if (symlink(t, sideLink) != 0 || symlink("..", fc.sub("d/up")) != 0) harnessBug("symlinks for the aliased spellings: %s", strerror(errno)); }
    for (int i = 0; i < 3; ++i) fc.name[i] = -1;
    for (int i = 0; i < 2; ++i) { fc.h[i].f = new File; fc.h[i].open = false; fc.h[i].ino = -1; fc.h[i].pos = 0; fc.h[i].r = fc.h[i].w = false; }
    int nops = (int)r.range(15, 90);
    int w[16]; int tot = 0; for (int i = 0; i < 16; ++i) { w[i] = r.chance(1, 5) ? 0 : (int)r.range(1, 8); } w[0] += 4; w[2] += 3; for (int i = 0; i < 16; ++i) tot += w[i];
    hist.addf("# file history in %s (names f0 = \"%s\", f1 = \"%s\", f2 = \"%s\", directory d, 2 handles), %d ops\n", fc.dir, fc.leaf[0], fc.leaf[1], fc.leaf[2], nops);
    int nsweep = 0;
    if (alias) { nsweep = 12; hist.addf("# path arguments in different spellings of the same entry (F%ldL -> F%ld and d/up -> .. are symbolic links); the last %d ops are failing calls on a missing name\n", idx, idx, nsweep); }
    u64 fp = 0; int okMoves = 0, failures = 0; long aliasFailures = 0;
    for (int o = 0; o < nops + nsweep; ++o) {
      int pick = (int)r.below((u64)tot), kind = 0; while (pick >= w[kind]) pick -= w[kind++];
      int hi = (int)r.below(2); Hnd& h = fc.h[hi]; int a = (int)r.below(3), b = (int)r.below(3);
      // files-alias: s1/s2 = spelling of the first/second path argument. sweep = forced failing call: the (first) path names a missing file, the
      // second one is with probability 1/2 the same entry in a different spelling
      int s1 = 0, s2 = 0; bool sweep = o >= nops;
      if (alias) { s1 = r.chance(1, 4) ? 0 : (int)r.below(NSPELL); s2 = r.chance(1, 4) ? 0 : (int)r.below(NSPELL); }
      if (sweep) {
        static const int SK[] = { 12, 12, 12, 13, 14, 11, 10, 9, 0, 12 }; kind = SK[r.below(10)];
        int miss[3], nm = 0; for (int i = 0; i < 3; ++i) if (fc.name[i] < 0) miss[nm++] = i;
        if (nm) a = miss[r.below((u64)nm)]; else kind = 11;   // nothing is missing: a successful unlink first
        if (kind == 12 || kind == 13) { if (r.chance(1, 2)) b = a; }
        s1 = (int)r.below(NSPELL); s2 = (int)((s1 + 1 + (int)r.below(NSPELL - 1)) % NSPELL);
      }
      char la[16], lb[16]; snprintf(la, sizeof la, "%s", fc.leaf[a]); snprintf(lb, sizeof lb, "%s", fc.leaf[b]);
      fp = mix(fp, (u64)kind * 64 + (u64)a * 8 + (u64)b); if (alias) fp = mix(fp, (u64)(s1 * NSPELL + s2));
      int failuresBefore = failures; bool twoPaths = kind >= 12, onePath = kind == 0 || (kind >= 9 && kind <= 11);
      g_inj.on = false;
      switch (kind) {
      case 0: { // open
        static const uint FL[] = { File::readFlag, File::writeFlag, File::readFlag | File::writeFlag, File::writeFlag | File::appendFlag, File::readFlag | File::writeFlag | File::appendFlag,
                                   File::writeFlag | File::openFlag, File::readFlag | File::writeFlag | File::openFlag, File::writeFlag | File::appendFlag | File::openFlag, File::readFlag | File::appendFlag, 0 };
        uint fl = FL[r.below(10)]; int tgt = (int)r.below(20);   // 0: directory with write access, 1: inside a missing directory, else a file name
        if (sweep) { fl = r.chance(1, 2) ? (uint)File::readFlag : (uint)(File::writeFlag | File::openFlag); tgt = 2; }
        bool rw = (fl & 3) == 3, wOnly = !rw && (fl & File::writeFlag), rOnly = !rw && !wOnly;
        if (tgt == 0 && rOnly) tgt = 2;
        const char* p = fc.spell(tgt == 0 ? "d" : tgt == 1 ? "nodir/x" : la, s1);
        bool exists = tgt > 1 && fc.name[a] >= 0;
        static const int fns[] = { fsshim::F_OPEN }; planInj(r, fns, 1, 1); if (sweep) g_inj.on = false;
        setctxf("File.open/flags=%s,target=%s%s%s%s", flagStr(fl), tgt == 0 ? "directory" : tgt == 1 ? "in-missing-directory" : exists ? "existing" : "missing", h.open ? ",handle-already-open" : "", s1 ? ",path=aliased" : "", injTag());
        hist.addf("h%d.open(\"%s\", %s)\n", hi, p, flagStr(fl)); injHist();
        arm(); bool ret = h.f->open(String(p, strlen(p)), fl); bool inj = disarm();
        bool create = (rw || wOnly) && !(fl & File::openFlag), trunc = wOnly && !(fl & (File::openFlag | File::appendFlag));
        bool want = !h.open && !inj && tgt > 1 && (exists || create);
        if (ret != want) fail(FKEY("result"), "open returned %d, expected %d", (int)ret, (int)want);
        if (!want) ++failures;
        if (want) {
          if (!exists) fc.name[a] = fc.newIno();
          Bytes& d = fc.inos[(size_t)fc.name[a]]->d; if (trunc) d.n = 0;
          h.open = true; h.ino = fc.name[a]; h.r = rw || rOnly; h.w = rw || wOnly; h.pos = (fl & File::appendFlag) ? (long)d.n : 0;
        }
        cnt("op_open"); break; }
      case 1: { setctx("File.close"); hist.addf("h%d.close()\n", hi); h.f->close(); h.open = false; cnt("op_close"); break; }
      case 2: case 3: { // write
        if (!h.open) break;
        long n = pickSize(r); u8* buf = (u8*)malloc(n ? (size_t)n : 1); for (long i = 0; i < n; ++i) buf[i] = (u8)r.next();
        static const int fns[] = { fsshim::F_WRITE }; planInj(r, fns, 1, 1);
        if (g_inj.on && n >= 2 && r.chance(1, 2)) g_inj.sh = r.range(1, n - 1);
        bool asString = kind == 3;
        setctxf("File.write(%s)/%s%s", asString ? "String" : "buffer", h.w ? "writable" : "read-only-handle", injTag());
        hist.addf("h%d.write(%s %ld bytes) at %ld\n", hi, asString ? "String of" : "", n, h.pos); injHist();
        long ret; bool bret = false;
        if (asString) { String s((const char*)buf, (usize)n); arm(); bret = h.f->write(s); ret = bret ? n : -2; } else { arm(); ret = (long)h.f->write(buf, (usize)n); }
        bool inj = disarm();
        long want = !h.w ? -1 : inj ? (g_inj.sh >= 0 ? g_inj.sh : -1) : n;
        if (asString) { if (bret != (want == n)) fail(FKEY("result"), "write(String) returned %d but %ld of %ld bytes were to be written", (int)bret, want, n); }
        else if (ret != want) fail(FKEY("result"), "write returned %ld, expected %ld", ret, want);
        if (want > 0) { bwrite(fc.inos[(size_t)h.ino]->d, (size_t)h.pos, buf, (size_t)want); h.pos += want; }
        if (want != n) ++failures;
        free(buf); cnt("op_write"); cnt("bytes_written", want > 0 ? want : 0); break; }
      case 4: { // read
        if (!h.open) break;
        long n = pickSize(r); u8* buf = (u8*)malloc(n ? (size_t)n : 1);
        static const int fns[] = { fsshim::F_READ }; planInj(r, fns, 1, 1);
        setctxf("File.read/%s%s", h.r ? "readable" : "write-only-handle", injTag());
        hist.addf("h%d.read(%ld) at %ld\n", hi, n, h.pos); injHist();
        arm(); long ret = (long)h.f->read(buf, (usize)n); bool inj = disarm();
        Bytes& d = fc.inos[(size_t)h.ino]->d; long avail = (long)d.n - h.pos; if (avail < 0) avail = 0; long want = !h.r || inj ? -1 : (n < avail ? n : avail);
        if (ret != want) fail(FKEY("result"), "read returned %ld, expected %ld", ret, want);
        if (want > 0) { if (memcmp(buf, d.d + h.pos, (size_t)want)) fail(FKEY("content"), "read returned different bytes than were written (offset %ld, %ld bytes)", h.pos, want); h.pos += want; cnt("bytes_compared", want); }
        if (want < 0) ++failures;
        free(buf); cnt("op_read"); break; }
      case 5: { // readAll on a handle
        if (!h.open) break;
        static const int fns[] = { fsshim::F_READ, fsshim::F_LSEEK }; planInj(r, fns, 2, 2); if (g_inj.on && g_inj.fn == fsshim::F_READ) g_inj.nth = 1;
        setctxf("File.readAll(handle)/%s%s", h.r ? "readable" : "write-only-handle", injTag());
        hist.addf("h%d.readAll() at %ld\n", hi, h.pos); injHist();
        String data("previous content");
        arm(); bool ret = h.f->readAll(data); bool inj = disarm();
        bool want = h.r && !inj;
        if (ret != want) fail(FKEY("result"), "readAll returned %d, expected %d", (int)ret, (int)want);
        if (want) { Bytes& d = fc.inos[(size_t)h.ino]->d; long avail = (long)d.n - h.pos; if (avail < 0) avail = 0;
          if ((long)data.length() != avail || (avail && memcmp(sdata(data), d.d + h.pos, (size_t)avail))) fail(FKEY("content"), "readAll returned %lu bytes, expected the %ld bytes from offset %ld to the end", (unsigned long)data.length(), avail, h.pos);
          h.pos += avail; cnt("bytes_compared", avail); }
        else { ++failures; resyncPos(h); }
        cnt("op_readAll"); break; }
      case 6: { // seek
        if (!h.open) break;
        Bytes& d = fc.inos[(size_t)h.ino]->d; int wh = (int)r.below(3); long base = wh == 0 ? 0 : wh == 1 ? h.pos : (long)d.n;
        long off = r.chance(1, 40) ? r.range(50000, 100000) : r.range(-base - 2, (long)d.n - base + 10);
        static const int fns[] = { fsshim::F_LSEEK }; planInj(r, fns, 1, 1);
        setctxf("File.seek/%s,%s%s", wh == 0 ? "set" : wh == 1 ? "current" : "end", base + off < 0 ? "before-start" : base + off > (long)d.n ? "beyond-end" : "inside", injTag());
        hist.addf("h%d.seek(%ld, %s)\n", hi, off, wh == 0 ? "set" : wh == 1 ? "current" : "end"); injHist();
        arm(); long ret = (long)h.f->seek(off, wh == 0 ? File::setPosition : wh == 1 ? File::currentPosition : File::endPosition); bool inj = disarm();
        long want = inj || base + off < 0 ? -1 : base + off;
        if (ret != want) fail(FKEY("result"), "seek returned %ld, expected %ld", ret, want);
        if (want >= 0) h.pos = want; else ++failures;
        cnt("op_seek"); break; }
      case 7: { // size
        if (!h.open) break;
        static const int fns[] = { fsshim::F_LSEEK }; planInj(r, fns, 1, 3);
        setctxf("File.size%s", injTag()); hist.addf("h%d.size()\n", hi); injHist();
        arm(); long ret = (long)h.f->size(); bool inj = disarm();
        long want = inj ? -1 : (long)fc.inos[(size_t)h.ino]->d.n;
        if (ret != want) fail(FKEY("result"), "size returned %ld, expected %ld", ret, want);
        if (inj) { ++failures; resyncPos(h); }
        cnt("op_size"); break; }
      case 8: { if (!h.open) break; setctx("File.flush"); hist.addf("h%d.flush()\n", hi); if (!h.f->flush()) fail(FKEY("result"), "flush returned false"); cnt("op_flush"); break; }
      case 9: { // static readAll
        int tgt = (int)r.below(12); if (sweep) tgt = 1;
        const char* p = fc.spell(tgt == 0 ? "nodir/x" : la, s1); bool exists = tgt && fc.name[a] >= 0;
        static const int fns[] = { fsshim::F_OPEN, fsshim::F_READ }; planInj(r, fns, 2, 1); if (sweep) g_inj.on = false;
        setctxf("File.readAll(path)/%s%s%s", exists ? "existing" : "missing", s1 ? ",path=aliased" : "", injTag()); hist.addf("File::readAll(\"%s\")\n", p); injHist();
        String data("previous content");
        arm(); bool ret = File::readAll(String(p, strlen(p)), data); bool inj = disarm();
        bool want = exists && !inj;
        if (ret != want) fail(FKEY("result"), "readAll returned %d, expected %d", (int)ret, (int)want);
        if (want) { Bytes& d = fc.inos[(size_t)fc.name[a]]->d; if (data.length() != d.n || (d.n && memcmp(sdata(data), d.d, d.n))) fail(FKEY("content"), "readAll returned %lu bytes that differ from the %lu bytes written", (unsigned long)data.length(), (unsigned long)d.n); cnt("bytes_compared", (long)d.n); }
        else ++failures;
        cnt("op_readAll_path"); break; }
      case 10: { // exists
        int tgt = (int)r.below(8); if (sweep) tgt = 2;
        const char* p = fc.spell(tgt == 0 ? "d" : tgt == 1 ? "nodir/x" : la, s1); bool want = tgt == 0 || (tgt > 1 && fc.name[a] >= 0);
        setctxf("File.exists/%s%s", tgt == 0 ? "directory" : want ? "existing" : "missing", s1 ? ",path=aliased" : ""); hist.addf("File::exists(\"%s\")\n", p);
        bool ret = File::exists(String(p, strlen(p)));
        if (ret != want) fail(FKEY("result"), "exists returned %d, expected %d", (int)ret, (int)want);
        if (!want && s1) { ++aliasFailures; cnt("failing_calls_with_aliased_path"); }
        cnt("op_exists"); break; }
      case 11: { // unlink
        int tgt = (int)r.below(10); if (sweep) tgt = 1;
        const char* p = fc.spell(tgt == 0 ? "d" : la, s1); bool exists = tgt && fc.name[a] >= 0;
        static const int fns[] = { fsshim::F_UNLINK }; planInj(r, fns, 1, 1); if (sweep) g_inj.on = false;
        setctxf("File.unlink/%s%s%s", tgt == 0 ? "directory" : exists ? "existing" : "missing", s1 ? ",path=aliased" : "", injTag()); hist.addf("File::unlink(\"%s\")\n", p); injHist();
        arm(); bool ret = File::unlink(String(p, strlen(p))); bool inj = disarm();
        bool want = exists && !inj;
        if (ret != want) fail(FKEY("result"), "unlink returned %d, expected %d", (int)ret, (int)want);
        if (want) fc.name[a] = -1; else ++failures;
        cnt("op_unlink"); break; }
      case 12: case 13: { // rename
        bool fie = r.chance(1, 2); int sc = (int)r.below(12), dc = (int)r.below(12);   // source class 0: directory, dest class 0: inside a missing directory
        if (sc == 0 && !fie) sc = 1;    // renaming the directory itself away is a successful directory move, not a file operation
        if (sweep) { sc = 1; if (dc == 0 && a == b) dc = 1; if (r.chance(1, 2)) fie = true; }
        const char* src = fc.spell(sc == 0 ? "d" : la, s1); const char* dst = fc.spell(dc == 0 ? "nodir/x" : lb, s2);
        bool sEx = sc && fc.name[a] >= 0, dEx = dc && fc.name[b] >= 0; bool same = sc && dc && a == b; bool respelled = same && s1 != s2;   // same entry, textually different arguments
        static const int fns[] = { fsshim::F_RENAME, fsshim::F_OPEN }; planInj(r, fns, 2, 1); if (g_inj.on && g_inj.fn == fsshim::F_OPEN && !fie) g_inj.fn = fsshim::F_RENAME;
        if (sweep) g_inj.on = false;
        setctxf("File.rename/src=%s,dst=%s,%s%s%s", sc == 0 ? "directory" : sEx ? (respelled ? "existing-alias-of-dst" : same ? "existing-same-as-dst" : "existing") : (respelled ? "missing-alias-of-dst" : same ? "missing-same-as-dst" : "missing"),
                dc == 0 ? "in-missing-directory" : dEx ? "existing" : "missing", fie ? "failIfExists" : "replace", (s1 || s2) ? ",path=aliased" : "", injTag());
        if (respelled) { char it[96]; snprintf(it, sizeof it, "%s>%s", SPELL[s1], SPELL[s2]); if (!sEx) { cnt(fie ? "rename_missing_source_alias_of_dst_failIfExists" : "rename_missing_source_alias_of_dst_replace"); setItem("rename_missing_alias_pairs", it); } else { cnt("rename_existing_source_alias_of_dst"); setItem("rename_existing_alias_pairs", it); } }
        hist.addf("File::rename(\"%s\", \"%s\", failIfExists=%d)\n", src, dst, (int)fie); injHist();
        arm(); bool ret = File::rename(String(src, strlen(src)), String(dst, strlen(dst)), fie); bool inj = disarm();
        bool want = sEx && dc && !(fie && dEx) && !inj;
        if (ret != want) fail(FKEY("result"), "rename returned %d, expected %d", (int)ret, (int)want);
        if (want) { if (!same) { fc.name[b] = fc.name[a]; fc.name[a] = -1; } ++okMoves; } else ++failures;
        cnt("op_rename"); break; }
      case 14: case 15: { // copy
        bool fie = r.chance(1, 2); int sc = (int)r.below(12), dc = (int)r.below(12);
        if (sweep) sc = 1;
        if (sc && dc && a == b) { b = (a + 1) % 3; snprintf(lb, sizeof lb, "%s", fc.leaf[b]); }   // copying a file onto itself is outside the statement
        const char* src = fc.spell(sc == 0 ? "d" : la, s1); const char* dst = fc.spell(dc == 0 ? "nodir/x" : lb, s2);
        bool sEx = sc && fc.name[a] >= 0, dEx = dc && fc.name[b] >= 0;
        long ssize = sEx ? (long)fc.inos[(size_t)fc.name[a]]->d.n : 0;
        static const int fns[] = { fsshim::F_OPEN, fsshim::F_SENDFILE, fsshim::F_SENDFILE }; planInj(r, fns, 3, 1);
        if (g_inj.on && g_inj.fn == fsshim::F_OPEN) g_inj.nth = r.range(1, 2);
        if (g_inj.on && g_inj.fn == fsshim::F_SENDFILE) { if (ssize >= 1 && r.chance(1, 2)) g_inj.sh = r.range(0, ssize - 1); }
        if (sweep) g_inj.on = false;
        setctxf("File.copy/src=%s,dst=%s,%s%s%s", sc == 0 ? "directory" : sEx ? "existing" : "missing", dc == 0 ? "in-missing-directory" : dEx ? "existing" : "missing", fie ? "failIfExists" : "replace", (s1 || s2) ? ",path=aliased" : "", injTag());
        hist.addf("File::copy(\"%s\", \"%s\", failIfExists=%d)\n", src, dst, (int)fie); injHist();
        arm(); bool ret = File::copy(String(src, strlen(src)), String(dst, strlen(dst)), fie); bool inj = disarm();
        bool want = sEx && dc && !(fie && dEx) && !inj;
        if (ret != want) fail(FKEY("result"), "copy returned %d, expected %d", (int)ret, (int)want);
        if (want) { if (!dEx) fc.name[b] = fc.newIno(); Bytes& s = fc.inos[(size_t)fc.name[a]]->d; Bytes tmp; bset(tmp, s.d, s.n); bset(fc.inos[(size_t)fc.name[b]]->d, tmp.d, tmp.n); ++okMoves; cnt("bytes_copied", (long)s.n); }
        else { ++failures; if (dEx && !fie && dc) resyncName(b); }   // a failed replace may have damaged the old destination; it must only not create anything new
        cnt("op_copy"); break; }
      }
      verifyDisk();
      cnt("ops");
      if (alias && (onePath || twoPaths)) {
        if (s1) { cnt("aliased_path_arguments"); setItem("alias_spellings", SPELL[s1]); }
        if (twoPaths && s2) { cnt("aliased_path_arguments"); setItem("alias_spellings", SPELL[s2]); }
        if (failures > failuresBefore && (s1 || (twoPaths && s2))) { ++aliasFailures; cnt("failing_calls_with_aliased_path"); }
        if (sweep) cnt("sweep_ops");
      }
    }
    setctx("File.destructor");
    for (int i = 0; i < 2; ++i) delete fc.h[i].f;
    for (size_t i = 0; i < fc.inos.n; ++i) delete fc.inos[i];
    { char p[200]; snprintf(p, sizeof p, "%s/F%ld", scratch::root, idx); scratch::rmrf(p); scratch::rmrf(sideLink); }
    if (idx % 211 == 0) sample(alias ? "%.2400s" : "%.1200s", hist.c());
    F = 0;
    endCase(fp, okMoves > 0 && failures > 0 && (!alias || aliasFailures > 0));
  }
}

// =================================================================================================== trees: Directory::create / recursive unlink
struct Ent { char path[220]; char type; long size; u64 h; };
static int entCmp(const void* a, const void* b) { return strcmp(((const Ent*)a)->path, ((const Ent*)b)->path); }
static u64 hashBytes(const void* p, size_t n, u64 h = 1469598103934665603ULL) { const u8* b = (const u8*)p; for (size_t i = 0; i < n; ++i) { h ^= b[i]; h *= 1099511628211ULL; } return h; }
// recursive snapshot through libc; never follows symbolic links
static void snapRec(const char* base, const char* rel, Vec<Ent>& out) {
  char full[400]; snprintf(full, sizeof full, "%s%s%s", base, *rel ? "/" : "", rel);
  DIR* dp = opendir(full); if (!dp) harnessBug("snapshot: opendir %s: %s", full, strerror(errno));
  while (struct dirent* e = readdir(dp)) {
    if (!strcmp(e->d_name, ".") || !strcmp(e->d_name, "..")) continue;
    Ent en; memset(&en, 0, sizeof en);
    if (snprintf(en.path, sizeof en.path, "%s%s%s", rel, *rel ? "/" : "", e->d_name) >= (int)sizeof en.path) harnessBug("snapshot path too long");
    char p[640]; snprintf(p, sizeof p, "%s/%s", base, en.path);
    struct stat st; if (lstat(p, &st) != 0) harnessBug("snapshot: lstat %s", p);
    en.size = 0; en.h = 0;
    if (S_ISDIR(st.st_mode)) en.type = 'd';
    else if (S_ISLNK(st.st_mode)) { en.type = 'l'; char t[300]; ssize_t k = readlink(p, t, sizeof t); if (k < 0) k = 0; en.size = (long)k; en.h = hashBytes(t, (size_t)k); }
    else if (S_ISREG(st.st_mode)) { en.type = 'f'; en.size = (long)st.st_size; int fd = open(p, O_RDONLY); if (fd < 0) harnessBug("snapshot: open %s", p); u8 buf[8192]; u64 h = 1469598103934665603ULL; for (;;) { ssize_t k = read(fd, buf, sizeof buf); if (k <= 0) break; h = hashBytes(buf, (size_t)k, h); } close(fd); en.h = h; }
    else en.type = S_ISFIFO(st.st_mode) ? 'p' : '?';
    out.push(en);
    if (en.type == 'd') snapRec(base, en.path, out);
  }
  closedir(dp);
}
static void snapshot(const char* base, Vec<Ent>& out) { out.clear(); snapRec(base, "", out); if (out.n) qsort(out.d, out.n, sizeof(Ent), entCmp); }
static bool under(const char* path, const char* prefix) { size_t k = strlen(prefix); return k && !strncmp(path, prefix, k) && (path[k] == 0 || path[k] == '/'); }

// compare two snapshots of the case root. `gone`: subtree that was (or may partly be) removed, "" if none. `made`: the first missing component of a created path; new directories may appear at or below it only ("" = nothing may appear).
static void compareSnap(const Vec<Ent>& a, const Vec<Ent>& b, const char* gone, bool goneMustBeComplete, const char* made, long& removedEntries) {
  char k[260]; size_t i = 0, j = 0;
  while (i < a.n || j < b.n) {
    int c = i == a.n ? 1 : j == b.n ? -1 : strcmp(a[i].path, b[j].path);
    if (c < 0) { // disappeared
      if (!under(a[i].path, gone)) { snprintf(k, sizeof k, "%s/%s", (const char*)ctx, under(a[i].path, "outside") ? "outside-entry-removed" : "unrelated-entry-removed"); fail(k, "\"%s\" (%c, %ld bytes) disappeared although it is not inside the removed tree \"%s\"", a[i].path, a[i].type, a[i].size, gone); }
      ++removedEntries; ++i;
    } else if (c > 0) { // appeared
      if (!(b[j].type == 'd' && under(b[j].path, made))) { snprintf(k, sizeof k, "%s/new-entry", (const char*)ctx); fail(k, "\"%s\" (%c) appeared", b[j].path, b[j].type); }
      ++j;
    } else {
      if (goneMustBeComplete && under(a[i].path, gone)) { snprintf(k, sizeof k, "%s/tree-not-removed", (const char*)ctx); fail(k, "\"%s\" still exists after a successful recursive unlink of \"%s\"", a[i].path, gone); }
      if (a[i].type != b[j].type || a[i].size != b[j].size || a[i].h != b[j].h) { snprintf(k, sizeof k, "%s/%s", (const char*)ctx, under(a[i].path, "outside") ? "outside-entry-modified" : "unrelated-entry-modified"); fail(k, "\"%s\" changed (%c %ld bytes -> %c %ld bytes or different content)", a[i].path, a[i].type, a[i].size, b[j].type, b[j].size); }
      cnt("snapshot_entries_compared"); ++i; ++j;
    }
  }
}

struct TreeGen {
  Rng* r; const char* rootAbs; long files, dirs, linksOut, linksOther; Vec<Ent> dirsList, filesList;   // paths relative to the case root
  bool dotty;   // this case uses dot-prefixed entry names
  // name of entry number i of directory `rel`: ordinary name + i, or (dotty cases, every second entry) a name starting with dots: prefix + i, or one of the fixed names
  // (with + i appended when the directory already has it)
  void entryName(char* name, size_t cap, const char* rel, int i) {
    static const char* NM[] = { "a", "b", "c", ".h", "x y", "d.d", "e", "ff" };
    static const char* DOTP[] = { "..", "...", "..d", ".", ".. ", "..-", "....", ".x.", "..a", "..." };
    static const char* DOTX[] = { "..data", "...", "..a", ".hidden", "....", "..2024_03_01", ".. ", "..b.c", ".a..", "..x y", ".profile", "..." };
    if (!dotty || !r->chance(1, 2)) { snprintf(name, cap, "%s/%s%d", rel, NM[r->below(8)], i); return; }
    if (r->chance(1, 2)) { snprintf(name, cap, "%s/%s%d", rel, DOTP[r->below(10)], i); return; }
    const char* x = DOTX[r->below(12)]; snprintf(name, cap, "%s/%s", rel, x);
    char p[600]; snprintf(p, sizeof p, "%s/%s", rootAbs, name); struct stat st; if (lstat(p, &st) == 0) snprintf(name, cap, "%s/%s%d", rel, x, i);
  }
  void noteName(const char* name, const char* type) {
    const char* b = strrchr(name, '/'); b = b ? b + 1 : name; if (b[0] != '.') return;
    if (b[1] == '.') { cnt("tree_entries_built_with_dotdot_prefixed_name"); setItem("dotdot_prefixed_entry_types_built", type); } else cnt("tree_entries_built_with_dot_prefixed_name");
  }
  void wfile(const char* rel, long n) { char p[500]; snprintf(p, sizeof p, "%s/%s", rootAbs, rel); int fd = open(p, O_WRONLY | O_CREAT | O_TRUNC, 0644); if (fd < 0) harnessBug("create %s: %s", p, strerror(errno)); u8 buf[512]; while (n > 0) { size_t k = n > 512 ? 512 : (size_t)n; for (size_t i = 0; i < k; ++i) buf[i] = (u8)r->next(); if (write(fd, buf, k) != (ssize_t)k) harnessBug("write %s", p); n -= (long)k; } close(fd); Ent e; memset(&e, 0, sizeof e); snprintf(e.path, sizeof e.path, "%s", rel); filesList.push(e); ++files; }
  void mkd(const char* rel) { char p[500]; snprintf(p, sizeof p, "%s/%s", rootAbs, rel); if (mkdir(p, 0755) != 0) harnessBug("mkdir %s: %s", p, strerror(errno)); Ent e; memset(&e, 0, sizeof e); snprintf(e.path, sizeof e.path, "%s", rel); dirsList.push(e); ++dirs; }
  void lnk(const char* target, const char* rel) {
    char p[500]; snprintf(p, sizeof p, "%s/%s", rootAbs, rel);
    if (r->chance(1, 3)) { setctx("File.createSymbolicLink"); hist.addf("File::createSymbolicLink(\"%s\", \"%s\")\n", target, p); if (!File::createSymbolicLink(String(target, strlen(target)), String(p, strlen(p)))) fail("File.createSymbolicLink/result", "returned false for a new name: %s", strerror(errno)); char t[300]; ssize_t k = readlink(p, t, sizeof t); if (k != (ssize_t)strlen(target) || memcmp(t, target, (size_t)k)) fail("File.createSymbolicLink/target", "link does not point to the given target"); cnt("op_symlink"); }
    else if (symlink(target, p) != 0) harnessBug("symlink %s: %s", p, strerror(errno));
  }
  // fill directory `rel` (depth levels below the case root) with random entries
  void fill(const char* rel, int depth, int maxDepth, bool isTree) {
    int n = (int)r->range(depth <= 1 ? 2 : 0, 5); char up[64] = ""; for (int i = 0; i < depth; ++i) strcat(up, "../");
    for (int i = 0; i < n; ++i) {
      char name[300]; entryName(name, sizeof name, rel, i); char tgt[300];
      int kind = (int)r->below(isTree ? 16 : 6);
      if (kind != 13 || filesList.n) noteName(name, kind < 3 || (kind < 6 && depth >= maxDepth) ? "file" : kind < 6 ? "directory" : kind < 14 ? "symlink" : kind == 14 ? "fifo" : "hardlink");
      switch (kind) {
      case 0: case 1: case 2: wfile(name, r->chance(1, 10) ? r->range(4000, 9000) : r->range(0, 200)); break;
      case 3: case 4: case 5: if (depth < maxDepth) { mkd(name); fill(name, depth + 1, maxDepth, isTree); } else wfile(name, 3); break;
      case 6: snprintf(tgt, sizeof tgt, "%soutside/o1", up); if (r->chance(1, 3)) snprintf(tgt, sizeof tgt, "%s/outside/o1", rootAbs); lnk(tgt, name); ++linksOut; break;
      case 7: case 8: snprintf(tgt, sizeof tgt, "%soutside%s", up, r->chance(1, 2) ? "/od" : ""); if (r->chance(1, 3)) snprintf(tgt, sizeof tgt, "%s/outside/od", rootAbs); lnk(tgt, name); ++linksOut; break;
      case 9: snprintf(tgt, sizeof tgt, "%ssib", up); lnk(tgt, name); ++linksOut; break;
      case 10: lnk("no/such/target", name); ++linksOther; break;
      case 11: lnk(r->chance(1, 2) ? "." : "..", name); ++linksOther; break;
      case 12: { const char* b = strrchr(name, '/') + 1; lnk(b, name); ++linksOther; break; }   // link to itself
      case 13: if (filesList.n) { snprintf(tgt, sizeof tgt, "%s%s", up, filesList[r->below(filesList.n)].path); lnk(tgt, name); ++linksOther; } break;
      case 14: { char p[500]; snprintf(p, sizeof p, "%s/%s", rootAbs, name); if (mkfifo(p, 0600) != 0) harnessBug("mkfifo"); break; }
      default: { char p[500], q[500]; snprintf(p, sizeof p, "%s/%s", rootAbs, name); snprintf(q, sizeof q, "%s/outside/o2", rootAbs); if (link(q, p) != 0) harnessBug("link: %s", strerror(errno)); ++linksOut; break; }
      }
    }
  }
};

static void treeCases() {
  fsshim::setPrefix(scratch::root);
  g_injAllowed = !excluded("no-injection");
  char kbuf[260];
  for (long idx = opts.start; idx < opts.start + opts.cases; ++idx) {
    if (!mine(idx)) continue;
    beginCase(idx);
    Rng r(opts.seed, 1906, (u64)idx);
    char rootAbs[200]; snprintf(rootAbs, sizeof rootAbs, "%s/T%ld", scratch::root, idx); scratch::rmrf(rootAbs);
    if (mkdir(rootAbs, 0700) != 0 || chdir(rootAbs) != 0) harnessBug("case root %s: %s", rootAbs, strerror(errno));
    hist.addf("# tree case in %s (cwd): outside/ = sentinel, sib/ = sibling tree, tree/ = tree with links out of it\n", rootAbs);
    TreeGen g; g.r = &r; g.rootAbs = rootAbs; g.files = g.dirs = g.linksOut = g.linksOther = 0; g.dotty = r.below(4) != 0;
    if (g.dotty) cnt("tree_cases_with_dot_prefixed_names");
    g.mkd("outside"); g.wfile("outside/o1", 100); g.wfile("outside/o2", 5000); g.mkd("outside/od"); g.wfile("outside/od/deep", 64); g.mkd("outside/od/sub"); g.wfile("outside/od/sub/x", 10); g.fill("outside", 1, 2, false);
    g.mkd("sib"); g.fill("sib", 1, 2, false);
    size_t firstTreeDir = g.dirsList.n, firstTreeFile = g.filesList.n;
    g.mkd("tree"); g.fill("tree", 1, (int)r.range(1, 4), true);
    g.mkd("empty");
    bool absolute = r.chance(1, 4);
    int nops = (int)r.range(3, 9); u64 fp = mix(g.files * 1000 + g.dirs, g.linksOut); bool removedWithOutLinks = false; int creates = 0;
    Vec<Ent> before, after;
    for (int o = 0; o < nops; ++o) {
      // current directories / files / symlinks of the forest, from a fresh snapshot
      snapshot(rootAbs, before);
      Vec<int> dirs, files, links; for (size_t i = 0; i < before.n; ++i) { if (before[i].type == 'd') dirs.push((int)i); else if (before[i].type == 'f') files.push((int)i); else if (before[i].type == 'l') links.push((int)i); }
      char rel[400] = ""; char made[400] = ""; char arg[600]; int kind = (int)r.below(24); fp = mix(fp, (u64)kind);
      g_inj.on = false;
      if (kind < 12) {
        // ------------------------------------------------------------ Directory::create
        const char* cls; bool feasible = false, strictFeasible = false; bool outsideScratch = false;
        Vec<int> own; for (size_t i = 0; i < dirs.n; ++i) if (!under(before[(size_t)dirs[i]].path, "outside")) own.push(dirs[i]);
        if (!own.n) continue;
        const char* d0 = before[(size_t)own[r.below(own.n)]].path;
        // prefixes of the new components: none, or (dotty cases) dots, so that "..n3", ".m", "...k" are created like any other name
        static const char* const CDOT[] = { "", "", "..", ".", "...", ".. " }; const char* c1 = CDOT[g.dotty ? r.below(6) : 0]; const char* c2 = CDOT[g.dotty ? r.below(6) : 0]; const char* c3 = CDOT[g.dotty ? r.below(6) : 0];
        switch (kind) {
        case 0: case 1: snprintf(rel, sizeof rel, "%s/%sn%d/%sm/%sk", d0, c1, o, c2, c3); snprintf(made, sizeof made, "%s/%sn%d", d0, c1, o); cls = "nested-missing-parents"; feasible = strictFeasible = true; break;
        case 2: snprintf(rel, sizeof rel, "%s", d0); cls = "existing-directory"; feasible = strictFeasible = true; break;
        case 3: if (!files.n) continue; snprintf(rel, sizeof rel, "%s/x/y", before[(size_t)files[r.below(files.n)]].path); cls = "below-a-file"; break;
        case 4: snprintf(rel, sizeof rel, "/proc/nope/x"); cls = "below-proc"; outsideScratch = true; break;
        case 5: snprintf(rel, sizeof rel, "%s/%st%d/%su/", d0, c1, o, c2); snprintf(made, sizeof made, "%s/%st%d", d0, c1, o); cls = "trailing-separator"; feasible = true; break;
        case 6: snprintf(rel, sizeof rel, "%s/%sp%d/./%sq/../%ss", d0, c1, o, c2, c3); snprintf(made, sizeof made, "%s/%sp%d", d0, c1, o); cls = "dot-components"; feasible = true; break;
        case 7: if (!files.n) continue; snprintf(rel, sizeof rel, "%s", before[(size_t)files[r.below(files.n)]].path); cls = "existing-file"; break;
        case 8: if (!links.n) continue; snprintf(rel, sizeof rel, "%s", before[(size_t)links[r.below(links.n)]].path); cls = "existing-symlink"; break;
        case 9: snprintf(rel, sizeof rel, "%ssingle%d", c1, o); snprintf(made, sizeof made, "%ssingle%d", c1, o); cls = "one-missing-component"; feasible = strictFeasible = true; break;
        case 10: rel[0] = 0; cls = "empty-string"; break;
        default: snprintf(rel, sizeof rel, "%s/%sw%d", d0, c1, o); snprintf(made, sizeof made, "%s/%sw%d", d0, c1, o); cls = "one-missing-component"; feasible = strictFeasible = true; break;
        }
        if (absolute && !outsideScratch && rel[0]) snprintf(arg, sizeof arg, "%s/%s", rootAbs, rel); else snprintf(arg, sizeof arg, "%s", rel);
        if (under(rel, "outside")) continue;
        static const int fns[] = { fsshim::F_MKDIR }; if (feasible && !strcmp(cls, "nested-missing-parents")) planInj(r, fns, 1, 3);
        setctxf("Directory.create/%s%s", cls, injTag()); hist.addf("Directory::create(\"%s\")\n", arg); injHist();
        arm(); bool ret = Directory::create(String(arg, strlen(arg))); bool inj = disarm();
        struct stat st; bool isdir = stat(arg, &st) == 0 && S_ISDIR(st.st_mode);
        if (ret && !isdir) fail(FKEY("returned-true-but-no-directory"), "create returned true but stat says \"%s\" is not a directory afterwards", arg);
        if (!ret && isdir) fail(FKEY("returned-false-but-directory-exists"), "create returned false but \"%s\" is a directory afterwards", arg);
        if (strictFeasible && !inj && !ret) fail(FKEY("missing-parents-not-created"), "create failed although every existing prefix of \"%s\" is a directory", arg);
        snapshot(rootAbs, after); long dummy = 0;
        compareSnap(before, after, "", false, made, dummy);
        cnt("op_create"); cnt(ret ? "create_true" : "create_false"); setItem("create_classes", cls); ++creates;
        if (made[0] && (*c1 || (kind <= 1 && (*c2 || *c3)) || (kind == 5 && *c2) || (kind == 6 && (*c2 || *c3)))) { cnt("creates_with_dot_prefixed_components"); if (ret) cnt("creates_with_dot_prefixed_components_true"); }
        { // Directory::exists on the same argument agrees with stat
          setctxf("Directory.exists/after-create,%s", isdir ? "directory" : "no-directory"); hist.addf("Directory::exists(\"%s\")\n", arg);
          bool ex = Directory::exists(String(arg, strlen(arg)));
          if (ex != isdir) fail(FKEY("result"), "exists returned %d but stat says \"%s\" is %s", (int)ex, arg, isdir ? "a directory" : "not a directory");
          cnt("op_exists_dir"); }
      } else {
        // ------------------------------------------------------------ Directory::unlink
        const char* cls; bool recursive = true; bool want; bool realDir = false;
        switch (kind) {
        case 12: case 13: case 14: snprintf(rel, sizeof rel, "tree"); cls = "whole-tree"; realDir = true; break;
        case 15: case 16: { Vec<int> sub; for (size_t i = 0; i < dirs.n; ++i) if (under(before[(size_t)dirs[i]].path, "tree") && strcmp(before[(size_t)dirs[i]].path, "tree")) sub.push(dirs[i]); if (!sub.n) continue; snprintf(rel, sizeof rel, "%s", before[(size_t)sub[r.below(sub.n)]].path); cls = "sub-tree"; realDir = true; break; }
        case 17: snprintf(rel, sizeof rel, "%s", r.chance(1, 2) ? "tree" : "outside"); recursive = false; cls = "non-recursive-on-non-empty"; break;
        case 18: snprintf(rel, sizeof rel, "empty"); recursive = r.chance(1, 2); cls = "empty-directory"; realDir = true; break;
        case 19: snprintf(rel, sizeof rel, "tree/no-such-%d", o); cls = "missing"; break;
        case 20: if (!files.n) continue; snprintf(rel, sizeof rel, "%s", before[(size_t)files[r.below(files.n)]].path); cls = "file"; break;
        case 21: if (!links.n) continue; snprintf(rel, sizeof rel, "%s", before[(size_t)links[r.below(links.n)]].path); cls = "symlink"; break;
        case 22: snprintf(rel, sizeof rel, "sib"); cls = "sibling-tree"; realDir = true; break;
        default: snprintf(rel, sizeof rel, "tree"); cls = "whole-tree"; realDir = true; break;
        }
        struct stat st0; if (realDir && (lstat(rel, &st0) != 0 || !S_ISDIR(st0.st_mode))) continue;   // already removed earlier in this case
        bool nonEmpty = false; for (size_t i = 0; i < before.n; ++i) if (under(before[i].path, rel) && strcmp(before[i].path, rel)) nonEmpty = true;
        if (!strcmp(cls, "non-recursive-on-non-empty") && !nonEmpty) continue;
        if (!strcmp(cls, "empty-directory") && nonEmpty) { if (!recursive) realDir = false; cls = "formerly-empty-directory"; }
        if (absolute) snprintf(arg, sizeof arg, "%s/%s", rootAbs, rel); else snprintf(arg, sizeof arg, "%s", rel);
        long inside = 0, outLinks = 0, dd = 0, sd = 0; bool ddType[5] = { false, false, false, false, false };
        for (size_t i = 0; i < before.n; ++i) if (under(before[i].path, rel)) {
          ++inside; if (before[i].type == 'l') ++outLinks;
          if (strcmp(before[i].path, rel)) { const char* b = strrchr(before[i].path, '/'); b = b ? b + 1 : before[i].path; if (b[0] == '.' && b[1] == '.') { ++dd; const char* tp = strchr("fdlp", before[i].type); if (tp) ddType[tp - "fdlp"] = true; } else if (b[0] == '.') ++sd; }
        }
        static const int fns[] = { fsshim::F_UNLINK, fsshim::F_RMDIR }; if (realDir && recursive && inside > 3 && kind == 23) planInj(r, fns, 2, 3);
        if (g_inj.on && g_inj.fn == fsshim::F_RMDIR) g_inj.nth = r.range(2, 3);   // the first rmdir is the optimistic attempt on the top directory
        setctxf("Directory.unlink/%s,%s%s", cls, recursive ? "recursive" : "non-recursive", injTag()); hist.addf("Directory::unlink(\"%s\", %s)   [%ld entries inside, %ld symbolic links, %ld names starting with \"..\", %ld other names starting with \".\"]\n", arg, recursive ? "true" : "false", inside, outLinks, dd, sd); injHist();
        arm(); bool ret = Directory::unlink(String(arg, strlen(arg)), recursive); bool inj = disarm();
        want = realDir && !inj;
        if (ret != want) fail(FKEY("result"), "unlink returned %d, expected %d", (int)ret, (int)want);
        snapshot(rootAbs, after); long removed = 0;
        compareSnap(before, after, (want || inj) ? rel : "", want, "", removed);
        if (want) { struct stat st; if (lstat(rel, &st) == 0) fail(FKEY("tree-not-removed"), "\"%s\" still exists after unlink returned true", rel); cnt("trees_removed"); cnt("entries_removed", removed); cnt("symlinks_inside_removed_trees", outLinks); if (outLinks && inside > 2) removedWithOutLinks = true;
          cnt("dotdot_prefixed_names_inside_removed_trees", dd); cnt("dot_prefixed_names_inside_removed_trees", sd); if (dd) cnt("trees_removed_containing_dotdot_prefixed_names");
          static const char* const TN[] = { "file", "directory", "symlink", "fifo" }; for (int i = 0; i < 4; ++i) if (ddType[i]) setItem("dotdot_prefixed_entry_types_removed", TN[i]); }
        cnt("op_unlink_dir"); setItem("unlink_classes", cls);
        { // Directory::exists on the same argument agrees with stat
          struct stat st; bool isdir = stat(arg, &st) == 0 && S_ISDIR(st.st_mode);
          setctxf("Directory.exists/after-unlink,%s", isdir ? "directory" : "no-directory"); hist.addf("Directory::exists(\"%s\")\n", arg);
          bool ex = Directory::exists(String(arg, strlen(arg)));
          if (ex != isdir) fail(FKEY("result"), "exists returned %d but stat says \"%s\" is %s", (int)ex, arg, isdir ? "a directory" : "not a directory");
          cnt("op_exists_dir"); }
      }
      cnt("ops");
    }
    (void)firstTreeDir; (void)firstTreeFile;
    if (chdir(scratch::root) != 0) harnessBug("chdir back");
    scratch::rmrf(rootAbs);
    statMax("max_tree_entries", g.files + g.dirs + g.linksOut + g.linksOther);
    cnt("links_to_outside_built", g.linksOut);
    if (idx % 101 == 0) sample("%.1200s", hist.c());
    endCase(fp, removedWithOutLinks && creates > 0);
  }
}

// =================================================================================================== create-race: a racing creator / remover between the system calls of Directory::create
// The libc shims call racePre() immediately before every stat/lstat/access/opendir/mkdir/rmdir/unlink the library makes; before the k-th such call of one
// Directory::create the hook itself plays the other process: it creates the very path that call is about to look at / make, or the whole target, or a (shared) missing
// parent, or places a regular file there, or removes an empty directory again. Every scenario is run once undisturbed (that counts the calls, n) and then once per
// (action, k) with k = 1..n on a freshly built state. The oracle stays the statement's: result == "the argument is a directory afterwards"; while the interferer only
// ever adds directories on the way to the target a creatable target must still be reported (and be) created.
enum { RA_SAME, RA_TARGET, RA_PARENT, RA_FIRST, RA_FILE, RA_RM_PARENT, RA_RM_SAME, RA_N };
static const char* const RACT[] = { "creates-that-path", "creates-the-target", "creates-the-parent-of-that-path", "creates-the-first-missing-component", "places-a-file-at-that-path",
                                    "removes-the-parent-of-that-path", "removes-that-path" };
struct Race { int act; long k; const char* target; const char* first; bool fired; int firedFn; long steps; char file[700]; Text trace; };
static Race g_race;

// mkdir -p through libc; number of directories made
static int mkdirP(const char* p) {
  char b[700]; size_t n = strlen(p); if (!n || n >= sizeof b) return 0; memcpy(b, p, n + 1); int made = 0;
  for (size_t i = 1; i <= n; ++i) if (b[i] == '/' || b[i] == 0) { char c = b[i]; b[i] = 0; if (mkdir(b, 0755) == 0) ++made; b[i] = c; }
  return made;
}
// libc-style parent of p ("a/b/" -> "a", "a" -> none)
static bool parentOf(const char* p, char* out, size_t cap) {
  size_t n = strlen(p); while (n > 1 && p[n - 1] == '/') --n;
  while (n > 0 && p[n - 1] != '/') --n;
  while (n > 1 && p[n - 1] == '/') --n;
  if (!n || n >= cap) return false;
  memcpy(out, p, n); out[n] = 0; return true;
}
static void racePre(int t, const char* p, long step) {
  g_race.steps = step;
  if (g_race.act < 0 || step != g_race.k) return;
  bool changed = false; char b[700];
  switch (g_race.act) {
  case RA_SAME: changed = mkdirP(p) > 0; break;
  case RA_TARGET: changed = mkdirP(g_race.target) > 0; break;
  case RA_PARENT: changed = parentOf(p, b, sizeof b) && mkdirP(b) > 0; break;
  case RA_FIRST: changed = g_race.first[0] && mkdir(g_race.first, 0755) == 0; break;
  case RA_FILE: { size_t n = strlen(p); while (n > 1 && p[n - 1] == '/') --n; if (n < sizeof b) { memcpy(b, p, n); b[n] = 0; int fd = open(b, O_WRONLY | O_CREAT | O_EXCL, 0644); if (fd >= 0) { close(fd); changed = true; snprintf(g_race.file, sizeof g_race.file, "%s", b); } } break; }
  case RA_RM_PARENT: changed = parentOf(p, b, sizeof b) && rmdir(b) == 0; break;
  default: changed = rmdir(p) == 0; break;
  }
  g_race.trace.addf("        <another process %s: %s>\n", RACT[g_race.act], changed ? "done" : "nothing to do");
  if (changed) { g_race.fired = true; g_race.firedFn = t; }
}
static void racePost(int t, const char* p, long step, int ret, int err) {
  g_race.trace.addf("     #%ld %s(\"%s\") = %d%s%s\n", step, fsshim::tracedName(t), p, ret, ret ? " " : "", ret ? strerror(err) : "");
}

static void createRaceCases() {
  fsshim::setPrefix(scratch::root);
  char kbuf[300];
  static const char* const SHAPE[] = { "plain", "absolute", "symlinked-base", "trailing-separator", "dot-components", "double-separator" };
  static const char* const OBST[] = { "all-missing", "target-exists", "file-in-the-way", "dangling-link-in-the-way" };
  for (long idx = opts.start; idx < opts.start + opts.cases; ++idx) {
    if (!mine(idx)) continue;
    beginCase(idx);
    Rng r(opts.seed, 1907, (u64)idx);
    char caseRoot[200]; snprintf(caseRoot, sizeof caseRoot, "%s/R%ld", scratch::root, idx); scratch::rmrf(caseRoot);
    if (mkdir(caseRoot, 0700) != 0) harnessBug("case root %s: %s", caseRoot, strerror(errno));
    char w[240]; snprintf(w, sizeof w, "%s/w", caseRoot);
    // ---- scenario
    int baseDepth = (int)r.below(3), m = r.chance(1, 8) ? 4 : (int)r.range(1, 3), shape = (int)r.below(6), obst = 0, obstAt = 0;
    { u64 c = r.below(20); if (c >= 14 && c < 16) obst = 1; else if (c >= 16 && c < 19) obst = 2; else if (c == 19) obst = 3; }
    if (shape == 2 && baseDepth == 0) baseDepth = 1;
    if (obst >= 2) obstAt = (int)r.below((u64)m);
    bool dotty = r.chance(1, 2);
    static const char* const CDOT[] = { "", "", "..", ".", "...", ".. " };
    char comp[4][24]; for (int i = 0; i < m; ++i) snprintf(comp[i], sizeof comp[i], "%s%c%d", CDOT[dotty ? r.below(6) : 0], "nmkj"[i], (int)r.below(10));
    const char* sep = shape == 5 ? "//" : "/";
    char base[64] = "", baseArg[64] = ""; // physical base chain / its spelling in the argument
    if (baseDepth >= 1) { strcpy(base, "d0"); if (baseDepth == 2) strcat(base, "/d1"); }
    if (shape == 2) strcpy(baseArg, baseDepth == 2 ? "ln/d1" : "ln"); else strcpy(baseArg, base);
    char relArg[400] = "", phys[4][400];   // phys[i] = physical path (relative to w) of missing component i
    { Text a; if (baseArg[0]) { a.add(baseArg); a.add(sep); }
      for (int i = 0; i < m; ++i) {
        if (i) a.add(sep);
        if (shape == 4 && i == 1) a.add("./");
        if (shape == 4 && i == m - 1 && m >= 2 && obst == 0) { a.addf("%sq%s..%s", comp[i], sep, sep); }   // "<comp>q/../<comp>": a detour through a sibling that does not exist yet either (only when nothing is in the way: the sibling is a missing parent, too)
        a.add(comp[i]);
        snprintf(phys[i], sizeof phys[i], "%s%s%s", i ? phys[i - 1] : base, (i || base[0]) ? "/" : "", comp[i]);
      }
      if (shape == 3) a.add("/");
      snprintf(relArg, sizeof relArg, "%s", a.c()); }
    bool strict = obst <= 1 && shape <= 2;   // every existing prefix is a directory and the spelling is plain: must succeed as long as nobody removes anything
    char cls[96]; snprintf(cls, sizeof cls, "%s,%s", OBST[obst], SHAPE[shape]);
    hist.addf("# create-race case in %s/w (cwd, rebuilt before every trial): base \"%s\"%s, %d missing component(s), %s\n", caseRoot, base, shape == 2 ? " reached through the symbolic link ln -> d0" : "", m, cls);
    size_t mark = hist.n; long n = 0; u64 fp = mix((u64)(baseDepth * 100 + m * 10 + shape), (u64)obst); long firedHere = 0;
    // the trial directory w: keep/ + keep/f (sentinel nobody may touch), the base chain, the obstacle; rebuilt (idempotently) before every trial and compared with its first snapshot
    if (mkdir(w, 0700) != 0 || chdir(w) != 0) harnessBug("trial directory %s: %s", w, strerror(errno));
    if (mkdir("keep", 0755) != 0) harnessBug("mkdir keep");
    { int fd = open("keep/f", O_WRONLY | O_CREAT, 0644); if (fd < 0 || write(fd, "sentinel", 8) != 8) harnessBug("keep/f"); close(fd); }
    const char* made = obst == 0 ? phys[0] : "";   // new directories may appear at or below the first missing component only
    Vec<Ent> pristine, before, after;
    for (int act = -1; act < RA_N; ++act) {
      for (long k = 1; k <= (act < 0 ? 1 : n); ++k) {
        if (act >= RA_FILE && n > 3 && !r.chance(3, (u32)n)) continue;   // creators of directories: every call position; file / removers: about three positions per case
        // ---- fresh state
        hist.n = mark; if (hist.d) hist.d[hist.n] = 0;
        if (chdir(w) != 0) harnessBug("chdir");
        if (made[0]) { char mp[700]; snprintf(mp, sizeof mp, "%s/%s", w, made); scratch::rmrf(mp); }
        if (base[0]) mkdirP(base);
        if (shape == 2 && symlink("d0", "ln") != 0 && errno != EEXIST) harnessBug("symlink ln");
        if (obst == 1) mkdirP(phys[m - 1]);
        else if (obst == 2) { if (obstAt) mkdirP(phys[obstAt - 1]); int fd = open(phys[obstAt], O_WRONLY | O_CREAT, 0644); if (fd < 0) harnessBug("obstacle file %s: %s", phys[obstAt], strerror(errno)); close(fd); }
        else if (obst == 3) { if (obstAt) mkdirP(phys[obstAt - 1]); if (symlink("no/such/target", phys[obstAt]) != 0 && errno != EEXIST) harnessBug("obstacle link"); }
        char arg[700]; if (shape == 1) snprintf(arg, sizeof arg, "%s/%s", w, relArg); else snprintf(arg, sizeof arg, "%s", relArg);
        snapshot(w, before);
        if (act < 0) { snapshot(w, pristine); }
        else { bool same = before.n == pristine.n; for (size_t i = 0; same && i < before.n; ++i) same = !strcmp(before[i].path, pristine[i].path) && before[i].type == pristine[i].type && before[i].size == pristine[i].size && before[i].h == pristine[i].h; if (!same) harnessBug("create-race: the state before trial (%s, #%ld) differs from the state before the undisturbed run", RACT[act], k); }
        // ---- the call
        g_race.act = act; g_race.k = k; g_race.target = arg; g_race.first = made; g_race.fired = false; g_race.firedFn = -1; g_race.steps = 0; g_race.file[0] = 0; g_race.trace.clear();
        if (act < 0) setctxf("Directory.create/%s,race=none", cls); else setctxf("Directory.create/%s,race=%s", cls, RACT[act]);
        hist.addf("Directory::create(\"%s\")", arg); if (act >= 0) hist.addf("   [before system call #%ld of this call another process %s]", k, RACT[act]); hist.add("\n");
        fsshim::setStepHook(racePre, racePost);
        bool ret = Directory::create(String(arg, strlen(arg)));
        fsshim::clearStepHook();
        hist.add(g_race.trace.c()); hist.addf("   = %s\n", ret ? "true" : "false");
        if (act < 0) { n = g_race.steps; statMax("max_system_calls_per_create", n); cnt("race_undisturbed_runs"); }
        // ---- oracles
        struct stat st; bool isdir = stat(arg, &st) == 0 && S_ISDIR(st.st_mode);
        if (ret && !isdir) fail(FKEY("returned-true-but-no-directory"), "create returned true but stat says \"%s\" is not a directory afterwards", arg);
        if (!ret && isdir) fail(FKEY("returned-false-but-directory-exists"), "create returned false but \"%s\" is a directory afterwards", arg);
        bool onlyAdds = act < RA_FILE;
        if (strict && onlyAdds && !ret) fail(FKEY("missing-parents-not-created"), "create failed although every existing prefix of \"%s\" is a directory and the other process only created directories on the way to it", arg);
        if (ret) for (int i = 0; i < m; ++i) { if (stat(phys[i], &st) != 0 || !S_ISDIR(st.st_mode)) fail(FKEY("parent-missing-after-true"), "create returned true but \"%s\" is not a directory", phys[i]); cnt("race_parents_checked"); }
        if (act < RA_RM_PARENT) {
          if (g_race.file[0] && unlink(g_race.file) != 0) fail(FKEY("other-process-file-gone"), "the file the other process placed at \"%s\" has disappeared", g_race.file);
          snapshot(w, after); long dummy = 0; compareSnap(before, after, "", false, made, dummy);
        }
        { setctxf("Directory.exists/after-create,%s", isdir ? "directory" : "no-directory"); hist.addf("Directory::exists(\"%s\")\n", arg);
          bool ex = Directory::exists(String(arg, strlen(arg)));
          if (ex != isdir) fail(FKEY("result"), "exists returned %d but stat says \"%s\" is %s", (int)ex, arg, isdir ? "a directory" : "not a directory");
          cnt("op_exists_dir"); }
        // ---- evidence
        cnt("ops"); cnt("op_create"); cnt(ret ? "create_true" : "create_false"); cnt("race_trials"); setItem("race_scenarios", cls);
        if (act >= 0) {
          if (g_race.fired) {
            ++firedHere; cnt("race_interference_done"); cnt(onlyAdds ? "race_creator_interference_done" : act == RA_FILE ? "race_file_interference_done" : "race_remover_interference_done");
            char it[96]; snprintf(it, sizeof it, "%s before %s", RACT[act], fsshim::tracedName(g_race.firedFn)); setItem("race_points", it);
            if (g_race.firedFn == fsshim::T_MKDIR && onlyAdds) cnt("race_directory_made_between_check_and_mkdir");
            if (onlyAdds && strict) cnt("race_creator_interference_with_creatable_target");
            fp = mix(fp, (u64)(act * 64 + k) * 2 + (ret ? 1 : 0));
          } else cnt(k > g_race.steps ? "race_call_finished_before_step" : "race_interference_nothing_to_do");
        }
      }
    }
    if (chdir(scratch::root) != 0) harnessBug("chdir back");
    scratch::rmrf(caseRoot);
    if (idx % 211 == 0) sample("%.1200s", hist.c());
    endCase(fp, firedHere > 0);
  }
  fsshim::clearStepHook();
}

// =================================================================================================== create-threads: really concurrent Directory::create calls
// N threads, released together, call Directory::create on the same deep path / on siblings below a shared missing parent / on prefixes of one chain. Nobody removes
// anything, so every single call has to return true and its directory has to exist afterwards. (Which interleavings occur is up to the scheduler: a supplement
// to create-race, never a timing-dependent verdict - a correct library passes under every schedule.)
#include <pthread.h>
#include <sched.h>
enum { THR_N = 4 };
struct ThrShared { int go; int awake; int done; int stop; char path[THR_N][400]; int result[THR_N]; };
static ThrShared g_thr;
static inline void spinUntil(int* v, int want) { for (long i = 0; __atomic_load_n(v, __ATOMIC_ACQUIRE) != want; ++i) if (i > 2000) sched_yield(); }
static void* thrMain(void* a) {
  int me = (int)(intptr_t)a;
  for (int round = 1;; ++round) {
    spinUntil(&g_thr.go, round);
    if (__atomic_load_n(&g_thr.stop, __ATOMIC_ACQUIRE)) return 0;
    __atomic_add_fetch(&g_thr.awake, 1, __ATOMIC_ACQ_REL); spinUntil(&g_thr.awake, THR_N * round);   // all threads are running before anybody starts
    { String s(g_thr.path[me], strlen(g_thr.path[me])); g_thr.result[me] = Directory::create(s) ? 1 : 0; }
    __atomic_add_fetch(&g_thr.done, 1, __ATOMIC_ACQ_REL);
  }
}
static void createThreadCases() {
  fsshim::setPrefix(scratch::root);
  char kbuf[300];
  pthread_t th[THR_N]; memset(&g_thr, 0, sizeof g_thr); int round = 0;
  for (int i = 0; i < THR_N; ++i) if (pthread_create(&th[i], 0, thrMain, (void*)(intptr_t)i) != 0) harnessBug("pthread_create");
  static const char* const TCLS[] = { "same-deep-path", "siblings-below-shared-missing-parent", "same-single-component", "prefixes-of-one-chain" };
  for (long idx = opts.start; idx < opts.start + opts.cases; ++idx) {
    if (!mine(idx)) continue;
    beginCase(idx);
    Rng r(opts.seed, 1908, (u64)idx);
    char caseRoot[200]; snprintf(caseRoot, sizeof caseRoot, "%s/P%ld", scratch::root, idx); scratch::rmrf(caseRoot);
    if (mkdir(caseRoot, 0700) != 0 || chdir(caseRoot) != 0) harnessBug("case root %s: %s", caseRoot, strerror(errno));
    bool absolute = r.chance(1, 3); u64 fp = 0;
    hist.addf("# create-threads case in %s (cwd): %d threads released together per round\n", caseRoot, (int)THR_N);
    size_t mark = hist.n;
    for (int o = 0; o < 10; ++o) {
      hist.n = mark; if (hist.d) hist.d[hist.n] = 0;
      int kind = (int)r.below(4); int depth = (int)r.range(2, 4);
      for (int i = 0; i < THR_N; ++i) {
        Text p; if (absolute) { p.add(caseRoot); p.add("/"); } p.addf("r%d", o);
        switch (kind) {
        case 0: for (int d = 1; d < depth; ++d) p.addf("/c%d", d); break;
        case 1: for (int d = 1; d < depth; ++d) p.addf("/c%d", d); p.addf("/s%d", i); break;
        case 2: break;
        default: for (int d = 1; d < 1 + (i % depth); ++d) p.addf("/c%d", d); break;
        }
        snprintf(g_thr.path[i], sizeof g_thr.path[i], "%s", p.c()); g_thr.result[i] = -1;
        hist.addf("thread %d: Directory::create(\"%s\")\n", i, g_thr.path[i]);
      }
      setctxf("Directory.create/concurrent,%s", TCLS[kind]);
      ++round; __atomic_store_n(&g_thr.go, round, __ATOMIC_RELEASE);
      for (long i = 0; __atomic_load_n(&g_thr.done, __ATOMIC_ACQUIRE) != THR_N * round; ++i) if (i > 200) sched_yield();
      for (int i = 0; i < THR_N; ++i) {
        struct stat st; bool isdir = stat(g_thr.path[i], &st) == 0 && S_ISDIR(st.st_mode);
        hist.addf("thread %d: = %s, directory afterwards: %s\n", i, g_thr.result[i] ? "true" : "false", isdir ? "yes" : "no");
        if (g_thr.result[i] && !isdir) fail(FKEY("returned-true-but-no-directory"), "thread %d: create returned true but \"%s\" is not a directory afterwards", i, g_thr.path[i]);
        if (!g_thr.result[i] && isdir) fail(FKEY("returned-false-but-directory-exists"), "thread %d: create returned false but \"%s\" is a directory afterwards (%d threads created overlapping paths at the same time)", i, g_thr.path[i], (int)THR_N);
        if (!g_thr.result[i]) fail(FKEY("missing-parents-not-created"), "thread %d: create of \"%s\" failed although nothing is in the way and the other threads only create directories", i, g_thr.path[i]);
        cnt("concurrent_create_calls"); cnt("ops"); cnt("op_create"); cnt("create_true");
      }
      cnt("concurrent_create_rounds"); setItem("concurrent_create_classes", TCLS[kind]); fp = mix(fp, (u64)(kind * 8 + depth));
    }
    if (chdir(scratch::root) != 0) harnessBug("chdir back");
    scratch::rmrf(caseRoot);
    if (idx % 211 == 0) sample("%.600s", hist.c());
    endCase(mix(fp, (u64)idx), true);
  }
  __atomic_store_n(&g_thr.stop, 1, __ATOMIC_RELEASE); ++round; __atomic_store_n(&g_thr.go, round, __ATOMIC_RELEASE);
  for (int i = 0; i < THR_N; ++i) pthread_join(th[i], 0);
}

// =================================================================================================== probes (minimal reproducers of the defects this check found)
static int probe(const char* k) {
  if (!strncmp(k, "File.simplifyPath", 17)) { g_histMark = 0; checkUnary("/", 1); checkUnary("/a/..", 5); return 0; }
  if (!strncmp(k, "File.getStem", 12)) { g_histMark = 0; checkUnary("a.tar.gz", 8); return 0; }
  if (!strncmp(k, "File.getRelativePath", 20)) { g_histMark = 0; checkRel("a/b", 3, "c/d", 3); checkRel("a/b/c", 5, "a", 1); checkRel(".", 1, "a", 1); return 0; }
  harnessBug("unknown probe %s", k);
}

static int worker(int argc, char** argv) {
  init(argc, argv, "h_fs");
  if (opts.probe) { int rc = probe(opts.probe); finish(); return rc; }
  const char* m = opts.mode;
  if (!strcmp(m, "paths-str")) pathsStr();
  else if (!strcmp(m, "paths-comp")) pathsComp();
  else if (!strcmp(m, "paths-rel")) pathsRel();
  else if (!strcmp(m, "paths-rand")) pathsRand();
  else if (!strcmp(m, "files")) fileHistories(false);
  else if (!strcmp(m, "files-alias")) fileHistories(true);
  else if (!strcmp(m, "trees")) treeCases();
  else if (!strcmp(m, "create-race")) createRaceCases();
  else if (!strcmp(m, "create-threads")) createThreadCases();
  else harnessBug("unknown mode %s", m);
  cnt("path_inputs", g_pathChecks);
  cnt("faults_injected", fsshim::totalInjected());
  leakCheck("File/leak");
  finish();
  return 0;
}

int main(int argc, char** argv) {
  bool needScratch = true;   // everything except the pure path modes touches the file system
  for (int i = 1; i + 1 < argc; ++i) if (!strcmp(argv[i], "--mode") && !strncmp(argv[i + 1], "paths-", 6)) needScratch = false;
  if (needScratch) return scratch::supervise(worker, argc, argv);
  return worker(argc, argv);
}
