// h_refcount.cpp - C09: shared payloads (String, Variant, RefCount::Ptr) are released exactly once, after the last handle, and never modified in place
// while shared.  modes: ptr-seq (single-threaded handle histories incl. Ptr<Derived> -> Ptr<Base>, swap, self-assignment),
//                       conc    (T threads, each owning private handles to common payloads; copy/assign/swap/modify/destroy + mailbox exchange)
#include "vh.hpp"
#include <nstd/String.hpp>
#include <nstd/Variant.hpp>
#include <nstd/RefCount.hpp>
#include <nstd/List.hpp>
#include <nstd/Document/Xml.hpp>
#include <pthread.h>
#include <sched.h>

using namespace vh;
#define RLX __ATOMIC_RELAXED

#ifdef VERIF_LEDGER
extern "C" long verif_ledger_live(); extern "C" long verif_ledger_allocs(); extern "C" long verif_ledger_verified();
extern "C" void verif_ledger_violation(const char* what, const void* block, unsigned long size) {
  char key[128]; snprintf(key, sizeof key, "shared-payload/ledger:%s", what);
  fail(key, "%s of a %lu-byte block at %p during %s (a shared payload was released twice, or written after its release)", what, size, block, (const char*)ctx);
}
#endif
// ------------------------------------------------------------------ tracked pointee
enum { MAXPAY = 1 << 20 };
static int g_holders[MAXPAY];     // conservative (lower-bound) number of handles per payload: +1 after acquiring, -1 before releasing
static unsigned char g_dtor[MAXPAY];
static long g_nextPay = 1, g_created = 0, g_destroyed = 0;
static const long kAlive = 0x600DF00D;

struct Other { virtual ~Other() {} long pad[3]; };
struct Pay : public RefCount::Object {
  long id; long magic;
  Pay() : id(__atomic_fetch_add(&g_nextPay, 1, RLX)), magic(kAlive) { if (id >= MAXPAY) harnessBug("too many payloads"); __atomic_fetch_add(&g_created, 1, RLX); }
  virtual ~Pay() {
    if (magic != kAlive) fail("RefCount.Ptr/payload-destroyed-twice", "payload %ld destroyed although it is not alive (during %s)", id, (const char*)ctx);
    int h = __atomic_load_n(&g_holders[id], RLX);
    if (h > 0) fail("RefCount.Ptr/payload-released-while-referenced", "payload %ld destroyed while at least %d handle(s) still refer to it (during %s)", id, h, (const char*)ctx);
    if (__atomic_fetch_add(&g_dtor[id], 1, RLX) != 0) fail("RefCount.Ptr/payload-destroyed-twice", "payload %ld destroyed twice", id);
    magic = 0xDEAD; __atomic_fetch_add(&g_destroyed, 1, RLX);
  }
};
struct PayD : public Other, public Pay { long extra; PayD() : extra(77) {} };   // Object subobject at a non-zero offset

typedef RefCount::Ptr<Pay> PP; typedef RefCount::Ptr<PayD> PD;
static inline void hold(long id) { if (id) __atomic_fetch_add(&g_holders[id], 1, RLX); }
static inline void drop(long id) { if (id) __atomic_fetch_sub(&g_holders[id], 1, RLX); }

// between cases no payload is alive: recycle the ids so that long runs stay inside the ledger arrays
static void recycleIds() { long n = g_nextPay; if (n > MAXPAY) n = MAXPAY; for (long i = 0; i < n; ++i) { g_holders[i] = 0; g_dtor[i] = 0; } g_nextPay = 1; }

static void checkPtr(const PP& p, long want, const char* what) {
  if (!want) { if (p) fail("RefCount.Ptr/handle-content", "%s: handle should be empty", what); return; }
  if (!p) fail("RefCount.Ptr/handle-content", "%s: handle is empty, should refer to payload %ld", what, want);
  if (p->magic != kAlive) fail("RefCount.Ptr/handle-refers-to-destroyed-payload", "%s: handle refers to a payload that was already destroyed (wanted %ld)", what, want);
  if (p->id != want) fail("RefCount.Ptr/handle-content", "%s: handle refers to payload %ld, model says %ld", what, p->id, want);
}

// ------------------------------------------------------------------ mode ptr-seq
static void ptrSeq() {
  for (long idx = opts.start; idx < opts.start + opts.cases; ++idx) {
    if (!mine(idx)) continue;
    beginCase(idx); Rng r(opts.seed, 900, (u64)idx);
    enum { NB = 6, ND = 3 };
    PP* hb = new PP[NB]; PD* hd = new PD[ND]; long mb[NB] = { 0 }, md[ND] = { 0 };
    long created0 = g_created, destroyed0 = g_destroyed; int nops = (int)r.range(20, 300); u64 fp = 0; bool shared = false, released = false;
    for (int o = 0; o < nops; ++o) {
      int k = (int)r.below(13), i = (int)r.below(NB), j = (int)r.below(NB), di = (int)r.below(ND), dj = (int)r.below(ND); fp = mix(fp, (u64)k * 64 + (u64)i * 8 + (u64)j);
      switch (k) {
      case 0: { setctx("RefCount.Ptr.operator=(raw)"); Pay* n = new Pay; hist.addf("b%d = new Pay(%ld)\n", i, n->id); drop(mb[i]); hb[i] = n; mb[i] = n->id; hold(mb[i]); break; }
      case 1: { setctx("RefCount.Ptr.operator=(raw-derived)"); PayD* n = new PayD; hist.addf("d%d = new PayD(%ld)\n", di, n->id); drop(md[di]); hd[di] = n; md[di] = n->id; hold(md[di]); break; }
      case 2: { setctxf("RefCount.Ptr.operator=(Ptr)%s", i == j ? "/arg=self" : ""); hist.addf("b%d = b%d\n", i, j); if (i != j) drop(mb[i]); hb[i] = hb[j]; if (i != j) { mb[i] = mb[j]; hold(mb[i]); } if (mb[i]) shared = true; break; }
      case 3: { setctx("RefCount.Ptr.operator=(Ptr<Derived>)"); hist.addf("b%d = d%d\n", i, dj); drop(mb[i]); hb[i] = hd[dj]; mb[i] = md[dj]; hold(mb[i]); if (mb[i]) shared = true; break; }
      case 4: { setctxf("RefCount.Ptr.swap%s", i == j ? "/arg=self" : mb[i] == mb[j] ? "/same-payload" : "/different-payloads"); hist.addf("b%d.swap(b%d)\n", i, j); hb[i].swap(hb[j]); long t = mb[i]; mb[i] = mb[j]; mb[j] = t; cnt("op_swap"); break; }
      case 5: { setctx("RefCount.Ptr.swap(derived)"); hist.addf("d%d.swap(d%d)\n", di, dj); hd[di].swap(hd[dj]); long t = md[di]; md[di] = md[dj]; md[dj] = t; cnt("op_swap"); break; }
      case 6: { setctx("RefCount.Ptr.operator=(null)"); hist.addf("b%d = null\n", i); drop(mb[i]); hb[i] = (Pay*)0; mb[i] = 0; released = true; break; }
      case 7: { setctx("RefCount.Ptr.copy-construct"); hist.addf("{ Ptr t(b%d); }\n", i); { PP t(hb[i]); hold(mb[i]); checkPtr(t, mb[i], "temporary copy"); drop(mb[i]); } break; }
      case 8: { setctx("RefCount.Ptr.copy-construct(Ptr<Derived>)"); hist.addf("{ Ptr<Pay> t(d%d); }\n", di); { PP t(hd[di]); hold(md[di]); checkPtr(t, md[di], "temporary converted copy"); drop(md[di]); } break; }
      case 9: { setctx("RefCount.Ptr.operator=(derived,Ptr)"); hist.addf("d%d = d%d\n", di, dj); if (di != dj) drop(md[di]); hd[di] = hd[dj]; if (di != dj) { md[di] = md[dj]; hold(md[di]); } break; }
      case 10: { setctx("RefCount.Ptr.operator=(null,derived)"); hist.addf("d%d = null\n", di); drop(md[di]); hd[di] = (PayD*)0; md[di] = 0; released = true; break; }
      case 11: { // assign the raw pointer of a payload that is already reference counted (intrusive count): also the handle's own payload
        if (!mb[j]) break; setctxf("RefCount.Ptr.operator=(raw)/%s", i == j ? "own-payload" : "held-elsewhere"); hist.addf("b%d = b%d.operator->()\n", i, j); Pay* raw = hb[j].operator->();
        if (i != j) drop(mb[i]); hb[i] = raw; if (i != j) { mb[i] = mb[j]; hold(mb[i]); } cnt("op_assign_raw_of_held"); break; }
      default: { setctx("RefCount.Ptr.operator=="); bool eq = hb[i] == hb[j]; if (eq != (mb[i] == mb[j])) fail("RefCount.Ptr.operator==/result", "b%d == b%d is %d, model %d", i, j, (int)eq, (int)(mb[i] == mb[j])); break; }
      }
      // every handle designates its model payload, which is alive; payloads without handles are gone
      for (int x = 0; x < NB; ++x) checkPtr(hb[x], mb[x], "after operation");
      for (int x = 0; x < ND; ++x) { if (md[x]) { if (!hd[x] || hd[x]->magic != kAlive || hd[x]->id != md[x] || hd[x]->extra != 77) fail("RefCount.Ptr/handle-content", "derived handle %d does not designate payload %ld", x, md[x]); } else if (hd[x]) fail("RefCount.Ptr/handle-content", "derived handle %d should be empty", x); }
      long live = 0; { long seen[NB + ND]; int ns = 0; for (int x = 0; x < NB + ND; ++x) { long id = x < NB ? mb[x] : md[x - NB]; if (!id) continue; bool dup = false; for (int y = 0; y < ns; ++y) if (seen[y] == id) dup = true; if (!dup) seen[ns++] = id; } live = ns; }
      if ((g_created - created0) - (g_destroyed - destroyed0) != live) fail("RefCount.Ptr/payload-not-released-after-last-handle", "%ld payloads alive, model has %ld referenced payloads", (g_created - created0) - (g_destroyed - destroyed0), live);
      cnt("ops");
    }
    setctx("RefCount.Ptr.destructor");
    for (int x = 0; x < NB; ++x) drop(mb[x]); for (int x = 0; x < ND; ++x) drop(md[x]);
    delete[] hb; delete[] hd;
    if (g_created - created0 != g_destroyed - destroyed0) fail("RefCount.Ptr/payload-not-released-after-last-handle", "%ld payloads created, %ld destroyed after all handles are gone", g_created - created0, g_destroyed - destroyed0);
    if (idx % 499 == 0) sample("%.700s", hist.c());
    recycleIds();
    endCase(fp, shared && released);
  }
}

// ------------------------------------------------------------------ mode conc
// In the TSan build no thread modifies a payload in place. Reason (DESIGN.md 8.4): libnstd's copy-on-write test is a *volatile read* `ref == 1`
// followed by plain writes; gcc calls the volatile-read annotation just before the load executes, so a reader preempted between the two can miss
// the other thread's release (its atomic decrement) and TSan reports the legitimate in-place write as a race - rarely, but in proportion to the number
// of operations. The release/free protocol itself is decided by atomic RMW results, which TSan models exactly, so the TSan build still checks every
// copy, assignment, swap, mailbox exchange and destruction. In-place-while-shared is decided by the content models in the asan and plain builds.
#ifdef __SANITIZE_THREAD__
enum { kAllowInPlace = 0 };
#else
enum { kAllowInPlace = 1 };
#endif
enum { MAXP = 3, MAXT = 8 };
struct SModel { char b[96]; int n; };
enum { VITEMS = 400 };
struct VModel { int kind; /* 0 string 1 list 2 array 3 map (keys "k<index>" in insertion order) */ char b[96]; int n; long items[VITEMS]; int ni; };
struct XModel { int kind; /* 0 element 1 text */ long line; char b[40]; int n; };
struct Slot { String s; SModel sm; Variant v; VModel vm; PP p; long pm; Xml::Variant x; XModel xm; bool full; };
static Slot* g_mail; static pthread_mutex_t g_mailLock = PTHREAD_MUTEX_INITIALIZER;
static int g_go = 0;

struct TState {
  int idx, P; u64 seed; int nops; pthread_t th; int cpu;
  String* s; SModel sm[MAXP]; Variant* v; VModel vm[MAXP]; PP* p; long pm[MAXP]; Xml::Variant* x; XModel xm[MAXP];
  long ops, sharedOps, mods, mailOps;
};

static void checkS(const String& s, const SModel& m, const char* what) {
  if (s.length() != (usize)m.n || memcmp((const char*)s, m.b, (size_t)m.n) != 0 || ((const char*)s)[m.n] != 0)
    fail("String/shared-payload/foreign-modification", "%s: String holds \"%.60s\" (length %lu), this thread's model says \"%.*s\" - the shared payload was modified in place or released", what, (const char*)s, (unsigned long)s.length(), m.n, m.b);
}
static void checkV(const Variant& v, const VModel& m, const char* what) {
  if (m.kind == 0) { const String& s = ((const Variant&)v).toString(); if (v.getType() != Variant::stringType || s.length() != (usize)m.n || memcmp((const char*)s, m.b, (size_t)m.n) != 0) fail("Variant/shared-payload/foreign-modification", "%s: string Variant differs from this thread's model", what); }
  else if (m.kind == 1) { if (v.getType() != Variant::listType) fail("Variant/shared-payload/foreign-modification", "%s: Variant is no longer a list", what); const List<Variant>& l = ((const Variant&)v).toList(); if (l.size() != (usize)m.ni) fail("Variant/shared-payload/foreign-modification", "%s: list Variant has %lu items, this thread's model %d", what, (unsigned long)l.size(), m.ni);
    int k = 0; for (List<Variant>::Iterator it = l.begin(), e = l.end(); it != e; ++it, ++k) if (it->toInt64() != m.items[k]) fail("Variant/shared-payload/foreign-modification", "%s: list item %d is %lld, model %ld", what, k, (long long)it->toInt64(), m.items[k]); }
  else if (m.kind == 2) { if (v.getType() != Variant::arrayType) fail("Variant/shared-payload/foreign-modification", "%s: Variant is no longer an array", what); const Array<Variant>& l = ((const Variant&)v).toArray(); if (l.size() != (usize)m.ni) fail("Variant/shared-payload/foreign-modification", "%s: array Variant has %lu items, this thread's model %d", what, (unsigned long)l.size(), m.ni);
    for (int k = 0; k < m.ni; ++k) if (l[(usize)k].toInt64() != m.items[k]) fail("Variant/shared-payload/foreign-modification", "%s: array item %d is %lld, model %ld", what, k, (long long)l[(usize)k].toInt64(), m.items[k]); }
  else { if (v.getType() != Variant::mapType) fail("Variant/shared-payload/foreign-modification", "%s: Variant is no longer a map", what); const HashMap<String, Variant>& l = ((const Variant&)v).toMap(); if (l.size() != (usize)m.ni) fail("Variant/shared-payload/foreign-modification", "%s: map Variant has %lu items, this thread's model %d", what, (unsigned long)l.size(), m.ni);
    int k = 0; char kb[16]; for (HashMap<String, Variant>::Iterator it = l.begin(), e = l.end(); it != e; ++it, ++k) { int kn = snprintf(kb, sizeof kb, "k%d", k);
      if (it.key().length() != (usize)kn || memcmp((const char*)it.key(), kb, (size_t)kn) != 0 || it->toInt64() != m.items[k]) fail("Variant/shared-payload/foreign-modification", "%s: map entry %d is (%.12s, %lld), model (%s, %ld)", what, k, (const char*)it.key(), (long long)it->toInt64(), kb, m.items[k]); } }
}

static void checkX(const Xml::Variant& x, const XModel& m, const char* what) {
  if (m.kind == 0) { if (!x.isElement()) fail("Xml.Variant/shared-payload/foreign-modification", "%s: Xml::Variant is no longer an element", what); const Xml::Element& e = ((const Xml::Variant&)x).toElement();
    if (e.line != (int)m.line || e.type.length() != (usize)m.n || memcmp((const char*)e.type, m.b, (size_t)m.n) != 0) fail("Xml.Variant/shared-payload/foreign-modification", "%s: element (line %d, type \"%.30s\") differs from this thread's model (line %ld)", what, e.line, (const char*)e.type, m.line); }
  else { String t = x.toString(); if (!x.isText() || t.length() != (usize)m.n || memcmp((const char*)t, m.b, (size_t)m.n) != 0) fail("Xml.Variant/shared-payload/foreign-modification", "%s: text Xml::Variant differs from this thread's model", what); }
}

static void* concMain(void* a) {
  TState& t = *(TState*)a; Rng r(t.seed, 901, (u64)t.idx);
  if (t.cpu >= 0) { cpu_set_t cs; CPU_ZERO(&cs); CPU_SET(t.cpu, &cs); pthread_setaffinity_np(pthread_self(), sizeof cs, &cs); }
  while (!__atomic_load_n(&g_go, RLX)) sched_yield();
  for (int o = 0; o < t.nops; ++o) {
    int k = (int)r.below(100), i = (int)r.below((u64)t.P), j = (int)r.below((u64)t.P);
#if !defined(__SANITIZE_THREAD__) && !defined(VERIF_NO_PRIVATE)
    // evidence only (not in the TSan build, where this volatile read would add synchronisation): was the String payload shared when the operation began?
    if (t.s[i].data->ref > 1) ++t.sharedOps;
#endif
    if (r.chance(1, 5)) { // Xml::Variant handles
      int xk = (int)r.below(10); XModel& m = t.xm[i];
      if (xk < 3) { Xml::Variant tmp(t.x[i]); checkX(tmp, m, "temporary copy"); }
      else if (xk < 5) { t.x[i] = t.x[j]; m = t.xm[j]; }
      else if (xk < 8 && kAllowInPlace) { ++t.mods; if (m.kind == 0) { Xml::Element& e = t.x[i].toElement(); e.line = (int)++m.line; if (r.chance(1, 4) && m.n < 30) { char c = (char)('a' + r.below(26)); e.type.append(c); m.b[m.n++] = c; } }
                         else { m.n = (int)r.range(1, 30); for (int q = 0; q < m.n; ++q) m.b[q] = (char)('k' + r.below(10)); t.x[i] = String(m.b, (usize)m.n); } }
      else checkX(t.x[i], m, "read");
      ++t.ops; continue;
    }
    if (k >= 20 && k < 30 && !kAllowInPlace) k = 30;   // becomes a read
    if (k >= 55 && k < 64 && !kAllowInPlace) k = 64;   // becomes a read
    if (k >= 20 && k < 30 && r.chance(1, 2)) { // in-place modifiers other than append: each must detach a shared payload first
      SModel& m = t.sm[i]; int mk = (int)r.below(6); ++t.mods;
      if (mk == 4) { t.s[i].clear(); m.n = 0; checkS(t.s[i], m, "after clear"); ++t.ops; continue; }          // an emptied heap payload stays a counted payload
      if (mk == 5) { t.s[i].resize(0); m.n = 0; checkS(t.s[i], m, "after resize(0)"); ++t.ops; continue; }
      if (mk == 0 && m.n < 90) { t.s[i].append(' '); m.b[m.n++] = ' '; }
      else if (mk == 1) { t.s[i].trim(); int a0 = 0, b0 = m.n; while (a0 < b0 && strchr(" \t\r\n\v", m.b[a0])) ++a0; while (b0 > a0 && strchr(" \t\r\n\v", m.b[b0 - 1])) --b0; memmove(m.b, m.b + a0, (size_t)(b0 - a0)); m.n = b0 - a0; }
      else if (mk == 2) { t.s[i].toUpperCase(); for (int q = 0; q < m.n; ++q) if (m.b[q] >= 'a' && m.b[q] <= 'z') m.b[q] = (char)(m.b[q] - 32); }
      else { char from = (char)('a' + r.below(26)), to = (char)('a' + r.below(26)); t.s[i].replace(from, to); for (int q = 0; q < m.n; ++q) if (m.b[q] == from) m.b[q] = to; }
      checkS(t.s[i], m, "after in-place modifier"); ++t.ops; continue;
    }
    if (k < 12) { String tmp(t.s[i]); checkS(tmp, t.sm[i], "temporary copy"); }
    else if (k < 20) { t.s[i] = t.s[j]; t.sm[i] = t.sm[j]; }
    else if (k < 30) { if (t.sm[i].n < 90) { char c = (char)('a' + r.below(26)); t.s[i].append(c); t.sm[i].b[t.sm[i].n++] = c; } else { t.s[i] = t.s[j]; t.sm[i] = t.sm[j]; } ++t.mods; }
    else if (k < 38) checkS(t.s[i], t.sm[i], "read");
    else if (k < 48) { Variant tmp(t.v[i]); checkV(tmp, t.vm[i], "temporary copy"); }
    else if (k < 55) { t.v[i] = t.v[j]; t.vm[i] = t.vm[j]; }
    else if (k < 64) { VModel& m = t.vm[i]; ++t.mods;
      if (m.kind == 0) { if (m.n < 90) { char c = (char)('A' + r.below(26)); t.v[i].toString().append(c); m.b[m.n++] = c; } else { t.v[i] = t.v[j]; m = t.vm[j]; } }
      else if (m.ni >= VITEMS - 2) { t.v[i] = t.v[j]; m = t.vm[j]; }
      else { long x = (long)r.below(1000000);
        if (m.kind == 1) t.v[i].toList().append(Variant((int64)x));
        else if (m.kind == 2) t.v[i].toArray().append(Variant((int64)x));
        else { char kb[16]; int kn = snprintf(kb, sizeof kb, "k%d", m.ni); t.v[i].toMap().append(String(kb, (usize)kn), Variant((int64)x)); }
        m.items[m.ni++] = x; } }
    else if (k < 70) checkV(t.v[i], t.vm[i], "read");
    else if (k < 78) { PP tmp(t.p[i]); hold(t.pm[i]); checkPtr(tmp, t.pm[i], "temporary copy"); drop(t.pm[i]); }
    else if (k < 84) { if (i != j) { drop(t.pm[i]); t.p[i] = t.p[j]; t.pm[i] = t.pm[j]; hold(t.pm[i]); } }
    else if (k < 88) { t.p[i].swap(t.p[j]); long x = t.pm[i]; t.pm[i] = t.pm[j]; t.pm[j] = x; }
    else if (k < 91) { checkPtr(t.p[i], t.pm[i], "read"); }
    else if (k < 93) { Pay* n = new Pay; drop(t.pm[i]); t.p[i] = n; t.pm[i] = n->id; hold(t.pm[i]); }
    else { // mailbox: deposit copies of my handles, or take the ones lying there (handle objects in the slot are only touched under the lock)
      int sl = (int)r.below(4); pthread_mutex_lock(&g_mailLock); Slot& m = g_mail[sl]; ++t.mailOps;
      if (!m.full) { m.s = t.s[i]; m.sm = t.sm[i]; m.v = t.v[i]; m.vm = t.vm[i]; m.p = t.p[i]; m.pm = t.pm[i]; hold(m.pm); m.x = t.x[i]; m.xm = t.xm[i]; m.full = true; }
      else { t.s[i] = m.s; t.sm[i] = m.sm; t.v[i] = m.v; t.vm[i] = m.vm; t.x[i] = m.x; t.xm[i] = m.xm; m.x.clear(); drop(t.pm[i]); t.p[i] = m.p; t.pm[i] = m.pm; hold(t.pm[i]); drop(m.pm); m.p = (Pay*)0; m.pm = 0; m.s.clear(); m.v.clear(); m.full = false; }
      pthread_mutex_unlock(&g_mailLock); }
    ++t.ops;
    if ((o & 63) == 0) for (int x = 0; x < t.P; ++x) { checkS(t.s[x], t.sm[x], "periodic sweep"); checkV(t.v[x], t.vm[x], "periodic sweep"); checkPtr(t.p[x], t.pm[x], "periodic sweep"); checkX(t.x[x], t.xm[x], "periodic sweep"); }
  }
  for (int x = 0; x < t.P; ++x) { checkS(t.s[x], t.sm[x], "final sweep"); checkV(t.v[x], t.vm[x], "final sweep"); checkPtr(t.p[x], t.pm[x], "final sweep"); checkX(t.x[x], t.xm[x], "final sweep"); }
  // destroy this thread's handles here, concurrently with the other threads
  for (int x = 0; x < t.P; ++x) drop(t.pm[x]);
  delete[] t.s; delete[] t.v; delete[] t.p; delete[] t.x;
  return 0;
}

static void conc() {
  for (long idx = opts.start; idx < opts.start + opts.cases; ++idx) {
    if (!mine(idx)) continue;
    beginCase(idx); Rng r(opts.seed, 902, (u64)idx);
    int T = (int)r.range(2, MAXT), P = (int)r.range(1, MAXP), nops = (int)r.range(200, 2500); int pin = r.chance(1, 3) ? (int)r.below(16) : -1;
    hist.addf("# conc threads=%d payloads=%d ops/thread=%d pinned-to-cpu=%d\n", T, P, nops, pin); setctx("conc/shared-handles");
    long created0 = g_created, destroyed0 = g_destroyed;
#ifdef VERIF_LEDGER
    long live0 = verif_ledger_live();
#endif
    g_mail = new Slot[4]; for (int i = 0; i < 4; ++i) { g_mail[i].full = false; g_mail[i].pm = 0; }
    // originals
    String* os = new String[MAXP]; SModel osm[MAXP]; Variant* ov = new Variant[MAXP]; VModel ovm[MAXP]; PP* op = new PP[MAXP]; long opm[MAXP]; Xml::Variant* ox = new Xml::Variant[MAXP]; XModel oxm[MAXP];
    for (int i = 0; i < P; ++i) {
      osm[i].n = (int)r.range(1, 40); for (int k = 0; k < osm[i].n; ++k) osm[i].b[k] = (char)('a' + r.below(26)); os[i] = String(osm[i].b, (usize)osm[i].n);
      memset(&ovm[i], 0, sizeof ovm[i]); ovm[i].kind = (int)r.below(4);
      if (ovm[i].kind == 0) { ovm[i].n = (int)r.range(1, 40); for (int k = 0; k < ovm[i].n; ++k) ovm[i].b[k] = (char)('A' + r.below(26)); ov[i] = Variant(String(ovm[i].b, (usize)ovm[i].n)); }
      else { ovm[i].ni = r.chance(1, 4) ? (int)r.range(150, VITEMS - 60) : (int)r.range(0, 8);   // some large containers: copying them takes long enough for another thread to act meanwhile
        for (int k = 0; k < ovm[i].ni; ++k) ovm[i].items[k] = (long)r.below(1000);
        if (ovm[i].kind == 1) { List<Variant>& l = ov[i].toList(); for (int k = 0; k < ovm[i].ni; ++k) l.append(Variant((int64)ovm[i].items[k])); }
        else if (ovm[i].kind == 2) { Array<Variant>& l = ov[i].toArray(); for (int k = 0; k < ovm[i].ni; ++k) l.append(Variant((int64)ovm[i].items[k])); }
        else { HashMap<String, Variant>& l = ov[i].toMap(); char kb[16]; for (int k = 0; k < ovm[i].ni; ++k) { int kn = snprintf(kb, sizeof kb, "k%d", k); l.append(String(kb, (usize)kn), Variant((int64)ovm[i].items[k])); } }
        cnt(ovm[i].kind == 1 ? "variant_list_payloads" : ovm[i].kind == 2 ? "variant_array_payloads" : "variant_map_payloads"); }
      Pay* n = r.chance(1, 2) ? new Pay : (Pay*)new PayD; op[i] = n; opm[i] = n->id; hold(opm[i]);
      memset(&oxm[i], 0, sizeof oxm[i]); oxm[i].kind = (int)r.below(3) ? 0 : 1; oxm[i].n = (int)r.range(1, 12); for (int k = 0; k < oxm[i].n; ++k) oxm[i].b[k] = (char)('a' + r.below(26));
      if (oxm[i].kind == 0) { Xml::Element e; e.line = (int)(oxm[i].line = (long)r.below(1000)); e.column = 1; e.type = String(oxm[i].b, (usize)oxm[i].n); e.attributes.append("k", "v"); ox[i] = Xml::Variant(e); } else ox[i] = Xml::Variant(String(oxm[i].b, (usize)oxm[i].n));
    }
    TState* ts = new TState[MAXT]; __atomic_store_n(&g_go, 0, RLX);
    for (int t = 0; t < T; ++t) { TState& s = ts[t]; memset((void*)&s, 0, sizeof s); s.idx = t; s.P = P; s.seed = r.next(); s.nops = nops; s.cpu = pin;
      s.s = new String[MAXP]; s.v = new Variant[MAXP]; s.p = new PP[MAXP]; s.x = new Xml::Variant[MAXP];
      for (int i = 0; i < P; ++i) { s.s[i] = os[i]; s.sm[i] = osm[i]; s.v[i] = ov[i]; s.vm[i] = ovm[i]; s.p[i] = op[i]; s.pm[i] = opm[i]; hold(opm[i]); s.x[i] = ox[i]; s.xm[i] = oxm[i]; }
      pthread_create(&s.th, 0, concMain, &s); }
    // main drops its own handles while the threads run (the originals are just one more set of handles)
    __atomic_store_n(&g_go, 1, RLX);
    for (int i = 0; i < P; ++i) drop(opm[i]);
    delete[] os; delete[] ov; delete[] op; delete[] ox;
    long ops = 0, mods = 0, mail = 0, shared = 0;
    for (int t = 0; t < T; ++t) { pthread_join(ts[t].th, 0); ops += ts[t].ops; mods += ts[t].mods; mail += ts[t].mailOps; shared += ts[t].sharedOps; }
    setctx("conc/mailbox-cleanup");
    for (int i = 0; i < 4; ++i) { drop(g_mail[i].pm); }
    delete[] g_mail; delete[] ts;
    if (g_created - created0 != g_destroyed - destroyed0) fail("RefCount.Ptr/payload-not-released-after-last-handle", "%ld payloads created, %ld destroyed after all handles of the run are gone", g_created - created0, g_destroyed - destroyed0);
#ifdef VERIF_LEDGER
    { long leaked = verif_ledger_live() - live0; if (leaked != 0) fail("shared-payload/ledger:not-released", "%ld heap block(s) allocated during the run are still live after every handle is gone", leaked); }
#endif
    cnt("ops", ops); cnt("ops_begun_while_string_payload_shared", shared); cnt("in_place_modifications", mods); cnt("mailbox_exchanges", mail); cnt("threads", T); if (pin >= 0) cnt("runs_pinned_to_one_cpu");
    if (idx % 97 == 0) sample("%s ops=%ld", hist.c(), ops);
    recycleIds();
    endCase(mix((u64)idx, (u64)ops), T >= 2 && ops >= 400);
  }
}


// ------------------------------------------------------------------ mode duel: the last T handles of one payload are released at the same moment
// Each round: thread 0 creates a payload and hands every thread exactly one handle (its own original is gone), all threads meet at a barrier and then
// release their handle simultaneously through a randomly chosen release path (destructor, clear, assignment of a counted / a non-counted value, detach by
// modification, re-pointing). Exactly one of them must free the payload. Oracles: Pay destructor ledger, ASan/LSan, allocation ledger, TSan.
struct Duel {
  int T, kind; long rounds; u64 seed; int phase; int arrived; int go;
  String* s[4]; Variant* v[4]; Xml::Variant* x[4]; PP* p[4]; long pid; long released[4];
};
static void barrier(Duel& d, int& sense) {   // sense-reversing barrier on proper atomics (harness synchronisation: phases are ordered, releases inside a phase are not)
  sense = !sense;
  if (__atomic_add_fetch(&d.arrived, 1, __ATOMIC_ACQ_REL) == d.T) { __atomic_store_n(&d.arrived, 0, __ATOMIC_RELAXED); __atomic_store_n(&d.go, sense, __ATOMIC_RELEASE); }
  else { long spins = 0; while (__atomic_load_n(&d.go, __ATOMIC_ACQUIRE) != sense) { if (++spins > 300) { sched_yield(); } } }
}
struct DArg { Duel* d; int t; pthread_t th; long paths[8]; };
static void* duelMain(void* a) {
  DArg& da = *(DArg*)a; Duel& d = *da.d; int t = da.t; Rng r(d.seed, 905, (u64)t); int sense = 0;
  for (long round = 0; round < d.rounds; ++round) {
    if (t == 0) { // hand out exactly T handles
      if (d.kind == 0) { String o("duel-payload-string-with-some-length", 36); o.append((char)('a' + round % 26)); if (round % 4 == 1) o.clear(); else if (round % 4 == 3) o = String((usize)48); /* also empty heap payloads */ for (int i = 0; i < d.T; ++i) *d.s[i] = o; }
      else if (d.kind == 1) { Variant o; if (round & 1) { List<Variant>& l = o.toList(); l.append(Variant((int64)round)); l.append(Variant(String("x", 1))); } else o = String("duel-variant-string-payload", 27); for (int i = 0; i < d.T; ++i) *d.v[i] = o; }
      else if (d.kind == 2) { Xml::Variant o; if (round & 1) { Xml::Element e; e.line = (int)round; e.type = String("t", 1); o = Xml::Variant(e); } else o = Xml::Variant(String("duel-xml-text", 13)); for (int i = 0; i < d.T; ++i) *d.x[i] = o; }
      else { Pay* n = new Pay; d.pid = n->id; for (int i = 0; i < d.T; ++i) { *d.p[i] = n; hold(d.pid); } }
    }
    barrier(d, sense);
    int path = (int)r.below(6); ++da.paths[path];
    switch (d.kind) {
    case 0: { String*& h = d.s[t];
      if (path == 0) { delete h; h = new String; } else if (path == 1) h->clear(); else if (path == 2) *h = String("lit");   // non-counted source
      else if (path == 3) { String own("own-private-heap-string", 23); own.append('!'); *h = own; } else if (path == 4 && kAllowInPlace) h->append('z'); else { String tmp(*h); *h = String("q"); } break; }
    case 1: { Variant*& h = d.v[t];
      if (path == 0) { delete h; h = new Variant; } else if (path == 1) h->clear(); else if (path == 2) *h = Variant(7); else if (path == 3) { Variant own(String("own", 3)); *h = own; }
      else if (path == 4 && kAllowInPlace) { if (h->getType() == Variant::listType) h->toList().append(Variant(1)); else h->toString().append('z'); } else *h = String("plain", 5); break; }
    case 2: { Xml::Variant*& h = d.x[t];
      if (path == 0) { delete h; h = new Xml::Variant; } else if (path == 1) h->clear(); else if (path == 2) *h = String("text", 4); else if (path == 3) { Xml::Variant own(String("own", 3)); *h = own; }
      else if (path == 4 && kAllowInPlace) { if (h->isElement()) h->toElement().line++; else *h = String("t2", 2); } else { Xml::Variant tmp(*h); h->clear(); } break; }
    default: { PP*& h = d.p[t]; drop(d.pid);
      if (path == 0) { delete h; h = new PP; } else if (path == 1 || path == 4) *h = (Pay*)0; else if (path == 2) { PP e; *h = e; } else if (path == 3) { PP e; h->swap(e); } else { PP tmp(*h); *h = (Pay*)0; } break; }
    }
    barrier(d, sense);
    if (t == 0 && d.kind == 3) { if (__atomic_load_n(&g_dtor[d.pid], RLX) != 1) fail("RefCount.Ptr/payload-not-released-after-last-handle", "duel: payload destroyed %d time(s) after all %d handles were released concurrently", (int)g_dtor[d.pid], d.T); }
  }
  return 0;
}
static void duel() {
  for (long idx = opts.start; idx < opts.start + opts.cases; ++idx) {
    if (!mine(idx)) continue;
    beginCase(idx); Rng r(opts.seed, 904, (u64)idx);
    Duel d; memset((void*)&d, 0, sizeof d); d.T = (int)r.range(2, 4); d.kind = (int)r.below(4); d.rounds = (long)r.range(500, 4000); d.seed = r.next();
    static const char* kn[] = { "String", "Variant", "Xml.Variant", "RefCount.Ptr" };
    hist.addf("# duel kind=%s threads=%d rounds=%ld\n", kn[d.kind], d.T, d.rounds); setctxf("duel/%s/concurrent-release-of-last-handles", kn[d.kind]);
#ifdef VERIF_LEDGER
    long live0 = verif_ledger_live();
#endif
    long created0 = g_created, destroyed0 = g_destroyed;
    for (int i = 0; i < d.T; ++i) { d.s[i] = new String; d.v[i] = new Variant; d.x[i] = new Xml::Variant; d.p[i] = new PP; }
    DArg da[4]; memset(da, 0, sizeof da);
    for (int t = 0; t < d.T; ++t) { da[t].d = &d; da[t].t = t; pthread_create(&da[t].th, 0, duelMain, &da[t]); }
    for (int t = 0; t < d.T; ++t) pthread_join(da[t].th, 0);
    for (int i = 0; i < d.T; ++i) { delete d.s[i]; delete d.v[i]; delete d.x[i]; delete d.p[i]; }
    if (g_created - created0 != g_destroyed - destroyed0) fail("RefCount.Ptr/payload-not-released-after-last-handle", "duel: %ld payloads created, %ld destroyed", g_created - created0, g_destroyed - destroyed0);
#ifdef VERIF_LEDGER
    { long leaked = verif_ledger_live() - live0; if (leaked != 0) fail("shared-payload/ledger:not-released", "duel: %ld heap block(s) still live after every handle is gone", leaked); }
#endif
    cnt("duel_rounds", d.rounds); cnt("ops", d.rounds * d.T); { char nm[64]; snprintf(nm, sizeof nm, "duel_rounds_%s", kn[d.kind]); cnt(nm, d.rounds); }
    static const char* pn[] = { "destructor", "clear-or-null", "assign-non-counted", "assign-counted", "detach-by-modification", "copy-then-release" };
    for (int t = 0; t < d.T; ++t) for (int q = 0; q < 6; ++q) if (da[t].paths[q]) setItem("duel_release_paths", pn[q]);
    recycleIds();
    endCase(mix((u64)idx, (u64)d.rounds * 4 + (u64)d.kind), true);
  }
}

int main(int argc, char** argv) {
  init(argc, argv, "h_refcount");
  if (opts.probe) {
    if (!strcmp(opts.probe, "RefCount.Ptr.swap/different-payloads")) { setctx("RefCount.Ptr.swap/different-payloads"); { PP a(new Pay), b(new Pay); long ia = a->id, ib = b->id; hold(ia); hold(ib); a.swap(b); drop(ib); a = (Pay*)0; checkPtr(b, ia, "after swap and release of the other handle"); drop(ia); } finish(); return 0; }
    harnessBug("unknown probe %s", opts.probe);
  }
  if (!strcmp(opts.mode, "ptr-seq")) ptrSeq(); else if (!strcmp(opts.mode, "conc")) conc(); else if (!strcmp(opts.mode, "duel")) duel(); else harnessBug("unknown mode %s", opts.mode);
  cnt("payloads_created", g_created); cnt("payloads_destroyed", g_destroyed);
#ifdef VERIF_LEDGER
  cnt("ledger_allocations", verif_ledger_allocs()); cnt("ledger_freed_blocks_poison_verified", verif_ledger_verified());
#endif
  leakCheck("refcount/leak");
  finish();
  return 0;
}
