// h_buffer.cpp - C08: Buffer against a byte-queue reference model (+ownership flag, unspecified-byte mask), terminator read behind
// the data whenever the buffer owns its storage, guarded foreign blocks for attach().
// modes: hist (swarm random histories over 3 buffers and 4 foreign blocks), backlog (Server send-backlog usage pattern, 1 B .. 1 MiB chunks)
// Build flavours: private fields are read in repOf() (generator: sizes around the head-room / capacity boundaries; evidence: state and branch classes) and in the structural
// check of a buffer without allocation. With -DVERIF_NO_PRIVATE the picture is built from capacity(), size(), the place of the exposed view (foreign block / Buffer object /
// elsewhere) and the harness's own head-room estimate; size, content, terminator, foreign-guard, == / != oracles are the same in both flavours.
#include "vh.hpp"
#include <nstd/Buffer.hpp>

using namespace vh;

// ------------------------------------------------------------------------------------------------ reference byte queue
struct Bytes {             // d[i] value, k[i] 1 = value pinned by the statement, 0 = unspecified (exposed by a growing resize)
  u8* d; u8* k; size_t n, cap;
  Bytes() : d(0), k(0), n(0), cap(0) {}
  ~Bytes() { free(d); free(k); }
  void need(size_t c) { if (c <= cap) return; size_t nc = cap ? cap * 2 : 64; if (nc < c) nc = c; d = (u8*)realloc(d, nc); k = (u8*)realloc(k, nc); cap = nc; }
  void set(const u8* p, size_t c) { need(c); if (c) { memcpy(d, p, c); memset(k, 1, c); } n = c; }
  void setFrom(const Bytes& o) { if (&o == this) return; need(o.n); if (o.n) { memcpy(d, o.d, o.n); memcpy(k, o.k, o.n); } n = o.n; }
  void append(const u8* p, const u8* kk, size_t c) { need(n + c); if (c) { memmove(d + n, p, c); if (kk) memmove(k + n, kk, c); else memset(k + n, 1, c); } n += c; }
  void prepend(const u8* p, const u8* kk, size_t c) {
    u8* tp = (u8*)malloc(c + 1); u8* tk = (u8*)malloc(c + 1); if (c) { memcpy(tp, p, c); if (kk) memcpy(tk, kk, c); else memset(tk, 1, c); }
    need(n + c); if (n) { memmove(d + c, d, n); memmove(k + c, k, n); } if (c) { memcpy(d, tp, c); memcpy(k, tk, c); } n += c; free(tp); free(tk);
  }
  void resize(size_t c) { need(c); if (c > n) { memset(d + n, 0xee, c - n); memset(k + n, 0, c - n); } n = c; }
  void removeFront(size_t c) { if (c >= n) { n = 0; return; } memmove(d, d + c, n - c); memmove(k, k + c, n - c); n -= c; }
  void removeBack(size_t c) { if (c >= n) n = 0; else n -= c; }
  bool allKnown() const { return n == 0 || memchr(k, 0, n) == 0; }
  void swap(Bytes& o) { u8* t = d; d = o.d; o.d = t; t = k; k = o.k; o.k = t; size_t s = n; n = o.n; o.n = s; s = cap; cap = o.cap; o.cap = s; }
};

struct BM {                // model of one Buffer
  Bytes v;
  bool own;                // the buffer owns its storage (a terminator is required)
  int att;                 // foreign block whose attached range may legitimately be written through this buffer (-1 none); kept conservatively
  size_t aoff, alen;       // attached range inside the payload of that block
  size_t woff;             // payload offset of the first exposed byte while the view is known to alias the block
  bool alias;              // view known to alias foreign memory at woff (cleared as soon as the buffer may have let go of it)
  size_t head;             // the harness's own estimate of the free room in front of the data (bytes taken off the front since the data was last placed at the start of
                           // the storage, minus what prepend put back): selects sizes around the prepend/resize branch boundaries when private fields cannot be read
  BM() : own(false), att(-1), aoff(0), alen(0), woff(0), alias(false), head(0) {}
  void swap(BM& o) { v.swap(o.v); size_t h = head; head = o.head; o.head = h; bool b = own; own = o.own; o.own = b; int a = att; att = o.att; o.att = a; size_t s = aoff; aoff = o.aoff; o.aoff = s; s = alen; alen = o.alen; o.alen = s; s = woff; woff = o.woff; o.woff = s; b = alias; alias = o.alias; o.alias = b; }
  void detach() { att = -1; alias = false; }
};

enum { NB = 3, NF = 4, GUARD = 64, WIN = 768 };
struct Foreign { u8* base; u8* shadow; size_t total; };
static Buffer* B[NB]; static BM* M[NB]; static Foreign F[NF];

static char g_key[256];
static const char* key(const char* what) { snprintf(g_key, sizeof g_key, "%s/%s", (const char*)ctx, what); return g_key; }

// ------------------------------------------------------------------------------------------------ representation of buffer i as far as the generator and the evidence need it
// normal flavour: read from the private fields. VERIF_NO_PRIVATE flavour: only what the public API shows - capacity(), size() and WHERE the exposed view lies (inside a foreign
// block the harness allocated, inside a Buffer object, or elsewhere = storage of its own) - plus the harness's own head-room estimate (BM::head). No verdict depends on the estimate.
static long g_estAgree = 0, g_estDiffer = 0;
static int foreignOf(const byte* p) { for (int f = 0; f < NF; ++f) if (F[f].base && p >= F[f].base && p <= F[f].base + F[f].total) return f; return -1; }
static int bufferObjectOf(const byte* p) { for (int j = 0; j < NB; ++j) if (B[j] && p >= (const byte*)B[j] && p < (const byte*)(B[j] + 1)) return j; return -1; }
// the exposed view is storage of the buffer's own (neither foreign memory nor the inside of a Buffer object)
static bool viewIsOwnStorage(int i) { const byte* p = (const byte*)*(const Buffer*)B[i]; return foreignOf(p) < 0 && bufferObjectOf(p) < 0; }
struct Rep { bool alloc; const char* cls; long head, cap, size; };
static Rep publicRep(int i) {   // the picture without private state
  const Buffer& b = *B[i]; Rep r; r.size = (long)b.size(); r.cap = (long)b.capacity();
  const byte* p = (const byte*)b;
  r.alloc = viewIsOwnStorage(i); r.head = r.alloc ? (long)M[i]->head : 0;
  r.cls = r.alloc ? "owning" : foreignOf(p) >= 0 ? "attached" : "empty-non-owning";
  return r;
}
static Rep repOf(int i) {
#ifndef VERIF_NO_PRIVATE
  const Buffer& b = *B[i]; Rep r; r.size = (long)b.size(); r.cap = (long)b.capacity();
  r.alloc = b.buffer != 0; r.head = b.buffer ? (long)(b.bufferStart - b.buffer) : 0;
  if (b.buffer) r.cls = "owning";
  else if (b.bufferStart == (const byte*)&b._capacity) r.cls = "empty-non-owning";
  else if (foreignOf(b.bufferStart) >= 0) r.cls = "attached";
  else r.cls = "pointing-at-another-buffers-sentinel";   // only reachable through a defective swap()
  return r;
#else
  return publicRep(i);
#endif
}
// how good the fallback flavour's picture is (evidence only; normal flavour)
static void compareReps(int i) {
#ifndef VERIF_NO_PRIVATE
  Rep a = repOf(i), b = publicRep(i);
  if (a.alloc == b.alloc && a.head == b.head && !strcmp(a.cls, b.cls)) ++g_estAgree; else ++g_estDiffer;
#else
  (void)i;
#endif
}
static const char* stateClass(int i) { return repOf(i).cls; }
// the buffer holds storage of its own (the foreign range it was attached to is no longer its business; a terminator can be read behind the data)
static bool holdsStorage(int i) {
#ifndef VERIF_NO_PRIVATE
  return B[i]->buffer != 0;
#else
  return viewIsOwnStorage(i);
#endif
}
// head-room estimate: what the operation about to be called does to the room in front of the data, in terms of the public picture before the call
static void estResize(int i, size_t newSize) { BM& m = *M[i]; Rep r = publicRep(i); if ((long)newSize > r.cap || !r.alloc || r.head + (long)newSize > r.cap) m.head = 0; }
static void estPrepend(int i, size_t n) { BM& m = *M[i]; Rep r = publicRep(i); if (r.alloc && r.head >= (long)n) m.head = (size_t)(r.head - (long)n); else m.head = 0; }
static void estRemoveFront(int i, size_t n) { BM& m = *M[i]; Rep r = publicRep(i); if (!r.alloc || (long)n >= r.size) m.head = 0; else m.head = (size_t)(r.head + (long)n); }

// true when a listed finding whose key starts with `pre` (and contains `sub`, if given) was passed in --exclude
static bool excludedPrefix(const char* pre, const char* sub = 0) {
  const char* e = opts.exclude; size_t k = strlen(pre);
  while (e && *e) { const char* c = strchr(e, ','); size_t len = c ? (size_t)(c - e) : strlen(e);
    if (len >= k && !strncmp(e, pre, k)) { if (!sub) return true; char t[300]; snprintf(t, sizeof t, "%.*s", (int)(len < 299 ? len : 299), e); if (strstr(t, sub)) return true; }
    if (!c) break; e = c + 1; }
  return false;
}
// ------------------------------------------------------------------------------------------------ observation
static long g_bytesCompared = 0, g_termReads = 0, g_guardBytes = 0, g_structChecks = 0, g_viewPlaceChecks = 0;

static void checkOne(int i, int target) {
  const Buffer& b = *B[i]; const BM& m = *M[i];
  const char* other = i == target ? "" : "other-buffer/";
  char kb[64];
  size_t sz = b.size();
  if (sz != m.v.n) { snprintf(kb, sizeof kb, "%ssize", other); fail(key(kb), "buffer %d: size() = %lu, reference queue holds %lu bytes", i, (unsigned long)sz, (unsigned long)m.v.n); }
  if (b.isEmpty() != (m.v.n == 0)) { snprintf(kb, sizeof kb, "%sisEmpty", other); fail(key(kb), "buffer %d: isEmpty() = %d with %lu bytes", i, (int)b.isEmpty(), (unsigned long)m.v.n); }
  const byte* p = (const byte*)b;
#ifndef VERIF_NO_PRIVATE
  if (!b.buffer) {   // structural: without an allocation the window is the buffer's own empty sentinel or lies inside attached (foreign) memory
    bool ok = b.bufferStart == (const byte*)&b._capacity && b.bufferEnd == b.bufferStart;
    for (int f = 0; f < NF && !ok; ++f) if (F[f].base && b.bufferStart >= F[f].base && b.bufferStart <= b.bufferEnd && b.bufferEnd <= F[f].base + F[f].total) ok = true;
    ++g_structChecks;
    if (!ok) { snprintf(kb, sizeof kb, "%sstructure", other); fail(key(kb), "buffer %d holds no allocation, but its window is neither its own empty sentinel nor inside attached memory (it points %ld bytes from the buffer object)", i, (long)(b.bufferStart - (const byte*)&b)); }
  }
#else
  { // the part of the same check that the public view allows: the exposed window never lies inside ANOTHER Buffer object, and a window that starts in foreign memory ends in it
    int o = bufferObjectOf(p), f = foreignOf(p); ++g_viewPlaceChecks;
    if (o >= 0 && o != i) { snprintf(kb, sizeof kb, "%sstructure", other); fail(key(kb), "the view of buffer %d points into the Buffer object %d", i, o); }
    if (o == i && sz != 0) { snprintf(kb, sizeof kb, "%sstructure", other); fail(key(kb), "the view of buffer %d points into the Buffer object itself but size() is %lu", i, (unsigned long)sz); }
    if (f >= 0 && p + sz > F[f].base + F[f].total) { snprintf(kb, sizeof kb, "%sstructure", other); fail(key(kb), "the view of buffer %d starts in foreign block %d and ends %ld bytes behind it", i, f, (long)(p + sz - (F[f].base + F[f].total))); }
  }
#endif
  if (m.v.allKnown()) {
    if (sz && memcmp(p, m.v.d, sz)) { size_t at = 0; while (p[at] == m.v.d[at]) ++at; snprintf(kb, sizeof kb, "%scontent", other); fail(key(kb), "buffer %d: byte %lu of %lu is 0x%02x, reference queue has 0x%02x", i, (unsigned long)at, (unsigned long)sz, p[at], m.v.d[at]); }
    g_bytesCompared += (long)sz;
  } else {
    for (size_t at = 0; at < sz; ++at) if (m.v.k[at]) { ++g_bytesCompared; if (p[at] != m.v.d[at]) { snprintf(kb, sizeof kb, "%scontent", other); fail(key(kb), "buffer %d: byte %lu of %lu is 0x%02x, reference queue has 0x%02x", i, (unsigned long)at, (unsigned long)sz, p[at], m.v.d[at]); } }
  }
  if (m.own && holdsStorage(i)) {       // owns its storage: one readable zero byte follows (ASan: readable; malloc fill 0xbe: really written)
    byte t = p[sz]; ++g_termReads;
    if (t != 0) { snprintf(kb, sizeof kb, "%sterminator", other); fail(key(kb), "buffer %d (%lu bytes, owning): the byte after the data is 0x%02x, not 0", i, (unsigned long)sz, t); }
  }
}

static void checkForeign() {
  for (int f = 0; f < NF; ++f) {
    size_t lo = 0, hi = 0;    // tolerated range (relative to base)
    for (int i = 0; i < NB; ++i) if (M[i]->att == f) { lo = GUARD + M[i]->aoff; hi = lo + M[i]->alen; }
    const u8* a = F[f].base; u8* s = F[f].shadow;
    if (lo > 0 && memcmp(a, s, lo)) { size_t at = 0; while (a[at] == s[at]) ++at; fail(key("foreign-guard/stray-write"), "foreign block %d: byte %ld before the attached range changed from 0x%02x to 0x%02x", f, (long)lo - (long)at, s[at], a[at]); }
    if (hi < F[f].total && memcmp(a + hi, s + hi, F[f].total - hi)) { size_t at = hi; while (a[at] == s[at]) ++at; fail(key("foreign-guard/stray-write"), "foreign block %d: byte %lu behind the attached range (%lu bytes) changed from 0x%02x to 0x%02x", f, (unsigned long)(at - hi), (unsigned long)(hi - lo), s[at], a[at]); }
    if (hi > lo) memcpy(s + lo, a + lo, hi - lo);   // inside the attached range writes are allowed by the statement
    g_guardBytes += (long)(F[f].total - (hi - lo));
  }
}

// tri-state equality of two models: 1 equal, 0 different, -1 unspecified
static int modelEq(const Bytes& a, const Bytes& b) {
  if (a.n != b.n) return 0;
  bool unk = false;
  for (size_t i = 0; i < a.n; ++i) { if (a.k[i] && b.k[i]) { if (a.d[i] != b.d[i]) return 0; } else if (&a != &b) unk = true; }
  return unk ? -1 : 1;
}

static int g_target2 = -1;   // second receiver of the operation (swap)
static void checkAll(int target, bool pairs) {
  for (int i = 0; i < NB; ++i) {
    if (M[i]->att >= 0 && holdsStorage(i)) M[i]->detach();   // it owns storage now: the foreign range is no longer its business
    checkOne(i, i == g_target2 ? i : target);
  }
  g_target2 = -1;
  checkForeign();
  if (pairs) for (int i = 0; i < NB; ++i) for (int j = 0; j < NB; ++j) {
    int e = modelEq(M[i]->v, M[j]->v); if (e < 0) { cnt("compare_skipped_unspecified"); continue; }
    bool eq = *B[i] == *B[j], ne = *B[i] != *B[j];
    if (eq != (e == 1)) fail(key("operator=="), "buffer %d == buffer %d gives %d, reference queues %s", i, j, (int)eq, e ? "are equal" : "differ");
    if (ne != (e == 0)) fail(key("operator!="), "buffer %d != buffer %d gives %d, reference queues %s", i, j, (int)ne, e ? "are equal" : "differ");
    cnt("compares");
  }
}

// ------------------------------------------------------------------------------------------------ generation helpers
static u8* genBytes(Rng& r, size_t n) {    // exactly sized heap block; bytes mostly non-zero so that a stale byte is never an accidental terminator
  u8* p = (u8*)malloc(n); if (!p) p = (u8*)malloc(1);   // exactly n readable bytes
  if (!n) return p;
  bool zeros = r.chance(1, 8);
  for (size_t i = 0; i < n; ++i) { u8 c = (u8)r.next(); if (!c && !zeros) c = 0xa5; p[i] = c; }
  return p;
}
static size_t clip(long v, long max) { return (size_t)(v < 0 ? 0 : v > max ? max : v); }

// sizes around the branch boundaries of buffer i
static size_t pickLen(Rng& r, int i, int big) {
  Rep q = repOf(i); long head = q.head, cap = q.cap, sz = q.size, room = cap - sz, tail = q.alloc ? cap - head - sz : 0;
  switch (r.below(16)) {
  case 0: return 0;
  case 1: return 1;
  case 2: return clip(head - 1, 4096);
  case 3: return clip(head, 4096);
  case 4: return clip(head + 1, 4096);
  case 5: return clip(room - 1, 4096);
  case 6: return clip(room, 4096);
  case 7: return clip(room + 1, 4096);
  case 8: return clip(tail, 4096);
  case 9: return clip(tail + 1, 4096);
  case 10: return clip(sz, 4096);
  case 11: return (size_t)r.range(0, big ? 3000 : 600);
  default: return (size_t)r.range(0, 40);
  }
}
static size_t pickNewSize(Rng& r, int i) {
  Rep q = repOf(i); long head = q.head, cap = q.cap, sz = q.size;
  switch (r.below(14)) {
  case 0: return 0;
  case 1: return clip(sz, 8192);
  case 2: return clip(sz - 1, 8192);
  case 3: return clip(sz + 1, 8192);
  case 4: return clip(cap, 8192);
  case 5: return clip(cap + 1, 8192);
  case 6: return clip(cap - 1, 8192);
  case 7: return clip(cap - head, 8192);          // last size that fits in place
  case 8: return clip(cap - head + 1, 8192);      // first size that needs compaction
  case 9: return clip(sz / 2, 8192);
  case 10: return (size_t)r.range(0, 1500);
  default: return clip(sz + r.range(-20, 40), 8192);
  }
}
static size_t pickRemove(Rng& r, size_t sz) {
  switch (r.below(8)) {
  case 0: return 0;
  case 1: return 1;
  case 2: return sz ? sz - 1 : 0;
  case 3: return sz;
  case 4: return sz + 1;
  case 5: return sz + (size_t)r.range(2, 64);
  default: return sz ? (size_t)r.below(sz) : 0;
  }
}

// branch classes of prepend / resize: derived from the private fields before the call; in the VERIF_NO_PRIVATE flavour from the public picture and the head-room ESTIMATE (they
// are then recorded as "branches_estimated": a class name there says which sizes the generator aimed at, not which branch the library was seen to take)
static const char* prependBranch(int i, size_t n) {
  Rep q = repOf(i);
  if (!q.alloc) return !strcmp(q.cls, "empty-non-owning") ? "empty-non-owning" : "attached";
  if (q.head >= (long)n) return "head-room";
  if (q.cap >= (long)n + q.size) return "shift";
  return "reallocate";
}
static const char* resizeBranch(int i, size_t size) {
  Rep q = repOf(i); long sz = (long)size;
  if (!q.alloc) return !strcmp(q.cls, "empty-non-owning") ? (size ? "empty-non-owning/grow" : "empty-non-owning/zero") : (sz > q.size ? "attached/grow" : sz == q.size ? "attached/same" : "attached/shrink");
  if (sz > q.cap) return "reallocate";
  if (q.head + sz <= q.cap) return sz > q.size ? "in-place/grow" : sz == q.size ? "in-place/same" : "in-place/shrink";
  return "compact-to-front";
}
#ifndef VERIF_NO_PRIVATE
static const char* const BRANCH_SET = "branches"; static const char* const CELL_SET = "op_state_cells";
#else
static const char* const BRANCH_SET = "branches_estimated"; static const char* const CELL_SET = "op_state_cells_estimated";
#endif
static void noteBranch(const char* op, const char* br) { char t[96]; snprintf(t, sizeof t, "%s/%s", op, br); setItem(BRANCH_SET, t); }
static void noteCell(const char* op, int i) { Rep q = repOf(i); char t[96]; snprintf(t, sizeof t, "%s/%s%s", op, q.cls, q.alloc && q.head ? "+front-offset" : ""); setItem(CELL_SET, t); }

// ------------------------------------------------------------------------------------------------ one history
static void replaceBuffer(int i, Buffer* nb) { delete B[i]; B[i] = nb; M[i]->detach(); M[i]->head = 0; }

static void historyCase(long idx) {
  Rng r(opts.seed, 8001, (u64)idx);
  int nops = (int)r.range(30, 300); int big = r.chance(1, 6);
  enum { K_APPEND, K_APPENDB, K_PREPEND, K_PREPENDB, K_ASSIGN, K_ASSIGNB, K_COPY, K_CTOR, K_RESIZE, K_RESERVE, K_RMFRONT, K_RMBACK, K_CLEAR, K_FREE, K_SWAP, K_ATTACH, K_WRITE, K_POKE, K_SELF, NK };
  int w[NK]; int tot = 0;
  for (int k = 0; k < NK; ++k) w[k] = r.chance(1, 4) ? 0 : (int)r.range(1, 10);
  w[K_APPEND] += 2; w[K_RMFRONT] += 2; if (r.chance(1, 2)) { w[K_FREE] = w[K_FREE] ? 1 : 0; w[K_CLEAR] = w[K_CLEAR] ? 1 : 0; w[K_CTOR] = w[K_CTOR] ? 1 : 0; }
  if (r.chance(1, 2)) w[K_ATTACH] = 0;            // half of the histories are purely owning
  w[K_SELF] = w[K_SELF] ? 1 + w[K_SELF] / 3 : 0;
  // listed (unfixed) findings: avoid exactly their trigger condition
  bool xAttach = excludedPrefix("Buffer.", "/attached/"), xPrepend = excludedPrefix("Buffer.prepend/", "terminator") || excludedPrefix("Buffer.prepend(Buffer)/", "terminator");
  bool xRmFrontAll = excludedPrefix("Buffer.removeFront/", "terminator"), xSwapEmpty = excludedPrefix("Buffer.swap/"), xSelfAssign = excludedPrefix("Buffer.operator=/arg=self"), xSelfPrepend = excludedPrefix("Buffer.prepend(Buffer)/arg=self");
  if (xAttach) w[K_ATTACH] = 0;                       // trigger: any use of a buffer after attach()
  if (xPrepend) w[K_PREPEND] = w[K_PREPENDB] = 0;     // trigger: prepend outside the head-room branch
  for (int k = 0; k < NK; ++k) tot += w[k];
  hist.addf("# Buffer history nops=%d big=%d\n", nops, big);
  for (int f = 0; f < NF; ++f) { F[f].total = GUARD + WIN + GUARD; F[f].base = (u8*)malloc(F[f].total); F[f].shadow = (u8*)malloc(F[f].total); for (size_t i = 0; i < F[f].total; ++i) F[f].base[i] = (u8)(1 + (r.next() % 255)); memcpy(F[f].shadow, F[f].base, F[f].total); }
  for (int i = 0; i < NB; ++i) { B[i] = new Buffer; M[i] = new BM; }
  u64 fp = 0; bool removed = false, attached = false; size_t maxsz = 0; int branchesBefore = 0; (void)branchesBefore;
  setctx("Buffer()"); checkAll(0, true);
  for (int o = 0; o < nops; ++o) {
    int pick = (int)r.below((u64)tot), kind = 0; while (pick >= w[kind]) pick -= w[kind++];
    int i = (int)r.below(NB), j = (int)r.below(NB); if (j == i) j = (i + 1) % NB;
    Buffer& b = *B[i]; BM& m = *M[i];
    if ((kind == K_APPENDB || kind == K_PREPENDB) && b.size() + B[j]->size() > 20000) kind = K_RMFRONT;   // b0 += b1; b1 += b0; ... grows like Fibonacci numbers
    fp = mix(fp, (u64)kind * 7 + (u64)i);
    compareReps(i);
    switch (kind) {
    case K_APPEND: {
      size_t n = pickLen(r, i, big); u8* d = genBytes(r, n); const char* br = resizeBranch(i, b.size() + n); estResize(i, b.size() + n);
      setctxf("Buffer.append/%s", br); noteBranch("append", br); noteCell("append", i); hist.addf("b%d.append(%lu bytes) [%s size=%lu cap=%lu head=%ld]\n", i, (unsigned long)n, br, (unsigned long)b.size(), (unsigned long)b.capacity(), repOf(i).alloc ? repOf(i).head : -1L);
      b.append(d, n); m.v.append(d, 0, n); if (m.v.n > 0) m.own = true; free(d); cnt("op_append"); break; }
    case K_APPENDB: {
      const Buffer& s = *B[j]; const char* br = resizeBranch(i, b.size() + s.size()); estResize(i, b.size() + s.size());
      setctxf("Buffer.append(Buffer)/%s", br); noteBranch("append", br); noteCell("append(Buffer)", i); hist.addf("b%d.append(b%d: %lu bytes) [%s]\n", i, j, (unsigned long)s.size(), br);
      b.append(s); m.v.append(M[j]->v.d, M[j]->v.k, M[j]->v.n); if (m.v.n > 0) m.own = true; cnt("op_append_buffer"); break; }
    case K_PREPEND: {
      size_t n = pickLen(r, i, big); u8* d = genBytes(r, n); const char* br = prependBranch(i, n); estPrepend(i, n);
      setctxf("Buffer.prepend/%s", br); noteBranch("prepend", br); noteCell("prepend", i); hist.addf("b%d.prepend(%lu bytes) [%s size=%lu cap=%lu head=%ld]\n", i, (unsigned long)n, br, (unsigned long)b.size(), (unsigned long)b.capacity(), repOf(i).alloc ? repOf(i).head : -1L);
      b.prepend(d, n); m.v.prepend(d, 0, n); m.own = true; free(d); cnt("op_prepend"); break; }
    case K_PREPENDB: {
      const Buffer& s = *B[j]; const char* br = prependBranch(i, s.size()); estPrepend(i, s.size());
      setctxf("Buffer.prepend(Buffer)/%s", br); noteBranch("prepend", br); noteCell("prepend(Buffer)", i); hist.addf("b%d.prepend(b%d: %lu bytes) [%s]\n", i, j, (unsigned long)s.size(), br);
      b.prepend(s); m.v.prepend(M[j]->v.d, M[j]->v.k, M[j]->v.n); m.own = true; cnt("op_prepend_buffer"); break; }
    case K_ASSIGN: {
      size_t n = pickLen(r, i, big); u8* d = genBytes(r, n); const char* sc = stateClass(i); const char* fit = n > b.capacity() ? "grow" : "fits";
      setctxf("Buffer.assign/%s/%s", sc, fit); noteCell("assign", i); { char t[64]; snprintf(t, sizeof t, "%s/%s", sc, fit); noteBranch("assign", t); } hist.addf("b%d.assign(%lu bytes) [%s cap=%lu]\n", i, (unsigned long)n, sc, (unsigned long)b.capacity());
      m.head = 0; b.assign(d, n); m.v.set(d, n); if (n > 0) m.own = true; free(d); cnt("op_assign"); break; }
    case K_ASSIGNB: {
      const Buffer& s = *B[j]; const char* sc = stateClass(i); const char* fit = s.size() > b.capacity() ? "grow" : "fits";
      setctxf("Buffer.operator=/%s/%s", sc, fit); noteCell("operator=", i); { char t[64]; snprintf(t, sizeof t, "%s/%s", sc, fit); noteBranch("operator=", t); } hist.addf("b%d = b%d (%lu bytes) [%s cap=%lu]\n", i, j, (unsigned long)s.size(), sc, (unsigned long)b.capacity());
      m.head = 0; b = s; m.v.setFrom(M[j]->v); if (m.v.n > 0) m.own = true; cnt("op_assign_buffer"); break; }
    case K_COPY: {
      setctxf("Buffer.copy-construct/from-%s", stateClass(j)); noteCell("copy-construct-from", j); hist.addf("b%d := Buffer(b%d)\n", i, j);
      Buffer* nb = new Buffer(*B[j]); replaceBuffer(i, nb); M[i]->v.setFrom(M[j]->v); M[i]->own = true; cnt("op_copy"); break; }
    case K_CTOR: {
      int which = (int)r.below(3);
      if (which == 0) { setctx("Buffer.Buffer()"); hist.addf("b%d := Buffer()\n", i); replaceBuffer(i, new Buffer); M[i]->v.n = 0; M[i]->own = false; }
      else if (which == 1) { size_t c = (size_t)r.range(0, 200); setctx("Buffer.Buffer(capacity)"); hist.addf("b%d := Buffer(capacity %lu)\n", i, (unsigned long)c); replaceBuffer(i, new Buffer(c)); M[i]->v.n = 0; M[i]->own = true; }
      else { size_t n = (size_t)r.range(0, 200); u8* d = genBytes(r, n); setctx("Buffer.Buffer(data,size)"); hist.addf("b%d := Buffer(data, %lu)\n", i, (unsigned long)n); replaceBuffer(i, new Buffer(d, n)); M[i]->v.set(d, n); M[i]->own = true; free(d); }
      cnt("op_construct"); break; }
    case K_RESIZE: {
      size_t n = pickNewSize(r, i); const char* br = resizeBranch(i, n); estResize(i, n);
      setctxf("Buffer.resize/%s", br); noteBranch("resize", br); noteCell("resize", i); hist.addf("b%d.resize(%lu) [%s size=%lu cap=%lu head=%ld]\n", i, (unsigned long)n, br, (unsigned long)b.size(), (unsigned long)b.capacity(), repOf(i).alloc ? repOf(i).head : -1L);
      b.resize(n); m.v.resize(n); if (n > 0 && !m.own) m.own = true; cnt("op_resize"); break; }
    case K_RESERVE: {
      size_t n = r.chance(1, 3) ? pickNewSize(r, i) : (size_t)r.range(0, 300); const char* sc = stateClass(i);
      setctxf("Buffer.reserve/%s/%s", sc, n > b.capacity() ? "grow" : "noop"); noteCell("reserve", i); { char t[64]; snprintf(t, sizeof t, "%s/%s", sc, n > b.capacity() ? "grow" : "noop"); noteBranch("reserve", t); } hist.addf("b%d.reserve(%lu) [%s cap=%lu]\n", i, (unsigned long)n, sc, (unsigned long)b.capacity());
      if (n > b.capacity()) m.head = 0; b.reserve(n); if (n > 0) m.own = true; cnt("op_reserve"); break; }
    case K_RMFRONT: {
      size_t n = pickRemove(r, b.size()); if (xRmFrontAll && repOf(i).alloc && n >= b.size()) { if (!b.size()) break; n = b.size() - 1; }   // trigger: removeFront of everything (also of nothing from an empty window) from an owning buffer
      const char* cls = n == 0 ? "zero" : n < b.size() ? "part" : n == b.size() ? "all" : "more";
      setctxf("Buffer.removeFront/%s/%s", stateClass(i), cls); noteCell("removeFront", i); { char t[64]; snprintf(t, sizeof t, "%s/%s", stateClass(i), cls); noteBranch("removeFront", t); } hist.addf("b%d.removeFront(%lu) [%s size=%lu]\n", i, (unsigned long)n, stateClass(i), (unsigned long)b.size());
      estRemoveFront(i, n); b.removeFront(n); if (n >= m.v.n) m.alias = false; else m.woff += n; m.v.removeFront(n); removed = true; cnt("op_remove_front"); break; }
    case K_RMBACK: {
      size_t n = pickRemove(r, b.size()); const char* cls = n == 0 ? "zero" : n < b.size() ? "part" : n == b.size() ? "all" : "more";
      setctxf("Buffer.removeBack/%s/%s", stateClass(i), cls); noteCell("removeBack", i); { char t[64]; snprintf(t, sizeof t, "%s/%s", stateClass(i), cls); noteBranch("removeBack", t); } hist.addf("b%d.removeBack(%lu) [%s size=%lu]\n", i, (unsigned long)n, stateClass(i), (unsigned long)b.size());
      if (n >= b.size()) m.head = 0; b.removeBack(n); if (n >= m.v.n) m.alias = false; m.v.removeBack(n); removed = true; cnt("op_remove_back"); break; }
    case K_CLEAR: setctxf("Buffer.clear/%s", stateClass(i)); noteCell("clear", i); hist.addf("b%d.clear() [%s]\n", i, stateClass(i)); m.head = 0; b.clear(); m.v.n = 0; m.alias = false; cnt("op_clear"); break;
    case K_FREE: setctxf("Buffer.free/%s", stateClass(i)); noteCell("free", i); hist.addf("b%d.free() [%s]\n", i, stateClass(i)); m.head = 0; b.free(); m.v.n = 0; m.own = false; m.detach(); cnt("op_free"); break;
    case K_SWAP: if (xSwapEmpty && (!strcmp(stateClass(i), "empty-non-owning") || !strcmp(stateClass(j), "empty-non-owning"))) break;   // trigger: swap with a buffer that has no storage
      { bool se = !strcmp(stateClass(i), "empty-non-owning") || !strcmp(stateClass(j), "empty-non-owning"); setctxf("Buffer.swap/%s", se ? "with-empty-non-owning" : "both-hold-data"); } noteCell("swap", i); noteCell("swap-arg", j); g_target2 = j; hist.addf("b%d.swap(b%d)\n", i, j); b.swap(*B[j]); m.swap(*M[j]); cnt("op_swap"); break;
    case K_ATTACH: {
      int f = -1; for (int t = 0; t < NF; ++t) { int c = (int)((t + r.below(NF)) % NF); bool used = false; for (int q = 0; q < NB; ++q) if (q != i && M[q]->att == c) used = true; if (!used) { f = c; break; } }
      if (f < 0) break;
      size_t len = r.chance(1, 10) ? 0 : (size_t)r.range(1, r.chance(1, 2) ? 64 : WIN); size_t off = (size_t)r.range(0, (long)(WIN - len));
      setctxf("Buffer.attach/%s", stateClass(i)); noteCell("attach", i); hist.addf("b%d.attach(foreign%d + %lu, %lu) [%s]\n", i, f, (unsigned long)off, (unsigned long)len, stateClass(i));
      m.head = 0; b.attach(F[f].base + GUARD + off, len);
      m.v.set(F[f].base + GUARD + off, len); m.own = false; m.att = f; m.aoff = off; m.alen = len; m.woff = off; m.alias = len > 0; attached = true; cnt("op_attach"); break; }
    case K_WRITE: {       // write through the mutable view
      if (!b.size()) break; size_t at = (size_t)r.below(b.size()); u8 c = (u8)(1 + r.below(255));
      if (!repOf(i).alloc && m.att < 0) break;   // the harness itself never writes where the model has no attachment on record
      setctxf("Buffer.operator-byte*/%s", stateClass(i)); hist.addf("((byte*)b%d)[%lu] = 0x%02x\n", i, (unsigned long)at, c);
      ((byte*)b)[at] = c; m.v.d[at] = c; m.v.k[at] = 1; cnt("op_write_view"); break; }
    case K_POKE: {        // the owner of the foreign memory changes a byte that an attached buffer exposes
      if (!(m.att >= 0 && m.alias && !m.own && m.v.n)) break; size_t at = (size_t)r.below(m.v.n); u8 c = (u8)(1 + r.below(255));
      setctxf("Buffer.attach/view-aliases-foreign"); hist.addf("foreign%d[%lu] = 0x%02x (exposed as b%d[%lu])\n", m.att, (unsigned long)(m.woff + at), c, i, (unsigned long)at);
      F[m.att].base[GUARD + m.woff + at] = c; m.v.d[at] = c; m.v.k[at] = 1; cnt("op_poke_foreign"); break; }
    case K_SELF: {        // the argument is the receiver itself
      int which = (int)r.below(3); Bytes tmp; tmp.setFrom(m.v);
      if (b.size() > 20000) break;
      if (which == 0) { const char* sc = stateClass(i); Rep q = repOf(i); const char* ov = !q.alloc ? "no-copy" : q.head == 0 ? "same-place" : q.head < q.size ? "overlapping" : "disjoint";
        if (xSelfAssign) break;
        setctxf("Buffer.operator=/arg=self/%s/%s", sc, ov); { char t[96]; snprintf(t, sizeof t, "arg=self/%s/%s", sc, ov); noteBranch("operator=", t); } hist.addf("b%d = b%d [%s %s size=%lu]\n", i, i, sc, ov, (unsigned long)b.size());
        Buffer& alias = b; b = alias; }
      else if (which == 1) { const char* br = resizeBranch(i, 2 * b.size()); estResize(i, 2 * b.size());
        setctxf("Buffer.append(Buffer)/arg=self/%s", br); { char t[96]; snprintf(t, sizeof t, "arg=self/%s", br); noteBranch("append", t); } hist.addf("b%d.append(b%d) [%s size=%lu]\n", i, i, br, (unsigned long)b.size());
        b.append(b); m.v.append(tmp.d, tmp.k, tmp.n); if (m.v.n > 0) m.own = true; }
      else { const char* br = prependBranch(i, b.size());
        if (xSelfPrepend || xPrepend) break;
        estPrepend(i, b.size());
        setctxf("Buffer.prepend(Buffer)/arg=self/%s", br); { char t[96]; snprintf(t, sizeof t, "arg=self/%s", br); noteBranch("prepend", t); } hist.addf("b%d.prepend(b%d) [%s size=%lu]\n", i, i, br, (unsigned long)b.size());
        b.prepend(b); m.v.prepend(tmp.d, tmp.k, tmp.n); m.own = true; }
      cnt("op_self_argument"); break; }
    default: break;
    }
    if (m.own) m.detach();
    size_t s = B[i]->size(); if (s > maxsz) maxsz = s;
    checkAll(i, o % 4 == 0 || kind == K_ASSIGNB || kind == K_COPY || kind == K_SWAP);
    cnt("ops");
  }
  setctx("Buffer.~Buffer");
  for (int i = 0; i < NB; ++i) { delete B[i]; B[i] = 0; M[i]->detach(); }
  { // nothing may have touched foreign memory by destroying attached buffers
    for (int i = 0; i < NB; ++i) { delete M[i]; M[i] = new BM; } checkForeign(); for (int i = 0; i < NB; ++i) { delete M[i]; M[i] = 0; } }
  for (int f = 0; f < NF; ++f) { free(F[f].base); free(F[f].shadow); F[f].base = 0; F[f].shadow = 0; }
  statMax("max_size", (long)maxsz);
  if (attached) cnt("histories_with_attach");
  if (idx % 401 == 0) sample("%.1200s", hist.c());
  endCase(fp, removed && maxsz >= 2);
}

// ------------------------------------------------------------------------------------------------ Server send-backlog pattern
static void backlogCase(long idx) {
  Rng r(opts.seed, 8002, (u64)idx);
  hist.addf("# Buffer send-backlog pattern\n");
  B[0] = new Buffer; M[0] = new BM; for (int i = 1; i < NB; ++i) { B[i] = new Buffer; M[i] = new BM; }
  for (int f = 0; f < NF; ++f) { F[f].total = 2 * GUARD; F[f].base = (u8*)malloc(F[f].total); F[f].shadow = (u8*)malloc(F[f].total); memset(F[f].base, 0x5c, F[f].total); memcpy(F[f].shadow, F[f].base, F[f].total); }
  Buffer& b = *B[0]; BM& m = *M[0];
  long budget = 6 << 20; int rounds = (int)r.range(10, 120); size_t maxsz = 0; u64 fp = 0; long drains = 0;
  int maxlog = (int)r.range(4, 20);
  for (int o = 0; o < rounds && budget > 0; ++o) {
    // write(): the unsent tail of a message is appended
    int lg = (int)r.range(0, maxlog); size_t n = (size_t)1 << lg; n = n / 2 + (size_t)r.below(n / 2 + 1); if (n == 0) n = 1; if ((long)n > budget) n = (size_t)budget; budget -= (long)n;
    u8* d = genBytes(r, n); const char* br = resizeBranch(0, b.size() + n); estResize(0, b.size() + n);
    setctxf("Buffer.append/%s", br); noteBranch("append", br); hist.addf("append(%lu) [%s size=%lu]\n", (unsigned long)n, br, (unsigned long)b.size());
    b.append(d, n); m.v.append(d, 0, n); m.own = true; free(d); cnt("op_append"); cnt("ops");
    if (b.size() > maxsz) maxsz = b.size();
    checkAll(0, false);
    // the socket becomes writable: a prefix is sent (1 byte .. everything), possibly several times
    int sends = (int)r.range(0, 4);
    for (int s = 0; s < sends && m.v.n; ++s) {
      size_t sent = r.chance(1, 4) ? m.v.n : r.chance(1, 4) ? 1 : 1 + (size_t)r.below(m.v.n);
      const char* cls = sent < m.v.n ? "part" : "all";
      setctxf("Buffer.removeFront/owning/%s", cls); hist.addf("removeFront(%lu) of %lu\n", (unsigned long)sent, (unsigned long)m.v.n);
      estRemoveFront(0, sent); b.removeFront(sent); m.v.removeFront(sent); cnt("op_remove_front"); cnt("ops");
      fp = mix(fp, sent);
      checkAll(0, false);
      if (b.isEmpty()) { setctx("Buffer.free/owning"); hist.add("free()\n"); m.head = 0; b.free(); m.own = false; m.v.n = 0; cnt("op_free"); cnt("ops"); ++drains; checkAll(0, false); }
    }
    fp = mix(fp, n);
  }
  setctx("Buffer.~Buffer");
  for (int i = 0; i < NB; ++i) { delete B[i]; delete M[i]; B[i] = 0; M[i] = 0; }
  for (int f = 0; f < NF; ++f) { free(F[f].base); free(F[f].shadow); F[f].base = 0; F[f].shadow = 0; }
  statMax("max_size", (long)maxsz); cnt("backlog_drains", drains);
  if (idx % 97 == 0) sample("%.600s", hist.c());
  endCase(fp, drains > 0 && maxsz >= 2);
}

// ------------------------------------------------------------------------------------------------ probes (minimal reproducers)
static u8* filled(size_t n, u8 c) { u8* p = (u8*)malloc(n ? n : 1); memset(p, c, n); return p; }
static bool has(const char* k, const char* sub) { return strstr(k, sub) != 0; }
static bool starts(const char* k, const char* pre) { return !strncmp(k, pre, strlen(pre)); }
static int probe(const char* k) {
  if (starts(k, "Buffer.prepend(Buffer)/arg=self")) {
    u8* d = filled(16, 'x'); for (int i = 0; i < 16; ++i) d[i] = (u8)('a' + i); Buffer b(64); b.append(d, 16); b.removeFront(4); /* 12 bytes e..p, head 4, capacity 64 */ b.prepend(b);
    if (b.size() != 24 || memcmp((const byte*)b, d + 4, 12) || memcmp((const byte*)b + 12, d + 4, 12)) fail(k, "b.prepend(b) did not duplicate the content"); free(d); return 0; }
  if (starts(k, "Buffer.prepend") && has(k, "terminator") && has(k, "/shift/")) {
    u8* d = filled(12, 'x'); Buffer b(16); b.append(d, 12); b.removeFront(2); b.removeBack(6); /* "xxxx" at offset 2, stale 'x' at offsets 7..11 */ b.prepend(d, 4); /* shifted: data ends at offset 8 */
    if (((const byte*)b)[b.size()] != 0) fail(k, "byte after the data is 0x%02x", ((const byte*)b)[b.size()]); free(d); return 0; }
  if (starts(k, "Buffer.prepend") && has(k, "terminator")) {
    u8* d = filled(8, 'x'); Buffer b; b.append(d, 4); b.prepend(d, 8);
    if (((const byte*)b)[b.size()] != 0) fail(k, "byte after the data is 0x%02x", ((const byte*)b)[b.size()]); free(d); return 0; }
  if (starts(k, "Buffer.removeFront") && has(k, "terminator")) {
    u8* d = filled(8, 'x'); Buffer b; b.append(d, 8); b.removeFront(8);
    if (((const byte*)b)[b.size()] != 0) fail(k, "byte after the (empty) data is 0x%02x", ((const byte*)b)[b.size()]); free(d); return 0; }
  if (has(k, "stray-write")) {
    u8* d = filled(101, 'x'); { Buffer b; b.attach(d, 100); b.removeBack(0); if (d[100] != 'x') fail(k, "the byte behind the attached range was overwritten with 0x%02x", d[100]); } free(d); return 0; }
  if (starts(k, "Buffer.reserve") && has(k, "/attached/")) {
    u8* d = filled(100, 'x'); { Buffer b; b.attach(d, 100); b.reserve(10); if (b.size() != 100) fail(k, "size %lu after attach(p,100); reserve(10)", (unsigned long)b.size()); } free(d); return 0; }
  if ((starts(k, "Buffer.assign") || starts(k, "Buffer.operator=")) && has(k, "/attached/")) {
    u8* d = filled(100, 'x'); { Buffer b(200); b.attach(d, 100); b.assign(d, 3); if (b.size() != 3) fail(k, "size %lu after attach(p,100); assign(p,3)", (unsigned long)b.size()); } free(d); return 0; }
  if (has(k, "/attached/")) {     // resize, append, ... after attach: the stale capacity
    u8* d = filled(100, 'x'); { Buffer b(200); b.attach(d, 100); b.resize(50); if (b.size() != 50) fail(k, "size %lu after attach(p,100); resize(50)", (unsigned long)b.size()); } free(d); return 0; }
  if (starts(k, "Buffer.swap")) {
    u8* d = filled(8, 'x'); Buffer* a = new Buffer; Buffer* b = new Buffer(d, 8); a->swap(*b); /* b is the empty one now */
    bool inside = (const byte*)*b >= (const byte*)b && (const byte*)*b < (const byte*)(b + 1); delete a; b->removeBack(0); delete b; free(d);
    if (!inside) fail(k, "after swap the empty buffer points into the other object"); return 0; }
  if (starts(k, "Buffer.operator=/arg=self")) {
    u8* d = filled(16, 'x'); for (int i = 0; i < 16; ++i) d[i] = (u8)('a' + i); Buffer b(d, 16); b.removeFront(3); Buffer& al = b; b = al;
    if (b.size() != 13 || memcmp((const byte*)b, d + 3, 13)) fail(k, "content changed by self-assignment"); free(d); return 0; }
  harnessBug("unknown probe %s", k);
}

int main(int argc, char** argv) {
  init(argc, argv, "h_buffer");
  if (opts.probe) { int rc = probe(opts.probe); finish(); return rc; }
  const char* mode = opts.mode;
  for (long idx = opts.start; idx < opts.start + opts.cases; ++idx) {
    if (!mine(idx)) continue;
    beginCase(idx);
    if (!strcmp(mode, "hist")) historyCase(idx);
    else if (!strcmp(mode, "backlog")) backlogCase(idx);
    else harnessBug("unknown mode %s", mode);
  }
  cnt("bytes_compared", g_bytesCompared); cnt("terminator_reads", g_termReads); cnt("guard_bytes_compared", g_guardBytes); cnt("non_owning_structure_checks", g_structChecks);
  if (g_viewPlaceChecks) cnt("view_placement_checks", g_viewPlaceChecks);
  if (g_estAgree || g_estDiffer) { cnt("public_picture_agrees_with_private_fields", g_estAgree); cnt("public_picture_differs_from_private_fields", g_estDiffer); }
  leakCheck("Buffer/leak");
  finish();
  return 0;
}
