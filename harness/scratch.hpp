// scratch.hpp - file-system scratch space /verif/.work/<pid>/ with guaranteed removal (used by h_fs.cpp and h_process.cpp).
// supervise() forks: the child runs the harness proper (and may die in any way: oracle failure, sanitizer abort, signal),
// the parent only waits, removes the scratch directory and re-delivers the child's exit status / signal to the driver.
#pragma once
#include <stdio.h>
#include <stdlib.h>
#include <string.h>
#include <errno.h>
#include <unistd.h>
#include <signal.h>
#include <dirent.h>
#include <sys/stat.h>
#include <sys/types.h>
#include <sys/wait.h>
#include <sys/syscall.h>

namespace scratch {

static const char* const BASE = "/verif/.work";
static char root[128];

// remove a path recursively, never following symbolic links; refuses anything outside BASE
static void rmrf(const char* path) {
  if (strncmp(path, "/verif/.work/", 13) != 0 || strstr(path, "/../") ) return;
  struct stat st;
  if (lstat(path, &st) != 0) return;
  if (S_ISDIR(st.st_mode)) {
    chmod(path, 0700);
    DIR* d = opendir(path);
    if (d) {
      struct dirent* e;
      while ((e = readdir(d))) {
        if (!strcmp(e->d_name, ".") || !strcmp(e->d_name, "..")) continue;
        size_t n = strlen(path) + strlen(e->d_name) + 2; char* sub = (char*)malloc(n);
        snprintf(sub, n, "%s/%s", path, e->d_name); rmrf(sub); free(sub);
      }
      closedir(d);
    }
    syscall(SYS_rmdir, path);
  } else syscall(SYS_unlink, path);
}

// remove scratch directories of processes that no longer exist (a previous run killed by the watchdog)
static void gcStale() {
  DIR* d = opendir(BASE); if (!d) return;
  struct dirent* e;
  while ((e = readdir(d))) {
    char* end = 0; long pid = strtol(e->d_name, &end, 10);
    if (pid <= 1 || !end || *end) continue;
    if (kill((pid_t)pid, 0) != 0 && errno == ESRCH) { char p[160]; snprintf(p, sizeof p, "%s/%s", BASE, e->d_name); rmrf(p); }
  }
  closedir(d);
}

static int supervise(int (*worker)(int, char**), int argc, char** argv) {
  mkdir(BASE, 0777);
  gcStale();
  snprintf(root, sizeof root, "%s/%d", BASE, (int)getpid());
  rmrf(root);
  if (mkdir(root, 0700) != 0) { printf("@HARNESSBUG cannot create scratch directory %s: %s\n", root, strerror(errno)); return 2; }
  fflush(stdout); fflush(stderr);
  pid_t c = fork();
  if (c < 0) { printf("@HARNESSBUG fork failed\n"); rmrf(root); return 2; }
  if (c == 0) return worker(argc, argv);
  int status = 0;
  while (waitpid(c, &status, 0) < 0 && errno == EINTR) {}
  rmrf(root);
  syscall(SYS_rmdir, BASE);   // succeeds only when no other harness is using it
  if (WIFSIGNALED(status)) { signal(WTERMSIG(status), SIG_DFL); raise(WTERMSIG(status)); _exit(128 + WTERMSIG(status)); }
  _exit(WEXITSTATUS(status));
}

}
