// h_once.cpp - C04: containers construct/destroy every element exactly once, copies are deep, self-arguments behave as if copied first.
// One mode per container type (array, list, map, multimap, hashmap, hashset, poollist, poolmap). Every case is a random (swarm weighted)
// history on two containers of that type holding vh::Elem keys and values, plus short-lived copies. After every operation:
//   * both containers are read completely (forward and backward) through the public API and compared with a dumb reference model,
//     every element read goes through the Elem registry (must be live, must own its heap block),
//   * the number of live tracked elements in the process must equal  sum over containers (sentinel elements + elements per entry * size),
//     so a skipped destructor, a leaked slot or a stray extra element is reported at the operation that caused it; "sentinel elements" = the
//     number of tracked elements an empty container holds by itself (an embedded end node with a default constructed key/value, or none): the API
//     does not promise it, so it is measured on a default constructed container at the start of every case, not assumed,
//   * the Elem registry itself fails on construct-over-live / destroy-not-live / use-not-live, ASan/LSan on the heap blocks.
// Self-argument operations are compared with "copy the argument first, then call" applied to the model.
#include "vh.hpp"
#include <nstd/Array.hpp>
#include <nstd/List.hpp>
#include <nstd/Map.hpp>
#include <nstd/MultiMap.hpp>
#include <nstd/HashMap.hpp>
#include <nstd/HashSet.hpp>
#include <nstd/PoolList.hpp>
#include <nstd/PoolMap.hpp>
#include <sys/time.h>

using namespace vh;

// ------------------------------------------------------------------------------------------------ keys of the defects this check is known to reach
#define K_ARR_ASSIGN_SELF   "Array.operator=/arg=self/content"
#define K_LIST_ASSIGN_SELF  "List.operator=/arg=self/content"
#define K_MAP_ASSIGN_SELF   "Map.operator=/arg=self/content"
#define K_MMAP_ASSIGN_SELF  "MultiMap.operator=/arg=self/content"
#define K_HMAP_ASSIGN_SELF  "HashMap.operator=/arg=self/content"
#define K_HSET_ASSIGN_SELF  "HashSet.operator=/arg=self/content"
#define K_ARR_APPEND_SELF   "Array.append/arg=self-elem/asan:heap-use-after-free"
#define K_ARR_RESIZE_SELF   "Array.resize/arg=self-elem/asan:heap-use-after-free"
#define K_LIST_APPEND_SELF  "List.append/arg=self/nonterminating"
#define K_LIST_PREPEND_SELF "List.prepend/arg=self/content"
#define K_LIST_INSERT_SELF  "List.insert/arg=self,pos=middle/nonterminating"

// value type of PoolMap: key and value types must differ (remove(const V&) / remove(const T&) are overloads); default constructed in place, never copied
struct PVal {
  Elem e;
  PVal() : e(0) {}
  PVal(const PVal&) = delete;
  PVal& operator=(const PVal&) = delete;
};

struct Ent { long k, v; };
typedef Vec<Ent> Model;
static Ent mk(long k, long v) { Ent e; e.k = k; e.v = v; return e; }

static char g_keybuf[300];
static const char* keyOf(const char* what) { snprintf(g_keybuf, sizeof g_keybuf, "%s/%s", (const char*)ctx, what); return g_keybuf; }

static long g_observed = 0;
// read an element through the registry: it must be live (constructed, not destroyed) and own its heap block
static long rd(const Elem& e) {
  long id = e.id;
  ElemReg::onUse(&e, id, "observe");
  if (!e.blk || *e.blk != 0x5a5a) fail(keyOf("payload"), "element id %ld at %p does not own an intact heap block", id, (const void*)&e);
  ++g_observed;
  return id;
}

// ------------------------------------------------------------------------------------------------ resource guard
// SIGPROF every 10 ms of CPU time: more than g_liveCap live tracked elements = runaway growth (about 64 MiB) -> bounded, classified failure
static const long g_liveCap = 200000;
static void capHandler(int) {
  if (ElemReg::liveCount() > g_liveCap) { char k[300]; snprintf(k, sizeof k, "%s/nonterminating", (const char*)ctx); fail(k, "more than %ld live elements during one call (runaway growth, allocation cap reached)", g_liveCap); }
}
static void armCap() { signal(SIGPROF, capHandler); struct itimerval it; it.it_interval.tv_sec = 0; it.it_interval.tv_usec = 10000; it.it_value = it.it_interval; setitimer(ITIMER_PROF, &it, 0); }

// ------------------------------------------------------------------------------------------------ model helpers
static size_t lowerBound(const Model& m, long k) { size_t i = 0; while (i < m.n && m[i].k < k) ++i; return i; }
static size_t upperBound(const Model& m, long k) { size_t i = 0; while (i < m.n && m[i].k <= k) ++i; return i; }
static size_t findKey(const Model& m, long k) { for (size_t i = 0; i < m.n; ++i) if (m[i].k == k) return i; return m.n; }
static void mapPut(Model& m, long k, long v) { size_t lo = lowerBound(m, k); if (lo < m.n && m[lo].k == k) m[lo].v = v; else m.insert(lo, mk(k, v)); }
static void multiPut(Model& m, long k, long v) { m.insert(upperBound(m, k), mk(k, v)); }
// insertion-ordered unique keys: existing key keeps its position; overwrite says whether the value is replaced
static void hashPut(Model& m, size_t pos, long k, long v, bool overwrite) { size_t f = findKey(m, k); if (f < m.n) { if (overwrite) m[f].v = v; } else m.insert(pos, mk(k, v)); }
static void sortLongs(Vec<long>& a) { for (size_t i = 1; i < a.n; ++i) { long x = a[i]; size_t j = i; while (j && a[j - 1] > x) { a[j] = a[j - 1]; --j; } a[j] = x; } }

// ------------------------------------------------------------------------------------------------ traits
enum Order { SEQ, SORTED, MULTI, HASHED };
struct TArray { typedef Array<Elem> C; enum { PER = 1, ORDER = SEQ, KEYED = 0, FB = 1 }; static const char* name() { return "Array"; }
  static Ent get(const C::Iterator& it) { return mk(rd(*it), 0); } static long front(C& c) { return rd(c.front()); } static long back(C& c) { return rd(c.back()); }
  static C* create(Rng& r) { return r.chance(1, 3) ? new C((usize)r.range(0, 9)) : new C; }
  static void add(C& c, Model& m, long k, long v) { (void)k; c.append(Elem(v)); m.push(mk(v, 0)); }
  static void dropFront(C& c, Model& m) { c.removeFront(); m.removeAt(0); } };
struct TList { typedef List<Elem> C; enum { PER = 1, ORDER = SEQ, KEYED = 0, FB = 1 }; static const char* name() { return "List"; }
  static Ent get(const C::Iterator& it) { return mk(rd(*it), 0); } static long front(C& c) { return rd(c.front()); } static long back(C& c) { return rd(c.back()); }
  static C* create(Rng&) { return new C; }
  static void add(C& c, Model& m, long k, long v) { (void)k; c.append(Elem(v)); m.push(mk(v, 0)); }
  static void dropFront(C& c, Model& m) { c.removeFront(); m.removeAt(0); } };
struct TMap { typedef Map<Elem, Elem> C; enum { PER = 2, ORDER = SORTED, KEYED = 1, FB = 1 }; static const char* name() { return "Map"; }
  static Ent get(const C::Iterator& it) { return mk(rd(it.key()), rd(*it)); } static long front(C& c) { return rd(c.front()); } static long back(C& c) { return rd(c.back()); }
  static C* create(Rng&) { return new C; }
  static void add(C& c, Model& m, long k, long v) { c.insert(Elem(k), Elem(v)); mapPut(m, k, v); }
  static void dropFront(C& c, Model& m) { c.removeFront(); m.removeAt(0); } };
struct TMultiMap { typedef MultiMap<Elem, Elem> C; enum { PER = 2, ORDER = MULTI, KEYED = 1, FB = 1 }; static const char* name() { return "MultiMap"; }
  static Ent get(const C::Iterator& it) { return mk(rd(it.key()), rd(*it)); } static long front(C& c) { return rd(c.front()); } static long back(C& c) { return rd(c.back()); }
  static C* create(Rng&) { return new C; }
  static void add(C& c, Model& m, long k, long v) { c.insert(Elem(k), Elem(v)); multiPut(m, k, v); }
  static void dropFront(C& c, Model& m) { c.removeFront(); m.removeAt(0); } };
struct THashMap { typedef HashMap<Elem, Elem> C; enum { PER = 2, ORDER = HASHED, KEYED = 1, FB = 1 }; static const char* name() { return "HashMap"; }
  static Ent get(const C::Iterator& it) { return mk(rd(it.key()), rd(*it)); } static long front(C& c) { return rd(c.front()); } static long back(C& c) { return rd(c.back()); }
  static C* create(Rng& r) { return r.chance(1, 4) ? new C : new C((usize)r.range(0, 5)); }
  static void add(C& c, Model& m, long k, long v) { c.append(Elem(k), Elem(v)); hashPut(m, m.n, k, v, true); }
  static void dropFront(C& c, Model& m) { c.removeFront(); m.removeAt(0); } };
struct THashSet { typedef HashSet<Elem> C; enum { PER = 1, ORDER = HASHED, KEYED = 0, FB = 1 }; static const char* name() { return "HashSet"; }
  static Ent get(const C::Iterator& it) { return mk(rd(*it), 0); } static long front(C& c) { return rd(c.front()); } static long back(C& c) { return rd(c.back()); }
  static C* create(Rng& r) { return r.chance(1, 4) ? new C : new C((usize)r.range(0, 5)); }
  static void add(C& c, Model& m, long k, long v) { (void)v; c.append(Elem(k)); hashPut(m, m.n, k, 0, false); }
  static void dropFront(C& c, Model& m) { c.removeFront(); m.removeAt(0); } };
struct TPoolList { typedef PoolList<Elem> C; enum { PER = 1, ORDER = SEQ, KEYED = 0, FB = 0 }; static const char* name() { return "PoolList"; }
  static Ent get(const C::Iterator& it) { return mk(rd(*it), 0); } static long front(C&) { return 0; } static long back(C&) { return 0; }   // front()/back() cannot be instantiated
  static C* create(Rng&) { return new C; }
  static void add(C& c, Model& m, long k, long v) { (void)k; c.append(v); m.push(mk(v, 0)); }
  static void dropFront(C& c, Model& m) { c.removeFront(); m.removeAt(0); } };
struct TPoolMap { typedef PoolMap<Elem, PVal> C; enum { PER = 2, ORDER = HASHED, KEYED = 1, FB = 1 }; static const char* name() { return "PoolMap"; }
  static Ent get(const C::Iterator& it) { return mk(rd(it.key()), rd((*it).e)); } static long front(C& c) { return rd(c.front().e); } static long back(C& c) { return rd(c.back().e); }
  static C* create(Rng& r) { return r.chance(1, 4) ? new C : new C((usize)r.range(0, 5)); }
  static void add(C& c, Model& m, long k, long v) { bool had = findKey(m, k) < m.n; PVal& pv = c.append(Elem(k)); if (!had) pv.e.id = v; hashPut(m, m.n, k, v, false); }
  static void dropFront(C& c, Model& m) { c.removeFront(); m.removeAt(0); } };

template <class C> static typename C::Iterator iterAt(const C& c, size_t idx) { typename C::Iterator it = c.begin(); while (idx--) ++it; return it; }
template <class C> static size_t indexOf(const C& c, const typename C::Iterator& x) { size_t i = 0; for (typename C::Iterator it = c.begin(), e = c.end(); it != e; ++it, ++i) if (it == x) return i; return i; }

// ------------------------------------------------------------------------------------------------ comparison of one container with its model
template <class Tr> static void verify(typename Tr::C& c, Model& m, const char* which) {
  typedef typename Tr::C C; typedef typename C::Iterator It;
  if ((size_t)c.size() != m.n) fail(keyOf("content"), "%s: size() = %lu, model holds %lu entries", which, (unsigned long)c.size(), (unsigned long)m.n);
  if (c.isEmpty() != (m.n == 0)) fail(keyOf("content"), "%s: isEmpty() = %d, model holds %lu entries", which, (int)c.isEmpty(), (unsigned long)m.n);
  Model act; size_t i = 0;
  for (It it = c.begin(), e = c.end(); it != e; ++it) { if (++i > m.n) fail(keyOf("content"), "%s: forward iteration yields more than the %lu entries of the model", which, (unsigned long)m.n); act.push(Tr::get(it)); }
  if (act.n != m.n) fail(keyOf("content"), "%s: forward iteration yields %lu entries, model %lu", which, (unsigned long)act.n, (unsigned long)m.n);
  if ((int)Tr::ORDER != (int)MULTI) {
    for (size_t j = 0; j < m.n; ++j) if (act[j].k != m[j].k || act[j].v != m[j].v) fail(keyOf("content"), "%s: position %lu holds (%ld,%ld), model (%ld,%ld)", which, (unsigned long)j, act[j].k, act[j].v, m[j].k, m[j].v);
  } else {
    // equal keys may be stored in any relative order: keys must agree position by position, values as a multiset within each run of equal keys
    for (size_t j = 0; j < m.n; ++j) if (act[j].k != m[j].k) fail(keyOf("content"), "%s: position %lu holds key %ld, model key %ld", which, (unsigned long)j, act[j].k, m[j].k);
    for (size_t lo = 0; lo < m.n;) { size_t hi = lo; while (hi < m.n && m[hi].k == m[lo].k) ++hi;
      Vec<long> x, y; for (size_t j = lo; j < hi; ++j) { x.push(act[j].v); y.push(m[j].v); } sortLongs(x); sortLongs(y);
      for (size_t j = 0; j < x.n; ++j) if (x[j] != y[j]) fail(keyOf("content"), "%s: the values stored under key %ld differ from the model (value %ld vs %ld)", which, m[lo].k, x[j], y[j]);
      lo = hi; }
    m = act;
  }
  if (m.n) {
    It it = c.end();
    for (size_t j = m.n; j-- > 0;) { --it; Ent e = Tr::get(it); if (e.k != act[j].k || e.v != act[j].v) fail(keyOf("content"), "%s: backward iteration at position %lu holds (%ld,%ld), forward iteration saw (%ld,%ld)", which, (unsigned long)j, e.k, e.v, act[j].k, act[j].v); }
    if (it != c.begin()) fail(keyOf("content"), "%s: backward iteration does not arrive at begin()", which);
    if (Tr::FB) { long f = Tr::front(c), b = Tr::back(c); long ef = Tr::KEYED ? act[0].v : act[0].k, eb = Tr::KEYED ? act[m.n - 1].v : act[m.n - 1].k;
      if (f != ef || b != eb) fail(keyOf("content"), "%s: front()/back() = %ld/%ld, iteration says %ld/%ld", which, f, b, ef, eb); }
  }
  cnt("entries_compared", (long)m.n);
}

// ------------------------------------------------------------------------------------------------ world: two containers of one type + models
static const int NK = 24;
template <class Tr> struct World {
  typedef typename Tr::C C; typedef typename C::Iterator It;
  C* c[2]; Model m[2]; Rng& r; long nextId; int universe; long extra;   // extra: tracked elements held by short-lived copies right now
  long sent;                                                            // tracked elements an empty container of this type holds by itself (measured, see histories)
  int w[NK]; int wtot; bool removed, copied, selfArg; size_t maxn; u64 fp; long ops;
  World(Rng& rr) : r(rr), nextId(1000), extra(0), sent(0), removed(false), copied(false), selfArg(false), maxn(0), fp(0), ops(0) { c[0] = c[1] = 0; }
  long key() { return (long)r.below((u64)universe); }
  long fresh() { return nextId++; }
  int pick() { int p = (int)r.below((u64)wtot), k = 0; while (p >= w[k]) p -= w[k++]; return k; }
  void op(const char* cx, const char* fmt, ...) __attribute__((format(printf, 3, 4))) {
    setctx(cx); char tmp[400]; va_list ap; va_start(ap, fmt); vsnprintf(tmp, sizeof tmp, fmt, ap); va_end(ap); hist.add(tmp); hist.add("\n");
    setItem("op_classes", cx); ++ops; for (const char* p = tmp; *p; ++p) fp = mix(fp, (u64)(unsigned char)*p);
  }
  void checkLive() {
    long want = extra + 2 * sent + Tr::PER * (long)(m[0].n + m[1].n), have = ElemReg::liveCount();
    if (have != want) fail(keyOf("live-count"), "%ld tracked elements are live, the containers account for %ld (%s: %lu and %lu entries, %d elements per entry, %d per sentinel, %ld in temporaries)",
                           have, want, Tr::name(), (unsigned long)m[0].n, (unsigned long)m[1].n, (int)Tr::PER, (int)sent, extra);
    cnt("live_count_checks");
  }
  void check() { verify<Tr>(*c[0], m[0], "c0"); verify<Tr>(*c[1], m[1], "c1"); checkLive(); if (m[0].n > maxn) maxn = m[0].n; if (m[1].n > maxn) maxn = m[1].n; }
};

// the operations every copyable container type has in common
template <class Tr> static void opCopyConstruct(World<Tr>& w, int i, const char* cx) {
  typedef typename Tr::C C;
  w.op(cx, "{ copy(c%d)", i); w.copied = true;
  { C cp(*w.c[i]); Model mm(w.m[i]); w.extra = w.sent + Tr::PER * (long)mm.n;
    verify<Tr>(cp, mm, "copy"); w.checkLive();
    if (mm.n) { typename C::Iterator a = cp.begin(), b = w.c[i]->begin(); if ((const void*)&*a == (const void*)&*b) fail(keyOf("shallow"), "the copy's first element lives at the source's address"); }
    // independence: change the copy, the source must not notice; then change the source, the copy must not notice
    hist.add("  copy: drop front, add one\n");
    if (mm.n) Tr::dropFront(cp, mm);
    Tr::add(cp, mm, w.key(), w.fresh()); w.extra = w.sent + Tr::PER * (long)mm.n;
    verify<Tr>(cp, mm, "copy"); verify<Tr>(*w.c[i], w.m[i], "source-of-copy"); w.checkLive();
    hist.add("  source: add one\n");
    Tr::add(*w.c[i], w.m[i], w.key(), w.fresh());
    verify<Tr>(cp, mm, "copy"); verify<Tr>(*w.c[i], w.m[i], "source-of-copy"); w.checkLive();
    hist.add("}\n"); }
  w.extra = 0;
}
// replace a container by a copy of itself and destroy the original: the copy must survive its source
template <class Tr> static void opReplaceByCopy(World<Tr>& w, int i, const char* cx) {
  typedef typename Tr::C C;
  w.op(cx, "c%d := new copy(c%d); delete old", i, i); w.copied = true;
  C* cp = new C(*w.c[i]); delete w.c[i]; w.c[i] = cp;
}
template <class Tr> static void opAssign(World<Tr>& w, int i, int j, const char* cxOther, const char* cxSelf, const char* selfKey) {
  if (i == j) { if (excluded(selfKey)) return; w.op(cxSelf, "c%d = c%d", i, i); w.selfArg = true; cpuBudget(5, keyOf("nonterminating")); *w.c[i] = *w.c[i]; cpuBudget(0, 0); }
  else { w.op(cxOther, "c%d = c%d", i, j); *w.c[i] = *w.c[j]; w.m[i] = w.m[j]; }
  w.copied = true;
}
template <class Tr> static void opRecreate(World<Tr>& w, int i, const char* cx) {
  w.op(cx, "delete c%d; c%d = new", i, i); if (w.m[i].n) w.removed = true; delete w.c[i]; w.c[i] = Tr::create(w.r); w.m[i].clear();
}

// ------------------------------------------------------------------------------------------------ Array
static Elem* dataOf(Array<Elem>& a) { return (Elem*)a; }
static void stepArray(World<TArray>& w) {
  Rng& r = w.r; int i = (int)r.below(2), o = 1 - i; Array<Elem>& a = *w.c[i]; Model& m = w.m[i]; size_t n = m.n;
  switch (w.pick()) {
  case 0: { long id = w.fresh(); w.op("Array.append/arg=temp", "c%d.append(%ld)", i, id);
      Elem& ret = a.append(Elem(id)); if (&ret != dataOf(a) + n || rd(ret) != id) fail(keyOf("returned"), "append did not return the new last element"); m.push(mk(id, 0)); break; }
  case 1: { if (!n) break; size_t idx = r.below(n); bool boundary = r.chance(1, 2);
      if (boundary) { w.op("Array.append/fill-to-capacity", "c%d: fill to capacity", i); if (!dataOf(a)) a.reserve(1); while (a.size() < a.capacity()) { long id = w.fresh(); a.append(Elem(id)); m.push(mk(id, 0)); } }
      bool growth = !dataOf(a) || a.size() >= a.capacity();
      if (growth && excluded(K_ARR_APPEND_SELF)) break;
      w.op("Array.append/arg=self-elem", "c%d.append(c%d[%lu])%s", i, i, (unsigned long)idx, growth ? " at growth boundary" : ""); w.selfArg = true; if (growth) cnt("self_elem_at_growth");
      long id = m[idx].k; size_t before = m.n; Elem& ret = a.append(dataOf(a)[idx]); if (&ret != dataOf(a) + before) fail(keyOf("returned"), "append did not return the new last element"); m.push(mk(id, 0)); break; }
  case 2: { int j = r.chance(1, 3) ? i : o; if (n + w.m[j].n > 300) break; if (j == i) { w.op("Array.append(Array)/arg=self", "c%d.append(c%d)", i, i); w.selfArg = true; } else w.op("Array.append(Array)/arg=other", "c%d.append(c%d)", i, j);
      Model src(w.m[j]); cpuBudget(5, keyOf("nonterminating")); a.append(*w.c[j]); cpuBudget(0, 0); for (size_t k = 0; k < src.n; ++k) m.push(src[k]); break; }
  case 3: { size_t k = r.below(6); w.op("Array.append(ptr,n)/arg=external", "c%d.append(buf,%lu)", i, (unsigned long)k);
      Elem* buf = (Elem*)malloc(k * sizeof(Elem) + 1); for (size_t x = 0; x < k; ++x) { long id = w.fresh(); new ((void*)&buf[x]) Elem(id); m.push(mk(id, 0)); }
      a.append(buf, (usize)k); for (size_t x = 0; x < k; ++x) buf[x].~Elem(); free(buf); break; }
  case 4: { size_t want = n < 150 && r.chance(1, 3) ? (size_t)a.capacity() + 1 : r.below(n + 7); long id = w.fresh(); w.op("Array.resize/arg=temp", "c%d.resize(%lu,%ld)", i, (unsigned long)want, id);
      a.resize((usize)want, Elem(id)); if (want < n) w.removed = true; while (m.n > want) m.pop(); while (m.n < want) m.push(mk(id, 0)); break; }
  case 5: { if (!n) break; size_t idx = r.below(n); size_t want = n < 150 && r.chance(1, 2) ? (size_t)a.capacity() + 1 : r.below(n + 7); bool growth = want > (size_t)a.capacity() || !dataOf(a);
      if (growth && want > n && excluded(K_ARR_RESIZE_SELF)) break;
      w.op("Array.resize/arg=self-elem", "c%d.resize(%lu,c%d[%lu])%s", i, (unsigned long)want, i, (unsigned long)idx, growth ? " with reallocation" : ""); w.selfArg = true; if (growth && want > n) cnt("self_elem_at_growth");
      long id = m[idx].k; a.resize((usize)want, dataOf(a)[idx]); if (want < n) w.removed = true; while (m.n > want) m.pop(); while (m.n < want) m.push(mk(id, 0)); break; }
  case 6: { size_t want = r.below(n + 5); w.op("Array.resize/arg=default", "c%d.resize(%lu)", i, (unsigned long)want); a.resize((usize)want); if (want < n) w.removed = true; while (m.n > want) m.pop(); while (m.n < want) m.push(mk(0, 0)); break; }
  case 7: { size_t want = r.below(n + 12); w.op("Array.reserve", "c%d.reserve(%lu)", i, (unsigned long)want); a.reserve((usize)want); if (a.capacity() < want) fail(keyOf("capacity"), "capacity %lu after reserve(%lu)", (unsigned long)a.capacity(), (unsigned long)want); break; }
  case 8: { size_t idx = r.below(n + 2); w.op(idx < n ? "Array.remove(index)" : "Array.remove(index)/out-of-range", "c%d.remove(%lu)", i, (unsigned long)idx); a.remove((usize)idx); if (idx < n) { m.removeAt(idx); w.removed = true; } break; }
  case 9: { if (!n) break; size_t idx = r.below(n); w.op("Array.remove(iterator)", "c%d.remove(it@%lu)", i, (unsigned long)idx);
      Array<Elem>::Iterator it = a.remove(iterAt(a, idx)); m.removeAt(idx); w.removed = true; if (indexOf(a, it) != idx) fail(keyOf("returned"), "remove(iterator) did not return the position of the successor"); break; }
  case 10: { if (!n) break; if (r.chance(1, 2)) { w.op("Array.removeFront", "c%d.removeFront()", i); a.removeFront(); m.removeAt(0); } else { w.op("Array.removeBack", "c%d.removeBack()", i); a.removeBack(); m.pop(); } w.removed = true; break; }
  case 11: { w.op("Array.clear", "c%d.clear()", i); a.clear(); if (n) w.removed = true; m.clear(); break; }
  case 12: { if (r.chance(1, 4)) { w.op("Array.swap/arg=self", "c%d.swap(c%d)", i, i); w.selfArg = true; a.swap(a); } else { w.op("Array.swap/arg=other", "c%d.swap(c%d)", i, o); a.swap(*w.c[o]); w.m[i].swap(w.m[o]); } break; }
  case 13: opCopyConstruct(w, i, "Array.copy-construct"); break;
  case 14: opAssign(w, i, r.chance(1, 3) ? i : o, "Array.operator=/arg=other", "Array.operator=/arg=self", K_ARR_ASSIGN_SELF); break;
  case 15: opReplaceByCopy(w, i, "Array.copy-construct/source-destroyed"); break;
  case 16: opRecreate(w, i, "Array.destructor"); break;
  case 17: { if (n && r.chance(1, 2)) { size_t idx = r.below(n); w.op("Array.find/arg=self-elem", "c%d.find(c%d[%lu])", i, i, (unsigned long)idx); w.selfArg = true; Array<Elem>::Iterator it = a.find(dataOf(a)[idx]); size_t first = 0; while (m[first].k != m[idx].k) ++first; if (indexOf(a, it) != first) fail(keyOf("returned"), "find(own element) returned position %lu, first equal element is at %lu", (unsigned long)indexOf(a, it), (unsigned long)first); }
      else { long id = n && r.chance(1, 2) ? m[r.below(n)].k : -5; w.op("Array.find/arg=temp", "c%d.find(%ld)", i, id); Array<Elem>::Iterator it = a.find(Elem(id)); size_t first = 0; while (first < n && m[first].k != id) ++first; if (indexOf(a, it) != first) fail(keyOf("returned"), "find(%ld) returned position %lu, expected %lu", id, (unsigned long)indexOf(a, it), (unsigned long)first); }
      break; }
  default: break;
  }
}

// ------------------------------------------------------------------------------------------------ List
static void stepList(World<TList>& w) {
  typedef List<Elem> L; Rng& r = w.r; int i = (int)r.below(2), o = 1 - i; L& a = *w.c[i]; Model& m = w.m[i]; size_t n = m.n;
  switch (w.pick()) {
  case 0: { long id = w.fresh(); int where = (int)r.below(3); size_t pos = where == 0 ? n : where == 1 ? 0 : r.below(n + 1);
      w.op(where == 0 ? "List.append/arg=temp" : where == 1 ? "List.prepend/arg=temp" : "List.insert/arg=temp", "c%d.insert(@%lu,%ld)", i, (unsigned long)pos, id);
      if (where == 0) { Elem& ret = a.append(Elem(id)); if (rd(ret) != id || &ret != &a.back()) fail(keyOf("returned"), "append did not return the new last element"); }
      else if (where == 1) { Elem& ret = a.prepend(Elem(id)); if (rd(ret) != id || &ret != &a.front()) fail(keyOf("returned"), "prepend did not return the new first element"); }
      else { L::Iterator it = a.insert(iterAt(a, pos), Elem(id)); if (indexOf(a, it) != pos) fail(keyOf("returned"), "insert returned position %lu, expected %lu", (unsigned long)indexOf(a, it), (unsigned long)pos); }
      m.insert(pos, mk(id, 0)); break; }
  case 1: { if (!n) break; size_t idx = r.below(n); int where = (int)r.below(3); size_t pos = where == 0 ? n : where == 1 ? 0 : r.below(n + 1); long id = m[idx].k;
      w.op(where == 0 ? "List.append/arg=self-elem" : where == 1 ? "List.prepend/arg=self-elem" : "List.insert/arg=self-elem", "c%d.insert(@%lu,c%d[%lu])", i, (unsigned long)pos, i, (unsigned long)idx); w.selfArg = true;
      L::Iterator src = iterAt(a, idx);
      if (where == 0) a.append(*src); else if (where == 1) a.prepend(*src); else a.insert(iterAt(a, pos), *src);
      m.insert(pos, mk(id, 0)); break; }
  case 2: { bool self = r.chance(1, 3); int j = self ? i : o; int where = (int)r.below(3); size_t pos = where == 0 ? n : where == 1 ? 0 : r.below(n + 1);
      const char* cx; if (n + w.m[j].n > 300) break;
      if (!self) cx = where == 0 ? "List.append(List)/arg=other" : where == 1 ? "List.prepend(List)/arg=other" : "List.insert(List)/arg=other";
      else {
        if (where == 2 && (pos == 0 || pos == n)) where = pos == 0 ? 1 : 0;
        if (n && excluded(where == 0 ? K_LIST_APPEND_SELF : where == 1 ? K_LIST_PREPEND_SELF : K_LIST_INSERT_SELF)) break;
        cx = where == 0 ? "List.append/arg=self" : where == 1 ? "List.prepend/arg=self" : "List.insert/arg=self,pos=middle"; w.selfArg = true; }
      w.op(cx, "c%d.insert(@%lu, c%d)", i, (unsigned long)pos, j);
      Model src(w.m[j]); cpuBudget(5, keyOf("nonterminating"));
      if (where == 0) a.append(*w.c[j]); else if (where == 1) a.prepend(*w.c[j]);
      else { L::Iterator it = a.insert(iterAt(a, pos), *w.c[j]); cpuBudget(0, 0); if (indexOf(a, it) != pos) fail(keyOf("returned"), "insert(List) returned position %lu, expected %lu (first inserted element, or the position itself for an empty argument)", (unsigned long)indexOf(a, it), (unsigned long)pos); }
      cpuBudget(0, 0);
      for (size_t k = 0; k < src.n; ++k) m.insert(pos + k, src[k]); break; }
  case 3: { if (!n) break; size_t idx = r.below(n); w.op("List.remove(iterator)", "c%d.remove(it@%lu)", i, (unsigned long)idx); L::Iterator it = a.remove(iterAt(a, idx)); m.removeAt(idx); w.removed = true;
      if (indexOf(a, it) != idx) fail(keyOf("returned"), "remove(iterator) did not return the successor"); break; }
  case 4: { if (n && r.chance(1, 2)) { size_t idx = r.below(n); w.op("List.remove(value)/arg=self-elem", "c%d.remove(c%d[%lu])", i, i, (unsigned long)idx); w.selfArg = true; size_t first = 0; while (m[first].k != m[idx].k) ++first; a.remove(*iterAt(a, idx)); m.removeAt(first); w.removed = true; }
      else { long id = n && r.chance(2, 3) ? m[r.below(n)].k : -5; w.op("List.remove(value)/arg=temp", "c%d.remove(%ld)", i, id); a.remove(Elem(id)); size_t first = 0; while (first < n && m[first].k != id) ++first; if (first < n) { m.removeAt(first); w.removed = true; } }
      break; }
  case 5: { if (!n) break; if (r.chance(1, 2)) { w.op("List.removeFront", "c%d.removeFront()", i); a.removeFront(); m.removeAt(0); } else { w.op("List.removeBack", "c%d.removeBack()", i); a.removeBack(); m.pop(); } w.removed = true; break; }
  case 6: { w.op("List.clear", "c%d.clear()", i); a.clear(); if (n) w.removed = true; m.clear(); break; }
  case 7: { if (r.chance(1, 4)) { w.op("List.swap/arg=self", "c%d.swap(c%d)", i, i); w.selfArg = true; a.swap(a); } else { w.op("List.swap/arg=other", "c%d.swap(c%d)", i, o); a.swap(*w.c[o]); w.m[i].swap(w.m[o]); } break; }
  case 8: opCopyConstruct(w, i, "List.copy-construct"); break;
  case 9: opAssign(w, i, r.chance(1, 3) ? i : o, "List.operator=/arg=other", "List.operator=/arg=self", K_LIST_ASSIGN_SELF); break;
  case 10: opReplaceByCopy(w, i, "List.copy-construct/source-destroyed"); break;
  case 11: opRecreate(w, i, "List.destructor"); break;
  case 12: { long id = n && r.chance(2, 3) ? m[r.below(n)].k : -5; w.op("List.find", "c%d.find(%ld)", i, id); L::Iterator it = a.find(Elem(id)); size_t first = 0; while (first < n && m[first].k != id) ++first;
      if (indexOf(a, it) != first) fail(keyOf("returned"), "find(%ld) returned position %lu, expected %lu", id, (unsigned long)indexOf(a, it), (unsigned long)first); break; }
  case 13: { bool self = r.chance(1, 3); int j = self ? i : o; w.op(self ? "List.operator==/arg=self" : "List.operator==/arg=other", "c%d == c%d", i, j); if (self) w.selfArg = true;
      bool eq = w.m[i].n == w.m[j].n; for (size_t k = 0; eq && k < w.m[i].n; ++k) if (w.m[i][k].k != w.m[j][k].k) eq = false;
      if ((a == *w.c[j]) != eq || (a != *w.c[j]) == eq) fail(keyOf("returned"), "operator==/!= disagree with the model (expected equal=%d)", (int)eq); break; }
  case 14: { w.op("List.sort", "c%d.sort()", i); a.sort(); for (size_t x = 1; x < m.n; ++x) { Ent e = m[x]; size_t y = x; while (y && m[y - 1].k > e.k) { m[y] = m[y - 1]; --y; } m[y] = e; } break; }
  default: break;
  }
}

// ------------------------------------------------------------------------------------------------ Map / MultiMap
template <class Tr> static void modelInsert(Model& m, long k, long v) { if ((int)Tr::ORDER == (int)SORTED) mapPut(m, k, v); else multiPut(m, k, v); }
template <class Tr> static void checkInsertResult(typename Tr::C& c, const Model& before, const typename Tr::C::Iterator& res, long k, long v) {
  // the returned iterator must designate an entry with that key and value, inside the run of equal keys
  if (res == c.end()) fail(keyOf("returned"), "insert returned end()");
  if (rd(res.key()) != k || rd(*res) != v) fail(keyOf("returned"), "insert(%ld,%ld) returned an iterator to (%ld,%ld)", k, v, res.key().id, (*res).id);
  size_t at = indexOf(c, res), lo = lowerBound(before, k), hi = upperBound(before, k);
  if (at < lo || at > hi) fail(keyOf("returned"), "insert(%ld) landed at position %lu outside [%lu,%lu]", k, (unsigned long)at, (unsigned long)lo, (unsigned long)hi);
}
static void bulkInsert(World<TMap>& w, int i, int j) {
  bool self = i == j; w.op(self ? "Map.insert(Map)/arg=self" : "Map.insert(Map)/arg=other", "c%d.insert(c%d)", i, j); if (self) w.selfArg = true;
  Model src(w.m[j]); cpuBudget(5, keyOf("nonterminating")); w.c[i]->insert(*w.c[j]); cpuBudget(0, 0); for (size_t k = 0; k < src.n; ++k) mapPut(w.m[i], src[k].k, src[k].v);
}
static void bulkInsert(World<TMultiMap>&, int, int) {}
template <class Tr> static void stepTree(World<Tr>& w, const char* const* N) {
  typedef typename Tr::C C; typedef typename C::Iterator It; Rng& r = w.r; int i = (int)r.below(2), o = 1 - i; C& a = *w.c[i]; Model& m = w.m[i]; size_t n = m.n;
  switch (w.pick()) {
  case 0: case 1: { long k = w.key(), v = w.fresh(); bool hinted = r.chance(1, 3); size_t h = r.below(n + 1); w.op(hinted ? N[1] : N[0], "c%d.insert(%s%ld,%ld)", i, hinted ? "hint, " : "", k, v);
      Model before(m); It res = hinted ? a.insert(iterAt(a, h), Elem(k), Elem(v)) : a.insert(Elem(k), Elem(v)); modelInsert<Tr>(m, k, v); checkInsertResult<Tr>(a, before, res, k, v); break; }
  case 2: { if (!n) break; // key and/or value are references to the container's own elements
      size_t ki = r.below(n), vi = r.below(n); int cls = (int)r.below(3); long k = cls == 1 ? w.key() : m[ki].k, v = cls == 2 ? w.fresh() : m[vi].v; bool hinted = r.chance(1, 3); size_t h = r.below(n + 1);
      w.op(cls == 0 ? N[2] : cls == 1 ? N[3] : N[4], "c%d.insert(%s%s, %s)  = (%ld,%ld)", i, hinted ? "hint, " : "", cls == 1 ? "temp" : "own key", cls == 2 ? "temp" : "own value", k, v); w.selfArg = true;
      It kit = iterAt(a, ki), vit = iterAt(a, vi); Model before(m); It res;
      if (cls == 0) res = hinted ? a.insert(iterAt(a, h), kit.key(), *vit) : a.insert(kit.key(), *vit);
      else if (cls == 1) res = hinted ? a.insert(iterAt(a, h), Elem(k), *vit) : a.insert(Elem(k), *vit);
      else res = hinted ? a.insert(iterAt(a, h), kit.key(), Elem(v)) : a.insert(kit.key(), Elem(v));
      modelInsert<Tr>(m, k, v); checkInsertResult<Tr>(a, before, res, k, v); break; }
  case 3: { if ((int)Tr::ORDER != (int)SORTED) break; bulkInsert(w, i, r.chance(1, 3) ? i : o); break; }
  case 4: { bool own = n && r.chance(1, 3); size_t idx = own ? r.below(n) : 0; long k = own ? m[idx].k : w.key(); w.op(own ? N[6] : N[5], "c%d.remove(key %ld%s)", i, k, own ? " own" : ""); if (own) w.selfArg = true;
      size_t lo = lowerBound(m, k), hi = upperBound(m, k);
      if (own) a.remove(iterAt(a, idx).key()); else a.remove(Elem(k));
      if (lo != hi) { w.removed = true;
        if (hi - lo == 1) m.removeAt(lo);
        else { // one of the equal entries vanished; which one is the container's choice
          if ((size_t)a.size() + 1 != m.n) fail(keyOf("content"), "remove(key) changed the size from %lu to %lu", (unsigned long)m.n, (unsigned long)a.size());
          Vec<long> have; { It it = iterAt(a, lo); for (size_t x = lo; x + 1 < hi; ++x, ++it) have.push(rd(*it)); }
          size_t gone = hi; for (size_t x = lo; x < hi && gone == hi; ++x) { bool found = false; for (size_t y = 0; y < have.n; ++y) if (have[y] == m[x].v) { have[y] = -77; found = true; break; } if (!found) gone = x; }
          if (gone == hi) gone = hi - 1; m.removeAt(gone); } }
      break; }
  case 5: { if (!n) break; size_t idx = r.below(n); w.op(N[7], "c%d.remove(it@%lu)", i, (unsigned long)idx); It res = a.remove(iterAt(a, idx)); m.removeAt(idx); w.removed = true;
      if (indexOf(a, res) != idx) fail(keyOf("returned"), "remove(iterator) did not return the successor"); break; }
  case 6: { if (!n) break; if (r.chance(1, 2)) { w.op(N[8], "c%d.removeFront()", i); a.removeFront(); m.removeAt(0); } else { w.op(N[9], "c%d.removeBack()", i); a.removeBack(); m.pop(); } w.removed = true; break; }
  case 7: { w.op(N[10], "c%d.clear()", i); a.clear(); if (n) w.removed = true; m.clear(); break; }
  case 8: opCopyConstruct(w, i, N[11]); break;
  case 9: opAssign(w, i, r.chance(1, 3) ? i : o, N[12], N[13], N[14]); break;
  case 10: opReplaceByCopy(w, i, N[15]); break;
  case 11: opRecreate(w, i, N[16]); break;
  case 12: { bool own = n && r.chance(1, 3); size_t idx = own ? r.below(n) : 0; long k = own ? m[idx].k : w.key(); w.op(own ? N[18] : N[17], "c%d.find(%ld%s)", i, k, own ? " own" : ""); if (own) w.selfArg = true;
      It it = own ? a.find(iterAt(a, idx).key()) : a.find(Elem(k)); size_t lo = lowerBound(m, k), hi = upperBound(m, k);
      if (lo == hi) { if (it != a.end()) fail(keyOf("returned"), "find(%ld) found an absent key", k); } else { size_t at = indexOf(a, it); if (at < lo || at >= hi) fail(keyOf("returned"), "find(%ld) returned position %lu outside [%lu,%lu)", k, (unsigned long)at, (unsigned long)lo, (unsigned long)hi); }
      if (a.contains(Elem(k)) != (lo != hi)) fail(keyOf("returned"), "contains(%ld) wrong", k); break; }
  default: break;
  }
}
static const char* const N_MAP[] = { "Map.insert/arg=temp", "Map.insert(hint)/arg=temp", "Map.insert/arg=own-key,own-value", "Map.insert/arg=temp-key,own-value", "Map.insert/arg=own-key,temp-value",
  "Map.remove(key)/arg=temp", "Map.remove(key)/arg=own-key", "Map.remove(iterator)", "Map.removeFront", "Map.removeBack", "Map.clear", "Map.copy-construct", "Map.operator=/arg=other", "Map.operator=/arg=self", K_MAP_ASSIGN_SELF,
  "Map.copy-construct/source-destroyed", "Map.destructor", "Map.find/arg=temp", "Map.find/arg=own-key" };
static const char* const N_MMAP[] = { "MultiMap.insert/arg=temp", "MultiMap.insert(hint)/arg=temp", "MultiMap.insert/arg=own-key,own-value", "MultiMap.insert/arg=temp-key,own-value", "MultiMap.insert/arg=own-key,temp-value",
  "MultiMap.remove(key)/arg=temp", "MultiMap.remove(key)/arg=own-key", "MultiMap.remove(iterator)", "MultiMap.removeFront", "MultiMap.removeBack", "MultiMap.clear", "MultiMap.copy-construct", "MultiMap.operator=/arg=other", "MultiMap.operator=/arg=self", K_MMAP_ASSIGN_SELF,
  "MultiMap.copy-construct/source-destroyed", "MultiMap.destructor", "MultiMap.find/arg=temp", "MultiMap.find/arg=own-key" };
static void stepMap(World<TMap>& w) { stepTree<TMap>(w, N_MAP); }
static void stepMultiMap(World<TMultiMap>& w) { stepTree<TMultiMap>(w, N_MMAP); }

// ------------------------------------------------------------------------------------------------ HashMap
static void stepHashMap(World<THashMap>& w) {
  typedef HashMap<Elem, Elem> H; typedef H::Iterator It; Rng& r = w.r; int i = (int)r.below(2), o = 1 - i; H& a = *w.c[i]; Model& m = w.m[i]; size_t n = m.n;
  switch (w.pick()) {
  case 0: case 1: { long k = w.key(), v = w.fresh(); int where = (int)r.below(3); size_t pos = where == 0 ? n : where == 1 ? 0 : r.below(n + 1); bool had = findKey(m, k) < n;
      w.op(where == 0 ? "HashMap.append/arg=temp" : where == 1 ? "HashMap.prepend/arg=temp" : "HashMap.insert/arg=temp", "c%d.insert(@%lu,%ld,%ld)%s", i, (unsigned long)pos, k, v, had ? " existing key" : "");
      if (where == 0) { Elem& ret = a.append(Elem(k), Elem(v)); if (rd(ret) != v) fail(keyOf("returned"), "append did not return the stored value"); }
      else if (where == 1) { Elem& ret = a.prepend(Elem(k), Elem(v)); if (rd(ret) != v) fail(keyOf("returned"), "prepend did not return the stored value"); }
      else { It it = a.insert(iterAt(a, pos), Elem(k), Elem(v)); if (it == a.end() || rd(it.key()) != k || rd(*it) != v) fail(keyOf("returned"), "insert did not return the entry"); }
      hashPut(m, pos, k, v, true); break; }
  case 2: { if (!n) break; size_t ki = r.below(n), vi = r.below(n); int cls = (int)r.below(3); long k = cls == 1 ? w.key() : m[ki].k, v = cls == 2 ? w.fresh() : m[vi].v; int where = (int)r.below(3); size_t pos = where == 0 ? n : where == 1 ? 0 : r.below(n + 1);
      w.op(cls == 0 ? "HashMap.insert/arg=own-key,own-value" : cls == 1 ? "HashMap.insert/arg=temp-key,own-value" : "HashMap.insert/arg=own-key,temp-value", "c%d.insert(@%lu, %s, %s) = (%ld,%ld)", i, (unsigned long)pos, cls == 1 ? "temp" : "own key", cls == 2 ? "temp" : "own value", k, v); w.selfArg = true;
      It kit = iterAt(a, ki), vit = iterAt(a, vi), p = iterAt(a, pos);
      if (cls == 0) { if (where == 0) a.append(kit.key(), *vit); else if (where == 1) a.prepend(kit.key(), *vit); else a.insert(p, kit.key(), *vit); }
      else if (cls == 1) { if (where == 0) a.append(Elem(k), *vit); else if (where == 1) a.prepend(Elem(k), *vit); else a.insert(p, Elem(k), *vit); }
      else { if (where == 0) a.append(kit.key(), Elem(v)); else if (where == 1) a.prepend(kit.key(), Elem(v)); else a.insert(p, kit.key(), Elem(v)); }
      hashPut(m, pos, k, v, true); break; }
  case 3: { bool own = n && r.chance(1, 3); size_t idx = own ? r.below(n) : 0; long k = own ? m[idx].k : w.key(); w.op(own ? "HashMap.remove(key)/arg=own-key" : "HashMap.remove(key)/arg=temp", "c%d.remove(key %ld%s)", i, k, own ? " own" : ""); if (own) w.selfArg = true;
      if (own) a.remove(iterAt(a, idx).key()); else a.remove(Elem(k)); size_t f = findKey(m, k); if (f < n) { m.removeAt(f); w.removed = true; } break; }
  case 4: { if (!n) break; size_t idx = r.below(n); w.op("HashMap.remove(iterator)", "c%d.remove(it@%lu)", i, (unsigned long)idx); It res = a.remove(iterAt(a, idx)); m.removeAt(idx); w.removed = true;
      if (indexOf(a, res) != idx) fail(keyOf("returned"), "remove(iterator) did not return the successor"); break; }
  case 5: { if (!n) break; if (r.chance(1, 2)) { w.op("HashMap.removeFront", "c%d.removeFront()", i); a.removeFront(); m.removeAt(0); } else { w.op("HashMap.removeBack", "c%d.removeBack()", i); a.removeBack(); m.pop(); } w.removed = true; break; }
  case 6: { w.op("HashMap.clear", "c%d.clear()", i); a.clear(); if (n) w.removed = true; m.clear(); break; }
  case 7: { if (r.chance(1, 4)) { w.op("HashMap.swap/arg=self", "c%d.swap(c%d)", i, i); w.selfArg = true; a.swap(a); } else { w.op("HashMap.swap/arg=other", "c%d.swap(c%d)", i, o); a.swap(*w.c[o]); w.m[i].swap(w.m[o]); } break; }
  case 8: opCopyConstruct(w, i, "HashMap.copy-construct"); break;
  case 9: opAssign(w, i, r.chance(1, 3) ? i : o, "HashMap.operator=/arg=other", "HashMap.operator=/arg=self", K_HMAP_ASSIGN_SELF); break;
  case 10: opReplaceByCopy(w, i, "HashMap.copy-construct/source-destroyed"); break;
  case 11: opRecreate(w, i, "HashMap.destructor"); break;
  case 12: { bool own = n && r.chance(1, 3); size_t idx = own ? r.below(n) : 0; long k = own ? m[idx].k : w.key(); w.op(own ? "HashMap.find/arg=own-key" : "HashMap.find/arg=temp", "c%d.find(%ld%s)", i, k, own ? " own" : ""); if (own) w.selfArg = true;
      It it = own ? a.find(iterAt(a, idx).key()) : a.find(Elem(k)); size_t f = findKey(m, k); if (indexOf(a, it) != f) fail(keyOf("returned"), "find(%ld) returned position %lu, expected %lu", k, (unsigned long)indexOf(a, it), (unsigned long)f);
      if (a.contains(Elem(k)) != (f < n)) fail(keyOf("returned"), "contains(%ld) wrong", k); break; }
  case 13: { bool self = r.chance(1, 3); int j = self ? i : o; w.op(self ? "HashMap.operator==/arg=self" : "HashMap.operator==/arg=other", "c%d == c%d", i, j); if (self) w.selfArg = true;
      bool eq = w.m[i].n == w.m[j].n; for (size_t k = 0; eq && k < w.m[i].n; ++k) if (w.m[i][k].k != w.m[j][k].k || w.m[i][k].v != w.m[j][k].v) eq = false;
      if ((a == *w.c[j]) != eq || (a != *w.c[j]) == eq) fail(keyOf("returned"), "operator==/!= disagree with the model (expected equal=%d)", (int)eq); break; }
  default: break;
  }
}

// ------------------------------------------------------------------------------------------------ HashSet
static void stepHashSet(World<THashSet>& w) {
  typedef HashSet<Elem> H; typedef H::Iterator It; Rng& r = w.r; int i = (int)r.below(2), o = 1 - i; H& a = *w.c[i]; Model& m = w.m[i]; size_t n = m.n;
  switch (w.pick()) {
  case 0: case 1: { long k = w.key(); int where = (int)r.below(3); size_t pos = where == 0 ? n : where == 1 ? 0 : r.below(n + 1); bool had = findKey(m, k) < n;
      w.op(where == 0 ? "HashSet.append/arg=temp" : where == 1 ? "HashSet.prepend/arg=temp" : "HashSet.insert/arg=temp", "c%d.insert(@%lu,%ld)%s", i, (unsigned long)pos, k, had ? " existing key" : "");
      if (where == 0) a.append(Elem(k)); else if (where == 1) a.prepend(Elem(k)); else { It it = a.insert(iterAt(a, pos), Elem(k)); if (it == a.end() || rd(*it) != k) fail(keyOf("returned"), "insert did not return the entry"); }
      hashPut(m, pos, k, 0, false); break; }
  case 2: { if (!n) break; size_t ki = r.below(n); int where = (int)r.below(3); size_t pos = where == 0 ? n : where == 1 ? 0 : r.below(n + 1);
      w.op("HashSet.insert/arg=own-key", "c%d.insert(@%lu, own key %ld)", i, (unsigned long)pos, m[ki].k); w.selfArg = true; It kit = iterAt(a, ki), p = iterAt(a, pos);
      if (where == 0) a.append(*kit); else if (where == 1) a.prepend(*kit); else a.insert(p, *kit); break; }
  case 3: { bool self = r.chance(1, 3); int j = self ? i : o; w.op(self ? "HashSet.append(HashSet)/arg=self" : "HashSet.append(HashSet)/arg=other", "c%d.append(c%d)", i, j); if (self) w.selfArg = true;
      Model src(w.m[j]); cpuBudget(5, keyOf("nonterminating")); a.append(*w.c[j]); cpuBudget(0, 0); for (size_t k = 0; k < src.n; ++k) hashPut(m, m.n, src[k].k, 0, false); break; }
  case 4: { bool self = r.chance(1, 3); int j = self ? i : o; w.op(self ? "HashSet.remove(HashSet)/arg=self" : "HashSet.remove(HashSet)/arg=other", "c%d.remove(c%d)", i, j); if (self) w.selfArg = true;
      Model src(w.m[j]); cpuBudget(5, keyOf("nonterminating")); a.remove(*w.c[j]); cpuBudget(0, 0); for (size_t k = 0; k < src.n; ++k) { size_t f = findKey(m, src[k].k); if (f < m.n) { m.removeAt(f); w.removed = true; } } break; }
  case 5: { bool own = n && r.chance(1, 3); size_t idx = own ? r.below(n) : 0; long k = own ? m[idx].k : w.key(); w.op(own ? "HashSet.remove(key)/arg=own-key" : "HashSet.remove(key)/arg=temp", "c%d.remove(key %ld%s)", i, k, own ? " own" : ""); if (own) w.selfArg = true;
      if (own) a.remove(*iterAt(a, idx)); else a.remove(Elem(k)); size_t f = findKey(m, k); if (f < n) { m.removeAt(f); w.removed = true; } break; }
  case 6: { if (!n) break; size_t idx = r.below(n); w.op("HashSet.remove(iterator)", "c%d.remove(it@%lu)", i, (unsigned long)idx); It res = a.remove(iterAt(a, idx)); m.removeAt(idx); w.removed = true;
      if (indexOf(a, res) != idx) fail(keyOf("returned"), "remove(iterator) did not return the successor"); break; }
  case 7: { if (!n) break; if (r.chance(1, 2)) { w.op("HashSet.removeFront", "c%d.removeFront()", i); a.removeFront(); m.removeAt(0); } else { w.op("HashSet.removeBack", "c%d.removeBack()", i); a.removeBack(); m.pop(); } w.removed = true; break; }
  case 8: { w.op("HashSet.clear", "c%d.clear()", i); a.clear(); if (n) w.removed = true; m.clear(); break; }
  case 9: { if (r.chance(1, 4)) { w.op("HashSet.swap/arg=self", "c%d.swap(c%d)", i, i); w.selfArg = true; a.swap(a); } else { w.op("HashSet.swap/arg=other", "c%d.swap(c%d)", i, o); a.swap(*w.c[o]); w.m[i].swap(w.m[o]); } break; }
  case 10: opCopyConstruct(w, i, "HashSet.copy-construct"); break;
  case 11: opAssign(w, i, r.chance(1, 3) ? i : o, "HashSet.operator=/arg=other", "HashSet.operator=/arg=self", K_HSET_ASSIGN_SELF); break;
  case 12: opReplaceByCopy(w, i, "HashSet.copy-construct/source-destroyed"); break;
  case 13: opRecreate(w, i, "HashSet.destructor"); break;
  case 14: { bool own = n && r.chance(1, 3); size_t idx = own ? r.below(n) : 0; long k = own ? m[idx].k : w.key(); w.op(own ? "HashSet.find/arg=own-key" : "HashSet.find/arg=temp", "c%d.find(%ld%s)", i, k, own ? " own" : ""); if (own) w.selfArg = true;
      It it = own ? a.find(*iterAt(a, idx)) : a.find(Elem(k)); size_t f = findKey(m, k); if (indexOf(a, it) != f) fail(keyOf("returned"), "find(%ld) returned position %lu, expected %lu", k, (unsigned long)indexOf(a, it), (unsigned long)f);
      if (a.contains(Elem(k)) != (f < n)) fail(keyOf("returned"), "contains(%ld) wrong", k); break; }
  case 15: { bool self = r.chance(1, 3); int j = self ? i : o; w.op(self ? "HashSet.operator==/arg=self" : "HashSet.operator==/arg=other", "c%d == c%d", i, j); if (self) w.selfArg = true;
      bool eq = w.m[i].n == w.m[j].n; for (size_t k = 0; eq && k < w.m[i].n; ++k) if (w.m[i][k].k != w.m[j][k].k) eq = false;
      if ((a == *w.c[j]) != eq || (a != *w.c[j]) == eq) fail(keyOf("returned"), "operator==/!= disagree with the model (expected equal=%d)", (int)eq); break; }
  default: break;
  }
}

// ------------------------------------------------------------------------------------------------ PoolList
static void stepPoolList(World<TPoolList>& w) {
  typedef PoolList<Elem> P; typedef P::Iterator It; Rng& r = w.r; int i = (int)r.below(2), o = 1 - i; P& a = *w.c[i]; Model& m = w.m[i]; size_t n = m.n;
  switch (w.pick()) {
  case 0: case 1: { long id = w.fresh(); w.op("PoolList.append/arg=id", "c%d.append(%ld)", i, id); long c0 = ElemReg::ctorCount(); Elem& ret = a.append(id); long made = ElemReg::ctorCount() - c0;
      if (made != 1) fail(keyOf("constructions"), "append(id) constructed %ld elements, expected exactly the one stored in place", made);
      if (rd(ret) != id || &ret != &*iterAt(a, n)) fail(keyOf("returned"), "append did not return the new last element"); m.push(mk(id, 0)); break; }
  case 2: { w.op("PoolList.append/arg=none", "c%d.append()", i); long c0 = ElemReg::ctorCount(); Elem& ret = a.append(); long made = ElemReg::ctorCount() - c0;
      if (made != 1) fail(keyOf("constructions"), "append() constructed %ld elements, expected exactly the one stored in place", made);
      if (rd(ret) != 0 || &ret != &*iterAt(a, n)) fail(keyOf("returned"), "append did not return the new last element"); m.push(mk(0, 0)); break; }
  case 3: { if (!n) break; size_t idx = r.below(n); w.op("PoolList.append/arg=self-elem", "c%d.append(c%d[%lu])", i, i, (unsigned long)idx); w.selfArg = true;
      a.append<const Elem&>(*iterAt(a, idx)); m.push(mk(m[idx].k, 0)); break; }
  case 4: { if (!n) break; size_t idx = r.below(n); w.op("PoolList.remove(iterator)", "c%d.remove(it@%lu)", i, (unsigned long)idx); It res = a.remove(iterAt(a, idx)); m.removeAt(idx); w.removed = true;
      if (indexOf(a, res) != idx) fail(keyOf("returned"), "remove(iterator) did not return the successor"); break; }
  case 5: { if (!n) break; size_t idx = r.below(n); w.op("PoolList.remove(value)/arg=self-elem", "c%d.remove(c%d[%lu])", i, i, (unsigned long)idx); w.selfArg = true; a.remove(*iterAt(a, idx)); m.removeAt(idx); w.removed = true; break; }
  case 6: { if (!n) break; if (r.chance(1, 2)) { w.op("PoolList.removeFront", "c%d.removeFront()", i); a.removeFront(); m.removeAt(0); } else { w.op("PoolList.removeBack", "c%d.removeBack()", i); a.removeBack(); m.pop(); } w.removed = true; break; }
  case 7: { w.op("PoolList.clear", "c%d.clear()", i); a.clear(); if (n) w.removed = true; m.clear(); break; }
  case 8: { if (r.chance(1, 4)) { w.op("PoolList.swap/arg=self", "c%d.swap(c%d)", i, i); w.selfArg = true; a.swap(a); } else { w.op("PoolList.swap/arg=other", "c%d.swap(c%d)", i, o); a.swap(*w.c[o]); w.m[i].swap(w.m[o]); } break; }
  case 9: opRecreate(w, i, "PoolList.destructor"); break;
  default: break;
  }
}

// ------------------------------------------------------------------------------------------------ PoolMap
static void stepPoolMap(World<TPoolMap>& w) {
  typedef PoolMap<Elem, PVal> P; typedef P::Iterator It; Rng& r = w.r; int i = (int)r.below(2), o = 1 - i; P& a = *w.c[i]; Model& m = w.m[i]; size_t n = m.n;
  switch (w.pick()) {
  case 0: case 1: { long k = w.key(), v = w.fresh(); bool app = r.chance(1, 2); size_t pos = app ? n : r.below(n + 1); size_t f = findKey(m, k); bool had = f < n;
      w.op(app ? "PoolMap.append/arg=temp" : "PoolMap.insert/arg=temp", "c%d.insert(@%lu,%ld)%s -> value %ld", i, (unsigned long)pos, k, had ? " existing key" : "", v);
      PVal* pv; if (app) pv = &a.append(Elem(k)); else { It it = a.insert(iterAt(a, pos), Elem(k)); if (it == a.end() || rd(it.key()) != k) fail(keyOf("returned"), "insert did not return the entry"); pv = &*it; }
      if (had) { if (rd(pv->e) != m[f].v) fail(keyOf("returned"), "append of an existing key returned value %ld, stored value is %ld", pv->e.id, m[f].v); }
      else { if (rd(pv->e) != 0) fail(keyOf("returned"), "new value is not default constructed"); pv->e.id = v; m.insert(pos, mk(k, v)); }
      break; }
  case 2: { if (!n) break; size_t ki = r.below(n); bool app = r.chance(1, 2); size_t pos = app ? n : r.below(n + 1); w.op("PoolMap.insert/arg=own-key", "c%d.insert(@%lu, own key %ld)", i, (unsigned long)pos, m[ki].k); w.selfArg = true;
      It kit = iterAt(a, ki), p = iterAt(a, pos); PVal* pv; if (app) pv = &a.append(kit.key()); else { It it = a.insert(p, kit.key()); pv = &*it; } if (rd(pv->e) != m[ki].v) fail(keyOf("returned"), "append(own key) returned a different entry"); break; }
  case 3: { bool own = n && r.chance(1, 3); size_t idx = own ? r.below(n) : 0; long k = own ? m[idx].k : w.key(); w.op(own ? "PoolMap.remove(key)/arg=own-key" : "PoolMap.remove(key)/arg=temp", "c%d.remove(key %ld%s)", i, k, own ? " own" : ""); if (own) w.selfArg = true;
      if (own) a.remove(iterAt(a, idx).key()); else a.remove(Elem(k)); size_t f = findKey(m, k); if (f < n) { m.removeAt(f); w.removed = true; } break; }
  case 4: { if (!n) break; size_t idx = r.below(n); w.op("PoolMap.remove(iterator)", "c%d.remove(it@%lu)", i, (unsigned long)idx); It res = a.remove(iterAt(a, idx)); m.removeAt(idx); w.removed = true;
      if (indexOf(a, res) != idx) fail(keyOf("returned"), "remove(iterator) did not return the successor"); break; }
  case 5: { if (!n) break; size_t idx = r.below(n); w.op("PoolMap.remove(value)/arg=own-value", "c%d.remove(value of entry %lu)", i, (unsigned long)idx); w.selfArg = true; a.remove(*iterAt(a, idx)); m.removeAt(idx); w.removed = true; break; }
  case 6: { if (!n) break; if (r.chance(1, 2)) { w.op("PoolMap.removeFront", "c%d.removeFront()", i); a.removeFront(); m.removeAt(0); } else { w.op("PoolMap.removeBack", "c%d.removeBack()", i); a.removeBack(); m.pop(); } w.removed = true; break; }
  case 7: { w.op("PoolMap.clear", "c%d.clear()", i); a.clear(); if (n) w.removed = true; m.clear(); break; }
  case 8: { if (r.chance(1, 4)) { w.op("PoolMap.swap/arg=self", "c%d.swap(c%d)", i, i); w.selfArg = true; a.swap(a); } else { w.op("PoolMap.swap/arg=other", "c%d.swap(c%d)", i, o); a.swap(*w.c[o]); w.m[i].swap(w.m[o]); } break; }
  case 9: opRecreate(w, i, "PoolMap.destructor"); break;
  case 10: { bool own = n && r.chance(1, 3); size_t idx = own ? r.below(n) : 0; long k = own ? m[idx].k : w.key(); w.op(own ? "PoolMap.find/arg=own-key" : "PoolMap.find/arg=temp", "c%d.find(%ld%s)", i, k, own ? " own" : ""); if (own) w.selfArg = true;
      It it = own ? a.find(iterAt(a, idx).key()) : a.find(Elem(k)); size_t f = findKey(m, k); if (indexOf(a, it) != f) fail(keyOf("returned"), "find(%ld) returned position %lu, expected %lu", k, (unsigned long)indexOf(a, it), (unsigned long)f);
      if (a.contains(Elem(k)) != (f < n)) fail(keyOf("returned"), "contains(%ld) wrong", k); break; }
  default: break;
  }
}

// ------------------------------------------------------------------------------------------------ case loop
static int g_lengthFactor = 1;
template <class Tr> static void histories(void (*step)(World<Tr>&), int kinds, u64 modeConst, unsigned rareMask) {
  char dctx[64]; snprintf(dctx, sizeof dctx, "%s.destructor/end-of-case", Tr::name());
  for (long idx = opts.start; idx < opts.start + opts.cases; ++idx) {
    if (!mine(idx)) continue;
    beginCase(idx);
    Rng r(opts.seed, modeConst, (u64)idx);
    ElemReg::reset();
    World<Tr> w(r);
    { // elements an empty container holds by itself: whatever the library does, as long as construction and destruction agree (uses no randomness)
      setctx("constructor/empty-container"); long before = ElemReg::liveCount(); typename Tr::C* t = new typename Tr::C; w.sent = ElemReg::liveCount() - before;
      setctx("destructor/empty-container"); delete t;
      if (ElemReg::liveCount() != before || w.sent < 0) fail(keyOf("live-count"), "an empty %s constructed %ld tracked elements, %ld are left after its destruction", Tr::name(), w.sent, ElemReg::liveCount() - before);
      statMax("max_elements_held_by_empty_container", w.sent); }
    w.universe = (int)(r.chance(1, 3) ? r.range(1, 5) : r.range(5, 24));
    int nops = (int)r.range(20, r.chance(1, 6) ? 500 : 120) * g_lengthFactor;
    elemHashMode = (long)r.below(5);
    w.wtot = 0; for (int k = 0; k < NK; ++k) { w.w[k] = k < kinds ? (r.chance(1, 4) ? 0 : (int)r.range(1, 10)) : 0; } w.w[0] += 4;
    for (int k = 0; k < NK; ++k) if (rareMask >> k & 1) w.w[k] = w.w[k] && r.chance(1, 2) ? 1 : 0;   // clear / destroy-and-recreate stay rare so that containers fill up
    for (int k = 0; k < NK; ++k) w.wtot += w.w[k];
    hist.addf("# %s history: universe=%d nops=%d hashMode=%ld\n", Tr::name(), w.universe, nops, elemHashMode);
    setctx("constructor"); w.c[0] = Tr::create(r); w.c[1] = Tr::create(r);
    w.check();
    for (int o = 0; o < nops; ++o) { step(w); w.check(); }
    setctx(dctx); hist.add("delete c0; delete c1\n");
    delete w.c[0]; w.c[0] = 0; delete w.c[1]; w.c[1] = 0;
    ElemReg::checkBalanced(dctx);
    cnt("ops", w.ops); statMax("max_size", (long)w.maxn);
    if (w.selfArg) cnt("cases_with_self_argument"); if (w.copied) cnt("cases_with_copy");
    if (idx % 97 == 0) sample("%.1200s", hist.c());
    endCase(mix(w.fp, (u64)w.maxn), w.maxn >= 2 && w.removed && (w.copied || w.selfArg));
  }
  cnt("elements_observed", g_observed); cnt("elem_constructions", ElemReg::ctorCount()); cnt("elem_destructions", ElemReg::dtorCount());
}

// ------------------------------------------------------------------------------------------------ probes: minimal reproducers of the defects reached by this check
template <class C> static void fill3(C& c);
template <> void fill3(Array<Elem>& c) { for (long i = 1; i <= 3; ++i) c.append(Elem(i)); }
template <> void fill3(List<Elem>& c) { for (long i = 1; i <= 3; ++i) c.append(Elem(i)); }
template <> void fill3(Map<Elem, Elem>& c) { for (long i = 1; i <= 3; ++i) c.insert(Elem(i), Elem(10 + i)); }
template <> void fill3(MultiMap<Elem, Elem>& c) { for (long i = 1; i <= 3; ++i) c.insert(Elem(i), Elem(10 + i)); }
template <> void fill3(HashMap<Elem, Elem>& c) { for (long i = 1; i <= 3; ++i) c.append(Elem(i), Elem(10 + i)); }
template <> void fill3(HashSet<Elem>& c) { for (long i = 1; i <= 3; ++i) c.append(Elem(i)); }
template <class C> static void probeSelfAssign(const char* key, const char* cx) {
  setctx(cx); C c; fill3(c); C& alias = c; c = alias;
  if (c.size() != 3) fail(key, "x = x left %lu of 3 entries", (unsigned long)c.size());
  long seen = 0; for (typename C::Iterator it = c.begin(); it != c.end(); ++it) ++seen;
  if (seen != 3) fail(key, "x = x left %ld of 3 entries reachable by iteration", seen);
}
static int probe(const char* key) {
  armCap();
  if (!strcmp(key, K_ARR_ASSIGN_SELF)) { probeSelfAssign<Array<Elem> >(key, "Array.operator=/arg=self"); return 0; }
  if (!strcmp(key, K_LIST_ASSIGN_SELF)) { probeSelfAssign<List<Elem> >(key, "List.operator=/arg=self"); return 0; }
  if (!strcmp(key, K_MAP_ASSIGN_SELF)) { probeSelfAssign<Map<Elem, Elem> >(key, "Map.operator=/arg=self"); return 0; }
  if (!strcmp(key, K_MMAP_ASSIGN_SELF)) { probeSelfAssign<MultiMap<Elem, Elem> >(key, "MultiMap.operator=/arg=self"); return 0; }
  if (!strcmp(key, K_HMAP_ASSIGN_SELF)) { probeSelfAssign<HashMap<Elem, Elem> >(key, "HashMap.operator=/arg=self"); return 0; }
  if (!strcmp(key, K_HSET_ASSIGN_SELF)) { probeSelfAssign<HashSet<Elem> >(key, "HashSet.operator=/arg=self"); return 0; }
  if (!strcmp(key, K_ARR_APPEND_SELF)) { setctx("Array.append/arg=self-elem"); Array<Elem> a; a.append(Elem(1)); while (a.size() < a.capacity()) a.append(Elem(2)); a.append(dataOf(a)[0]); if (rd(a.back()) != 1) fail(key, "appended copy of a[0] has id %ld", a.back().id); return 0; }
  if (!strcmp(key, K_ARR_RESIZE_SELF)) { setctx("Array.resize/arg=self-elem"); Array<Elem> a; a.append(Elem(1)); a.resize(a.capacity() + 1, dataOf(a)[0]); if (rd(a.back()) != 1) fail(key, "new elements are not copies of a[0]"); return 0; }
  if (!strcmp(key, K_LIST_APPEND_SELF) || !strcmp(key, K_LIST_PREPEND_SELF) || !strcmp(key, K_LIST_INSERT_SELF)) {
    int where = !strcmp(key, K_LIST_APPEND_SELF) ? 0 : !strcmp(key, K_LIST_PREPEND_SELF) ? 1 : 2;
    setctx(where == 0 ? "List.append/arg=self" : where == 1 ? "List.prepend/arg=self" : "List.insert/arg=self,pos=middle");
    List<Elem> l; fill3(l); cpuBudget(5, key);
    if (where == 0) l.append(l); else if (where == 1) l.prepend(l); else { List<Elem>::Iterator it = l.begin(); ++it; l.insert(it, l); }
    cpuBudget(0, 0);
    static const long exp[3][6] = { { 1, 2, 3, 1, 2, 3 }, { 1, 2, 3, 1, 2, 3 }, { 1, 1, 2, 3, 2, 3 } };
    if (l.size() != 6) fail(key, "list holds %lu elements after inserting itself, expected 6", (unsigned long)l.size());
    int x = 0; for (List<Elem>::Iterator it = l.begin(); it != l.end(); ++it, ++x) if (rd(*it) != exp[where][x]) fail(key, "position %d holds %ld, expected %ld", x, (*it).id, exp[where][x]);
    return 0; }
  harnessBug("unknown probe %s", key);
}

int main(int argc, char** argv) {
  init(argc, argv, "h_once");
  if (opts.probe) { int rc = probe(opts.probe); leakCheck("probe/leak"); finish(); return rc; }
  armCap();
  // mode = <type>[-long]; the history length factor is part of the mode name so that a replay (--mode M --seed S --start i --cases 1) reproduces the case
  char m[64]; snprintf(m, sizeof m, "%s", opts.mode); g_lengthFactor = 1; u64 lc = 0;
  { size_t l = strlen(m); if (l > 5 && !strcmp(m + l - 5, "-long")) { m[l - 5] = 0; g_lengthFactor = 6; lc = 100; } }
  if (!strcmp(m, "array")) histories<TArray>(stepArray, 18, 4001 + lc, 1u << 11 | 1u << 16);
  else if (!strcmp(m, "list")) histories<TList>(stepList, 15, 4002 + lc, 1u << 6 | 1u << 11);
  else if (!strcmp(m, "map")) histories<TMap>(stepMap, 13, 4003 + lc, 1u << 7 | 1u << 11);
  else if (!strcmp(m, "multimap")) histories<TMultiMap>(stepMultiMap, 13, 4004 + lc, 1u << 7 | 1u << 11);
  else if (!strcmp(m, "hashmap")) histories<THashMap>(stepHashMap, 14, 4005 + lc, 1u << 6 | 1u << 11);
  else if (!strcmp(m, "hashset")) histories<THashSet>(stepHashSet, 16, 4006 + lc, 1u << 8 | 1u << 13 | 1u << 4);
  else if (!strcmp(m, "poollist")) histories<TPoolList>(stepPoolList, 10, 4007 + lc, 1u << 7 | 1u << 9);
  else if (!strcmp(m, "poolmap")) histories<TPoolMap>(stepPoolMap, 11, 4008 + lc, 1u << 7 | 1u << 9);
  else harnessBug("unknown mode %s", opts.mode);
  leakCheck("containers/leak");
  finish();
  return 0;
}
