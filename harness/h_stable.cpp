// h_stable.cpp - C05: elements of node and pool containers never move while they live.
// One mode per container type (list, map, multimap, hashmap, hashset, poollist, poolmap). A case is a long random history on two containers of
// that type whose population oscillates between ~0 and a few hundred entries (free-slot reuse, block allocation, tree rotations and
// bucket-chain relinking all happen while old elements stay alive). For every entry the harness records at insertion time
//     (key id, value id, address of the key, address of the value, the iterator returned by the insertion)
// and keeps the records in container order. The recorded iterators - never fresh ones - are what later removals are made with.
// After every operation: the records next to the touched position and a random sample of records (both containers) are re-validated:
//   stored iterator still yields the recorded addresses; the elements at those addresses are live in the Elem registry and carry the recorded
//   ids; ++/-- on the stored iterator reach the neighbouring records' iterators (or end()/begin()); find(key) returns the stored iterator.
// Periodically, after swap/clear/bulk operations and whenever a non-inserting operation copied any tracked element: full sweep of both
// containers (iteration order == record order, same iterators, same addresses, same ids, size).
// PoolList / PoolMap hold non-copyable types (deleted copy operations) that remember their own address: exactly one construction per append, at
// the address handed out, no construction or destruction of a stored object by any other operation.
// List::sort is not part of the histories: it exchanges values between nodes and is neither an insertion nor a removal.
// Mode reentrant: the same ledger over element types whose destructor (all seven containers) or copy constructor (HashMap, HashSet) performs, when
// armed by the harness for exactly one library call, one nested operation on the container the element is being removed from / stored in (see the
// section "re-entrant elements" for what is exercised and what the unchanged library does not support).
// Every verdict uses the public API only. The single use of private library state (inside #ifndef VERIF_NO_PRIVATE; needs -fno-access-control) is
// evidence without verdict: counters block_allocations / free_slot_reuses / root_changes. With -DVERIF_NO_PRIVATE these three counters are absent.
#include "vh.hpp"
#include <nstd/List.hpp>
#include <nstd/Map.hpp>
#include <nstd/MultiMap.hpp>
#include <nstd/HashMap.hpp>
#include <nstd/HashSet.hpp>
#include <nstd/PoolList.hpp>
#include <nstd/PoolMap.hpp>

using namespace vh;

static char g_keybuf[300];
static const char* keyOf(const char* what) { snprintf(g_keybuf, sizeof g_keybuf, "%s/%s", (const char*)ctx, what); return g_keybuf; }
static long g_addrChecks = 0, g_iterChecks = 0, g_lookups = 0, g_sweeps = 0, g_sweepEntries = 0;

static long rd(const Elem& e) {
  long id = e.id; ElemReg::onUse(&e, id, "observe");
  if (!e.blk || *e.blk != 0x5a5a) fail(keyOf("payload"), "element id %ld at %p does not own an intact heap block", id, (const void*)&e);
  return id;
}

// non-copyable element of PoolList: 0..7 constructor arguments, remembers where it was constructed
struct NC {
  Elem e; NC* self; int nargs; long sum;
  static long made, gone;
  NC() : e(0), self(this), nargs(0), sum(0) { ++made; }
  NC(long a) : e(a), self(this), nargs(1), sum(0) { ++made; }
  NC(long a, int b) : e(a), self(this), nargs(2), sum(b) { ++made; }
  NC(long a, int b, int c) : e(a), self(this), nargs(3), sum(b + c) { ++made; }
  NC(long a, int b, int c, int d) : e(a), self(this), nargs(4), sum(b + c + d) { ++made; }
  NC(long a, int b, int c, int d, int f) : e(a), self(this), nargs(5), sum(b + c + d + f) { ++made; }
  NC(long a, int b, int c, int d, int f, int g) : e(a), self(this), nargs(6), sum(b + c + d + f + g) { ++made; }
  NC(long a, int b, int c, int d, int f, int g, int h) : e(a), self(this), nargs(7), sum(b + c + d + f + g + h) { ++made; }
  ~NC() { ++gone; }
  NC(const NC&) = delete; NC& operator=(const NC&) = delete;
};
long NC::made = 0, NC::gone = 0;
// non-copyable value of PoolMap: default constructed in place only
struct NCV {
  Elem e; NCV* self;
  static long made, gone;
  NCV() : e(0), self(this) { ++made; }
  ~NCV() { ++gone; }
  NCV(const NCV&) = delete; NCV& operator=(const NCV&) = delete;
};
long NCV::made = 0, NCV::gone = 0;


// ------------------------------------------------------------------------------------------------ re-entrant elements (mode reentrant)
// Client code of these containers stores objects that call back into the container from their own destructor (a connection that queues its
// successor, a handler that unregisters another one) and - less often - from their copy constructor (an object that registers a companion entry
// when it is stored). The harness arms exactly one such callback for exactly one library call; the element that consumes the arm performs one
// nested operation on the container it lives in. The element the nested operation stores is a stored element like any other: it must get storage
// that is not in use (in particular not the storage of the element whose destructor / constructor is still running) and keep it.
// What the unchanged library supports (read off the code, so only this is exercised):
//   * destructor of the entry being removed by remove(iterator) / remove(key) / remove(value) / removeFront / removeBack, all seven containers: the
//     node is unlinked before and released after the destructor, so the destructor may insert a new entry (also with the key being removed) or
//     remove another entry. The iterator such a removal returns was read off before the destructor ran: not checked.
//   * copy constructor of the key/value being stored by HashMap::insert / HashSet::insert: the node is taken off the free list before the element
//     is constructed, so the constructor may insert another key.
// Not promised, never armed: constructors in List, Map, MultiMap, PoolMap, PoolList (these construct the element in the head node of the free list
// and take it off afterwards: a nested insertion gets the same node), destructors run by clear() / container destruction / assignment (these walk
// the node chain while destroying), nested removal of the position argument, nested operations on an entry that is itself being removed.
enum { ARM_NONE = 0, ARM_COPY = 1, ARM_DTOR = 2 };
struct Hook { int kind, countdown; void (*fn)(void*); void* arg; const char* lo; const char* hi; bool dying, fired; };
static Hook g_hook = { ARM_NONE, 0, 0, 0, 0, 0, false, false };
static const char* g_entryLo = 0; static const char* g_entryHi = 0;   // extent of the entry being removed (from the ledger), when the caller knows it
static void arm(int kind, int countdown, void (*fn)(void*), void* arg, const void* lo = 0, const void* hi = 0) { g_hook.kind = kind; g_hook.countdown = countdown; g_hook.fn = fn; g_hook.arg = arg; g_hook.lo = g_hook.hi = 0; g_hook.fired = false; g_entryLo = (const char*)lo; g_entryHi = (const char*)hi; }
static bool disarm() { g_hook.kind = ARM_NONE; return g_hook.fired; }
// called from the copy constructor / destructor of a re-entrant element: the countdown-th such call while armed performs the nested operation
static void fire(int kind, const void* obj, size_t size) {
  if (g_hook.kind != kind || --g_hook.countdown > 0) return;
  g_hook.kind = ARM_NONE; g_hook.fired = true; g_hook.dying = kind == ARM_DTOR; g_hook.lo = (const char*)obj; g_hook.hi = (const char*)obj + size;
  if (g_entryLo && g_entryLo <= g_hook.lo && g_hook.hi <= g_entryHi) { g_hook.lo = g_entryLo; g_hook.hi = g_entryHi; }   // the whole dying entry (key and value), not only the member whose destructor runs
  g_hook.fn(g_hook.arg);
  g_hook.lo = g_hook.hi = 0;
}
// first member of every re-entrant element: nothing may be constructed inside the object whose constructor / destructor is performing the nested operation
struct Guard {
  void check() const { const char* p = (const char*)this; if (g_hook.lo && p >= g_hook.lo && p < g_hook.hi)
    fail(keyOf(g_hook.dying ? "constructed-inside-element-being-destroyed" : "constructed-inside-element-being-constructed"),
         "the nested operation constructed an element at %p, inside the element [%p,%p) whose %s is still running", (const void*)p, (const void*)g_hook.lo, (const void*)g_hook.hi, g_hook.dying ? "destructor" : "copy constructor"); }
  Guard() { check(); } Guard(const Guard&) { check(); } Guard& operator=(const Guard&) { return *this; }
};
// copyable: element of List, HashSet; key and value of Map, MultiMap, HashMap; key of PoolMap. The tracked member is destroyed after the destructor body.
struct RE {
  Guard g; Elem e;
  RE() : e(0) {}
  RE(long id) : e(id) {}
  RE(const RE& o) : g(), e(o.e) { fire(ARM_COPY, this, sizeof *this); }
  ~RE() { fire(ARM_DTOR, this, sizeof *this); }
  RE& operator=(const RE& o) { e = o.e; return *this; }
  bool operator==(const RE& o) const { return e == o.e; } bool operator!=(const RE& o) const { return e != o.e; }
  bool operator<(const RE& o) const { return e < o.e; } bool operator>(const RE& o) const { return e > o.e; }
  bool operator<=(const RE& o) const { return e <= o.e; } bool operator>=(const RE& o) const { return e >= o.e; }
};
inline unsigned long hash(const RE& x) { return vh::hash(x.e); }
// non-copyable element of PoolList (one constructor argument) and value of PoolMap (default constructed): remember where they were constructed
struct RNC {
  Guard g; Elem e; RNC* self;
  RNC() : e(0), self(this) {}
  RNC(long id) : e(id), self(this) {}
  ~RNC() { fire(ARM_DTOR, this, sizeof *this); }
  RNC(const RNC&) = delete; RNC& operator=(const RNC&) = delete;
};

// ------------------------------------------------------------------------------------------------ traits
enum Order { SEQ, SORTED, MULTI, HASHED };
struct TList { typedef List<Elem> C; typedef C::Iterator It; enum { ORDER = SEQ, HASVAL = 0, POOL = 0, SWAP = 1, TREE = 0 }; static const char* name() { return "List"; }
  static const void* ka(It& it) { return &*it; } static const void* va(It&) { return 0; } static long kid(It& it) { return rd(*it); } static long vid(It&) { return 0; } static void self(It&) {}
  static C* create(Rng&) { return new C; } };
struct TMap { typedef Map<Elem, Elem> C; typedef C::Iterator It; enum { ORDER = SORTED, HASVAL = 1, POOL = 0, SWAP = 0, TREE = 1 }; static const char* name() { return "Map"; }
  static const void* ka(It& it) { return &it.key(); } static const void* va(It& it) { return &*it; } static long kid(It& it) { return rd(it.key()); } static long vid(It& it) { return rd(*it); } static void self(It&) {}
  static C* create(Rng&) { return new C; } };
struct TMultiMap { typedef MultiMap<Elem, Elem> C; typedef C::Iterator It; enum { ORDER = MULTI, HASVAL = 1, POOL = 0, SWAP = 0, TREE = 1 }; static const char* name() { return "MultiMap"; }
  static const void* ka(It& it) { return &it.key(); } static const void* va(It& it) { return &*it; } static long kid(It& it) { return rd(it.key()); } static long vid(It& it) { return rd(*it); } static void self(It&) {}
  static C* create(Rng&) { return new C; } };
struct THashMap { typedef HashMap<Elem, Elem> C; typedef C::Iterator It; enum { ORDER = HASHED, HASVAL = 1, POOL = 0, SWAP = 1, TREE = 0 }; static const char* name() { return "HashMap"; }
  static const void* ka(It& it) { return &it.key(); } static const void* va(It& it) { return &*it; } static long kid(It& it) { return rd(it.key()); } static long vid(It& it) { return rd(*it); } static void self(It&) {}
  static C* create(Rng& r) { return r.chance(1, 3) ? new C : new C((usize)r.range(1, 40)); } };
struct THashSet { typedef HashSet<Elem> C; typedef C::Iterator It; enum { ORDER = HASHED, HASVAL = 0, POOL = 0, SWAP = 1, TREE = 0 }; static const char* name() { return "HashSet"; }
  static const void* ka(It& it) { return &*it; } static const void* va(It&) { return 0; } static long kid(It& it) { return rd(*it); } static long vid(It&) { return 0; } static void self(It&) {}
  static C* create(Rng& r) { return r.chance(1, 3) ? new C : new C((usize)r.range(1, 40)); } };
struct TPoolList { typedef PoolList<NC> C; typedef C::Iterator It; enum { ORDER = SEQ, HASVAL = 0, POOL = 1, SWAP = 1, TREE = 0 }; static const char* name() { return "PoolList"; }
  static const void* ka(It& it) { return &*it; } static const void* va(It&) { return 0; } static long kid(It& it) { return rd((*it).e); } static long vid(It&) { return 0; }
  static void self(It& it) { if ((*it).self != &*it) fail(keyOf("relocated"), "PoolList element at %p was constructed at %p", (void*)&*it, (void*)(*it).self); }
  static C* create(Rng&) { return new C; } };
struct TPoolMap { typedef PoolMap<Elem, NCV> C; typedef C::Iterator It; enum { ORDER = HASHED, HASVAL = 1, POOL = 1, SWAP = 1, TREE = 0 }; static const char* name() { return "PoolMap"; }
  static const void* ka(It& it) { return &it.key(); } static const void* va(It& it) { return &*it; } static long kid(It& it) { return rd(it.key()); } static long vid(It& it) { return rd((*it).e); }
  static void self(It& it) { if ((*it).self != &*it) fail(keyOf("relocated"), "PoolMap value at %p was constructed at %p", (void*)&*it, (void*)(*it).self); }
  static C* create(Rng& r) { return r.chance(1, 3) ? new C : new C((usize)r.range(1, 40)); } };

// traits of mode reentrant. PARTS: re-entrant members of one entry (which of their destructors performs the nested operation is drawn per case);
// COPIES: copy constructions per insertion that may perform a nested insertion (0: not supported by the unchanged library); HOWS: removal entry points
#define R_COMMON(NAME) static const char* name() { return NAME; } static const char* how(int h) { static const char* const n[] = { "remove(iterator)", HOW1, "removeFront", "removeBack", "remove(value)" }; return n[h]; }
#define HOW1 "remove(value)"
struct TListR { typedef RE KT; typedef RE VT; typedef List<RE> C; typedef C::Iterator It; enum { ORDER = SEQ, HASVAL = 0, POOL = 0, SWAP = 1, TREE = 0, FIND = 1, PARTS = 1, COPIES = 0, HOWS = 4 }; R_COMMON("List")
  static const void* ka(It& it) { return &*it; } static const void* va(It&) { return 0; } static long kid(It& it) { return rd((*it).e); } static long vid(It&) { return 0; } static void self(It&) {}
  static C* create(Rng&) { return new C; } static It find(C& c, long k) { return c.find(RE(k)); }
  static It add(C& c, const It& at, long k, long) { return c.insert(at, RE(k)); }
  static void del(C& c, const It& it, int h, long k) { if (h == 0) c.remove(it); else if (h == 1) c.remove(RE(k)); else if (h == 2) c.removeFront(); else c.removeBack(); } };
struct TPoolListR { typedef RNC KT; typedef RNC VT; typedef PoolList<RNC> C; typedef C::Iterator It; enum { ORDER = SEQ, HASVAL = 0, POOL = 1, SWAP = 1, TREE = 0, FIND = 0, PARTS = 1, COPIES = 0, HOWS = 4 }; R_COMMON("PoolList")
  static const void* ka(It& it) { return &*it; } static const void* va(It&) { return 0; } static long kid(It& it) { return rd((*it).e); } static long vid(It&) { return 0; }
  static void self(It& it) { if ((*it).self != &*it) fail(keyOf("relocated"), "PoolList element at %p was constructed at %p", (void*)&*it, (void*)(*it).self); }
  static C* create(Rng&) { return new C; } static It find(C& c, long) { return c.end(); }
  static It add(C& c, const It&, long k, long) { RNC& x = c.append(k); It it = c.end(); --it; if (&*it != &x) fail(keyOf("returned"), "append returned a reference that is not the last element"); return it; }
  static void del(C& c, const It& it, int h, long) { if (h == 0) c.remove(it); else if (h == 1) { It x = it; c.remove(*x); } else if (h == 2) c.removeFront(); else c.removeBack(); } };
#undef HOW1
#define HOW1 "remove(key)"
struct TMapR { typedef RE KT; typedef RE VT; typedef Map<RE, RE> C; typedef C::Iterator It; enum { ORDER = SORTED, HASVAL = 1, POOL = 0, SWAP = 0, TREE = 1, FIND = 1, PARTS = 2, COPIES = 0, HOWS = 4 }; R_COMMON("Map")
  static const void* ka(It& it) { return &it.key(); } static const void* va(It& it) { return &*it; } static long kid(It& it) { return rd(it.key().e); } static long vid(It& it) { return rd((*it).e); } static void self(It&) {}
  static C* create(Rng&) { return new C; } static It find(C& c, long k) { return c.find(RE(k)); }
  static It add(C& c, const It&, long k, long v) { return c.insert(RE(k), RE(v)); }
  static void del(C& c, const It& it, int h, long k) { if (h == 0) c.remove(it); else if (h == 1) c.remove(RE(k)); else if (h == 2) c.removeFront(); else c.removeBack(); } };
struct TMultiMapR { typedef RE KT; typedef RE VT; typedef MultiMap<RE, RE> C; typedef C::Iterator It; enum { ORDER = MULTI, HASVAL = 1, POOL = 0, SWAP = 0, TREE = 1, FIND = 1, PARTS = 2, COPIES = 0, HOWS = 4 }; R_COMMON("MultiMap")
  static const void* ka(It& it) { return &it.key(); } static const void* va(It& it) { return &*it; } static long kid(It& it) { return rd(it.key().e); } static long vid(It& it) { return rd((*it).e); } static void self(It&) {}
  static C* create(Rng&) { return new C; } static It find(C& c, long k) { return c.find(RE(k)); }
  static It add(C& c, const It&, long k, long v) { return c.insert(RE(k), RE(v)); }
  static void del(C& c, const It& it, int h, long) { if (h == 0 || h == 1) c.remove(it); else if (h == 2) c.removeFront(); else c.removeBack(); } };   // remove(key) may take any entry of a run of equal keys: not used here
struct THashMapR { typedef RE KT; typedef RE VT; typedef HashMap<RE, RE> C; typedef C::Iterator It; enum { ORDER = HASHED, HASVAL = 1, POOL = 0, SWAP = 1, TREE = 0, FIND = 1, PARTS = 2, COPIES = 2, HOWS = 4 }; R_COMMON("HashMap")
  static const void* ka(It& it) { return &it.key(); } static const void* va(It& it) { return &*it; } static long kid(It& it) { return rd(it.key().e); } static long vid(It& it) { return rd((*it).e); } static void self(It&) {}
  static C* create(Rng& r) { return r.chance(1, 3) ? new C : new C((usize)r.range(1, 40)); } static It find(C& c, long k) { return c.find(RE(k)); }
  static It add(C& c, const It& at, long k, long v) { return c.insert(at, RE(k), RE(v)); }
  static void del(C& c, const It& it, int h, long k) { if (h == 0) c.remove(it); else if (h == 1) c.remove(RE(k)); else if (h == 2) c.removeFront(); else c.removeBack(); } };
struct THashSetR { typedef RE KT; typedef RE VT; typedef HashSet<RE> C; typedef C::Iterator It; enum { ORDER = HASHED, HASVAL = 0, POOL = 0, SWAP = 1, TREE = 0, FIND = 1, PARTS = 1, COPIES = 1, HOWS = 4 }; R_COMMON("HashSet")
  static const void* ka(It& it) { return &*it; } static const void* va(It&) { return 0; } static long kid(It& it) { return rd((*it).e); } static long vid(It&) { return 0; } static void self(It&) {}
  static C* create(Rng& r) { return r.chance(1, 3) ? new C : new C((usize)r.range(1, 40)); } static It find(C& c, long k) { return c.find(RE(k)); }
  static It add(C& c, const It& at, long k, long) { return c.insert(at, RE(k)); }
  static void del(C& c, const It& it, int h, long k) { if (h == 0) c.remove(it); else if (h == 1) c.remove(RE(k)); else if (h == 2) c.removeFront(); else c.removeBack(); } };
struct TPoolMapR { typedef RE KT; typedef RNC VT; typedef PoolMap<RE, RNC> C; typedef C::Iterator It; enum { ORDER = HASHED, HASVAL = 1, POOL = 1, SWAP = 1, TREE = 0, FIND = 1, PARTS = 2, COPIES = 0, HOWS = 5 }; R_COMMON("PoolMap")
  static const void* ka(It& it) { return &it.key(); } static const void* va(It& it) { return &*it; } static long kid(It& it) { return rd(it.key().e); } static long vid(It& it) { return rd((*it).e); }
  static void self(It& it) { if ((*it).self != &*it) fail(keyOf("relocated"), "PoolMap value at %p was constructed at %p", (void*)&*it, (void*)(*it).self); }
  static C* create(Rng& r) { return r.chance(1, 3) ? new C : new C((usize)r.range(1, 40)); } static It find(C& c, long k) { return c.find(RE(k)); }
  static It add(C& c, const It& at, long k, long v) { It it = c.insert(at, RE(k)); (*it).e.id = v; return it; }
  static void del(C& c, const It& it, int h, long k) { if (h == 0) c.remove(it); else if (h == 1) c.remove(RE(k)); else if (h == 2) c.removeFront(); else if (h == 3) c.removeBack(); else { It x = it; c.remove(*x); } } };
#undef HOW1

template <class It> struct Rec { long k, v; const void* ka; const void* va; It it; long born; };

// ------------------------------------------------------------------------------------------------ world
template <class Tr> struct World {
  typedef typename Tr::C C; typedef typename Tr::It It; typedef Rec<It> R;
  C* c[2]; Vec<R> m[2]; Rng& r; long nextId; int universe; long opNo; bool sweepNow, youngBias, wipeNow; size_t maxPop; u64 fp; long removals, swaps;
  struct Nested { int what, ci; long k, v; It at, other, result; } nest;   // mode reentrant: the operation an element constructor/destructor performs on its own container
  long nestedFired;
  World(Rng& rr) : r(rr), nextId(1000), opNo(0), sweepNow(false), youngBias(false), wipeNow(false), maxPop(0), fp(0), removals(0), swaps(0), nestedFired(0) { c[0] = c[1] = 0; nest.what = 0; }
  long key() { return (long)r.below((u64)universe); }
  long fresh() { return nextId++; }
  // a key for a new entry of container ci: sequences take a fresh id, unique-key tables a key that is not stored (and not `avoid`), MultiMap any key
  long newKey(int ci, long avoid) {
    if ((int)Tr::ORDER == (int)SEQ) return fresh();
    for (int t = 0; t < 60; ++t) { long k = key(); if (k == avoid) continue; if ((int)Tr::ORDER == (int)MULTI && r.chance(1, 2)) return k;
      bool present = false; for (size_t x = 0; x < m[ci].n && !present; ++x) present = m[ci][x].k == k; if (!present) return k; }
    return 1000000 + fresh();
  }
  // enter a new entry into the ledger at the position its successor's stored iterator gives; false: the successor is not (yet) in the ledger
  bool place(int ci, It it, long k, long v) {
    It nx = it; ++nx; size_t pos = m[ci].n; if (nx != c[ci]->end()) { pos = indexOfIt(ci, nx); if (pos == m[ci].n) return false; }
    added(ci, pos, it, k, v); return true;
  }
  void op(const char* cx, const char* fmt, ...) __attribute__((format(printf, 3, 4))) {
    setctx(cx); char tmp[300]; va_list ap; va_start(ap, fmt); vsnprintf(tmp, sizeof tmp, fmt, ap); va_end(ap);
    if (hist.n > 600000) { hist.clear(); hist.add("# (older operations dropped; replay by seed and case number)\n"); }
    hist.add(tmp); hist.add("\n"); setItem("op_classes", cx); ++opNo; for (const char* p = tmp; *p; ++p) fp = mix(fp, (u64)(unsigned char)*p);
  }
  // a new entry designated by iterator `it` now sits at position pos of container ci
  void added(int ci, size_t pos, It it, long k, long v) {
    R rec; rec.k = k; rec.v = v; rec.it = it; rec.ka = Tr::ka(it); rec.va = Tr::va(it); rec.born = opNo;
    if (Tr::kid(it) != k || (Tr::HASVAL && Tr::vid(it) != v)) fail(keyOf("returned"), "the iterator returned by the insertion designates (%ld,%ld), inserted (%ld,%ld)", Tr::kid(it), Tr::vid(it), k, v);
    Tr::self(it);
    m[ci].insert(pos, rec); cnt("entries_tracked");
    size_t pop = m[0].n + m[1].n; if (pop > maxPop) maxPop = pop;
  }
  void dropped(int ci, size_t idx) { statMax("max_ops_survived", opNo - m[ci][idx].born); m[ci].removeAt(idx); ++removals; }
  // victim of a removal: uniformly random, or (youngBias) the youngest of four candidates so that old entries live through very many operations
  size_t pickVictim(int ci) { size_t n = m[ci].n, idx = r.below(n); if (youngBias) for (int t = 0; t < 3; ++t) { size_t j = r.below(n); if (m[ci][j].born > m[ci][idx].born) idx = j; } return idx; }
  size_t indexOfIt(int ci, const It& it) { for (size_t i = 0; i < m[ci].n; ++i) if (m[ci][i].it == it) return i; return m[ci].n; }

  void checkRec(int ci, size_t idx) {
    R& rec = m[ci][idx]; It it = rec.it; C& cc = *c[ci];
    const void* ka = Tr::ka(it); const void* va = Tr::va(it);
    if (ka != rec.ka || va != rec.va) fail(keyOf("moved"), "entry (%ld,%ld): stored iterator now designates %p/%p, recorded at insertion %p/%p", rec.k, rec.v, ka, va, rec.ka, rec.va);
    long k = Tr::kid(it), v = Tr::HASVAL ? Tr::vid(it) : 0;
    if (k != rec.k || (Tr::HASVAL && v != rec.v)) fail(keyOf("identity"), "the element at the recorded address of entry (%ld,%ld) now is (%ld,%ld)", rec.k, rec.v, k, v);
    Tr::self(it); ++g_addrChecks;
    It nx = it; ++nx; if (idx + 1 < m[ci].n ? nx != m[ci][idx + 1].it : nx != cc.end()) fail(keyOf("iterator"), "++ on the stored iterator of entry (%ld,%ld) does not reach its successor", rec.k, rec.v);
    if (idx > 0) { It pv = it; --pv; if (pv != m[ci][idx - 1].it) fail(keyOf("iterator"), "-- on the stored iterator of entry (%ld,%ld) does not reach its predecessor", rec.k, rec.v); }
    else if (cc.begin() != it) fail(keyOf("iterator"), "begin() is not the stored iterator of the first entry (%ld,%ld)", rec.k, rec.v);
    ++g_iterChecks;
    lookup(ci, idx);
  }
  void lookup(int ci, size_t idx);
  void around(int ci, size_t pos) { size_t n = m[ci].n; if (!n) return; size_t lo = pos > 2 ? pos - 2 : 0, hi = pos + 2 < n ? pos + 2 : n - 1; for (size_t i = lo; i <= hi; ++i) checkRec(ci, i); }
  void sweep(int ci) {
    C& cc = *c[ci]; Vec<R>& mm = m[ci];
    if ((size_t)cc.size() != mm.n) fail(keyOf("content"), "c%d: size() = %lu, %lu entries are tracked", ci, (unsigned long)cc.size(), (unsigned long)mm.n);
    size_t i = 0;
    for (It it = cc.begin(), e = cc.end(); it != e; ++it, ++i) {
      if (i >= mm.n) fail(keyOf("content"), "c%d: iteration yields more than the %lu tracked entries", ci, (unsigned long)mm.n);
      if (it != mm[i].it) fail(keyOf("iterator"), "c%d: position %lu is not designated by the iterator recorded for entry (%ld,%ld)", ci, (unsigned long)i, mm[i].k, mm[i].v);
      It x = it; const void* ka = Tr::ka(x); const void* va = Tr::va(x);
      if (ka != mm[i].ka || va != mm[i].va) fail(keyOf("moved"), "c%d: entry (%ld,%ld) at position %lu lives at %p/%p, recorded at insertion %p/%p", ci, mm[i].k, mm[i].v, (unsigned long)i, ka, va, mm[i].ka, mm[i].va);
      if (Tr::kid(x) != mm[i].k || (Tr::HASVAL && Tr::vid(x) != mm[i].v)) fail(keyOf("identity"), "c%d: position %lu holds (%ld,%ld), tracked entry is (%ld,%ld)", ci, (unsigned long)i, Tr::kid(x), Tr::vid(x), mm[i].k, mm[i].v);
      Tr::self(x);
    }
    if (i != mm.n) fail(keyOf("content"), "c%d: iteration yields %lu entries, %lu are tracked", ci, (unsigned long)i, (unsigned long)mm.n);
    if (mm.n) { It last = cc.end(); --last; if (last != mm[mm.n - 1].it) fail(keyOf("iterator"), "c%d: --end() is not the stored iterator of the last entry", ci); }
    ++g_sweeps; g_sweepEntries += (long)mm.n; g_addrChecks += (long)mm.n;
  }
  void afterOp(int ci, size_t pos, bool inserting, long copiesBefore) {
    around(ci, pos);
    for (int s = 0; s < 3; ++s) { int cj = (int)r.below(2); if (m[cj].n) checkRec(cj, r.below(m[cj].n)); }
    bool copied = !inserting && ElemReg::copyCount() != copiesBefore;
    if (copied) cnt("sweeps_triggered_by_copies");
    size_t pop = m[0].n + m[1].n;
    if (sweepNow || copied || pop <= 24 || opNo % 37 == 0) { sweep(0); sweep(1); sweepNow = false; }
  }
};

// find(key) through the public API must lead to the stored iterator
// (primary template: the traits of mode reentrant, which bring their own find; the seven plain traits are specialised below)
template <class Tr> void World<Tr>::lookup(int ci, size_t idx) {
  if (!Tr::FIND) return;
  R& rec = m[ci][idx]; It f = Tr::find(*c[ci], rec.k);
  if ((int)Tr::ORDER == (int)MULTI) { size_t at = indexOfIt(ci, f); if (at == m[ci].n || m[ci][at].k != rec.k) fail(keyOf("lookup"), "find(%ld) returns an iterator that designates no tracked entry with that key", rec.k); }
  else if (f != rec.it) fail(keyOf("lookup"), "find(%ld) does not return the stored iterator", rec.k);
  ++g_lookups;
}
template <> void World<TList>::lookup(int ci, size_t idx) { if (opNo % 8) return; R& rec = m[ci][idx]; size_t first = 0; while (m[ci][first].k != rec.k) ++first;   // bulk insertions can store equal ids: find returns the first
  It f = c[ci]->find(Elem(rec.k)); if (f != m[ci][first].it) fail(keyOf("lookup"), "find(%ld) does not return the stored iterator of the first element with that id", rec.k); ++g_lookups; }
template <> void World<TMap>::lookup(int ci, size_t idx) { R& rec = m[ci][idx]; It f = c[ci]->find(Elem(rec.k)); if (f != rec.it) fail(keyOf("lookup"), "find(%ld) does not return the stored iterator", rec.k); ++g_lookups; }
template <> void World<TMultiMap>::lookup(int ci, size_t idx) { R& rec = m[ci][idx]; It f = c[ci]->find(Elem(rec.k)); if (f == c[ci]->end()) fail(keyOf("lookup"), "find(%ld) returns end() for a tracked key", rec.k);
  size_t at = indexOfIt(ci, f); if (at == m[ci].n || m[ci][at].k != rec.k) fail(keyOf("lookup"), "find(%ld) returns an iterator that designates no tracked entry with that key", rec.k); ++g_lookups; }
template <> void World<THashMap>::lookup(int ci, size_t idx) { R& rec = m[ci][idx]; It f = c[ci]->find(Elem(rec.k)); if (f != rec.it) fail(keyOf("lookup"), "find(%ld) does not return the stored iterator", rec.k); ++g_lookups; }
template <> void World<THashSet>::lookup(int ci, size_t idx) { R& rec = m[ci][idx]; It f = c[ci]->find(Elem(rec.k)); if (f != rec.it) fail(keyOf("lookup"), "find(%ld) does not return the stored iterator", rec.k); ++g_lookups; }
template <> void World<TPoolList>::lookup(int, size_t) {}
template <> void World<TPoolMap>::lookup(int ci, size_t idx) { R& rec = m[ci][idx]; It f = c[ci]->find(Elem(rec.k)); if (f != rec.it) fail(keyOf("lookup"), "find(%ld) does not return the stored iterator", rec.k); ++g_lookups; }

// structural evidence (private members, no verdict): block allocations, free-slot reuse, root changes
#ifndef VERIF_NO_PRIVATE
template <class C> struct Sig { const void* blocks; const void* freeItem; const void* root; };
template <class C> static const void* rootOf(C&) { return 0; }
static const void* rootOf(Map<Elem, Elem>& c) { return c.root; }
static const void* rootOf(MultiMap<Elem, Elem>& c) { return c.root; }
template <class C> static Sig<C> sigOf(C& c) { Sig<C> s; s.blocks = c.blocks; s.freeItem = c.freeItem; s.root = rootOf(c); return s; }
template <class C> static void noteInsert(C& c, const Sig<C>& b, bool isNew) {
  if (!isNew) return;
  if (c.blocks != b.blocks) cnt("block_allocations"); else if (b.freeItem) cnt("free_slot_reuses");
  if (rootOf(c) != b.root) cnt("root_changes");
}
template <class C> static void noteRemove(C& c, const Sig<C>& b) { if (rootOf(c) != b.root) cnt("root_changes"); }
#else   // public API only: nothing to observe
template <class C> struct Sig {};
template <class C> static Sig<C> sigOf(C&) { return Sig<C>(); }
template <class C> static void noteInsert(C&, const Sig<C>&, bool) {}
template <class C> static void noteRemove(C&, const Sig<C>&) {}
#endif

// position bookkeeping for the keyed orders
template <class R> static size_t lowerBound(const Vec<R>& m, long k) { size_t i = 0; while (i < m.n && m[i].k < k) ++i; return i; }
template <class R> static size_t upperBound(const Vec<R>& m, long k) { size_t i = 0; while (i < m.n && m[i].k <= k) ++i; return i; }
template <class R> static size_t findKey(const Vec<R>& m, long k) { for (size_t i = 0; i < m.n; ++i) if (m[i].k == k) return i; return m.n; }

// ------------------------------------------------------------------------------------------------ common operations
template <class Tr> static void opClear(World<Tr>& w, int i, const char* cx) {
  long g0 = Tr::POOL ? NC::gone + NCV::gone : 0; size_t n = w.m[i].n;
  w.op(cx, "c%d.clear()", i); w.c[i]->clear(); while (w.m[i].n) w.dropped(i, w.m[i].n - 1); w.sweepNow = true;
  if (Tr::POOL && NC::gone + NCV::gone - g0 != (long)n) fail(keyOf("destructions"), "clear() of %lu entries destroyed %ld stored objects", (unsigned long)n, NC::gone + NCV::gone - g0);
}
template <class Tr> static void opRecreate(World<Tr>& w, int i, const char* cx) {
  w.op(cx, "delete c%d; c%d = new", i, i); delete w.c[i]; w.c[i] = Tr::create(w.r); while (w.m[i].n) w.dropped(i, w.m[i].n - 1); w.sweepNow = true;
}
template <class Tr> static void opSwap(World<Tr>& w, int i, const char* cxOther, const char* cxSelf) {
  long made = NC::made + NCV::made, gone = NC::gone + NCV::gone, ctors = ElemReg::ctorCount(), dtors = ElemReg::dtorCount();
  if (w.r.chance(1, 6)) { w.op(cxSelf, "c%d.swap(c%d)", i, i); w.c[i]->swap(*w.c[i]); }
  else { w.op(cxOther, "c%d.swap(c%d)", i, 1 - i); w.c[i]->swap(*w.c[1 - i]); w.m[0].swap(w.m[1]); }
  // swap hands the elements over: nothing is constructed, destroyed or copied
  if (ElemReg::ctorCount() != ctors || ElemReg::dtorCount() != dtors || NC::made + NCV::made != made || NC::gone + NCV::gone != gone)
    fail(keyOf("relocated"), "swap constructed %ld and destroyed %ld tracked elements; it must hand the elements over without relocating them", ElemReg::ctorCount() - ctors, ElemReg::dtorCount() - dtors);
  ++w.swaps; cnt("swaps"); cnt("entries_handed_over_by_swap", (long)(w.m[0].n + w.m[1].n)); w.sweepNow = true;
}
// copies of a container must leave the source's elements where they are
template <class Tr> static void opCopyFrom(World<Tr>& w, int i, const char* cxCopy, const char* cxAssign) {
  typedef typename Tr::C C; typedef typename Tr::It It;
  if (!w.wipeNow) { w.op(cxCopy, "{ copy(c%d) }", i); { C cp(*w.c[i]); if ((size_t)cp.size() != w.m[i].n) fail(keyOf("content"), "copy holds %lu of %lu entries", (unsigned long)cp.size(), (unsigned long)w.m[i].n); } }
  else { int o = 1 - i; w.op(cxAssign, "c%d = c%d", o, i); *w.c[o] = *w.c[i]; while (w.m[o].n) w.dropped(o, w.m[o].n - 1);
    // the target now holds fresh elements: track them too, in the order iteration yields them
    size_t pos = 0; for (It it = w.c[o]->begin(), e = w.c[o]->end(); it != e; ++it, ++pos) { It x = it; w.added(o, pos, x, Tr::kid(x), Tr::HASVAL ? Tr::vid(x) : 0); } }
  w.sweepNow = true;
}

// ------------------------------------------------------------------------------------------------ List
static void stepList(World<TList>& w, bool grow) {
  typedef List<Elem> L; typedef L::Iterator It; Rng& r = w.r; int i = (int)r.below(2), o = 1 - i; L& a = *w.c[i]; Vec<World<TList>::R>& m = w.m[i]; size_t n = m.n; long cp = ElemReg::copyCount();
  if (w.wipeNow) { int t = (int)r.below(3); if (t == 0) opClear(w, o, "List.clear/other-container"); else if (t == 1) opRecreate(w, o, "List.destructor/other-container"); else opCopyFrom(w, i, "List.copy-construct/source", "List.operator=/source"); w.afterOp(i, 0, t == 2, cp); return; }
  int kind = (int)r.below(1000);
  if (kind < 600 && (grow || n == 0)) { // insert one
    long id = w.fresh(); int where = (int)r.below(3); size_t pos = where == 0 ? n : where == 1 ? 0 : r.below(n + 1); Sig<L> s = sigOf(a);
    w.op(where == 0 ? "List.append" : where == 1 ? "List.prepend" : "List.insert", "c%d.insert(@%lu,%ld)", i, (unsigned long)pos, id);
    It it; if (where == 0) { Elem& e = a.append(Elem(id)); it = a.end(); --it; if (&e != &*it) fail(keyOf("returned"), "append returned a reference that is not the last element"); }
    else if (where == 1) { Elem& e = a.prepend(Elem(id)); it = a.begin(); if (&e != &*it) fail(keyOf("returned"), "prepend returned a reference that is not the first element"); }
    else it = a.insert(pos < n ? m[pos].it : a.end(), Elem(id));
    noteInsert(a, s, true); w.added(i, pos, it, id, 0); w.afterOp(i, pos, true, cp); return; }
  if (kind < 600) { if (!n) return; // remove one, through the iterator recorded at insertion
    size_t idx = w.pickVictim(i); int how = (int)r.below(4); if (how == 2) idx = 0; if (how == 3) idx = n - 1;
    if (how == 1) { size_t first = 0; while (m[first].k != m[idx].k) ++first; idx = first; }   // remove(value) takes the first equal element
    w.op(how == 0 ? "List.remove(iterator)" : how == 1 ? "List.remove(value)" : how == 2 ? "List.removeFront" : "List.removeBack", "c%d.remove(@%lu id %ld)", i, (unsigned long)idx, m[idx].k);
    if (how == 0) { It nx = a.remove(m[idx].it); if (idx + 1 < n ? nx != m[idx + 1].it : nx != a.end()) fail(keyOf("returned"), "remove(iterator) did not return the stored iterator of the successor"); }
    else if (how == 1) a.remove(Elem(m[idx].k)); else if (how == 2) a.removeFront(); else a.removeBack();
    w.dropped(i, idx); w.afterOp(i, idx ? idx - 1 : 0, false, cp); return; }
  if (kind < 610) { if (n + w.m[o].n > 400) return; size_t pos = r.below(n + 1); int where = (int)r.below(3); if (where == 0) pos = n; if (where == 1) pos = 0; size_t k = w.m[o].n;
    w.op(where == 0 ? "List.append(List)" : where == 1 ? "List.prepend(List)" : "List.insert(List)", "c%d.insert(@%lu, c%d)", i, (unsigned long)pos, o);
    It at = pos < n ? m[pos].it : a.end(); It first;
    if (where == 0) { a.append(*w.c[o]); first = at; for (size_t x = 0; x < k; ++x) --first; } else if (where == 1) { a.prepend(*w.c[o]); first = a.begin(); } else first = a.insert(at, *w.c[o]);
    It it = first; for (size_t x = 0; x < k; ++x, ++it) w.added(i, pos + x, it, w.m[o][x].k, 0);
    w.sweepNow = true; w.afterOp(i, pos, true, cp); return; }
  if (kind < 640) { opSwap(w, i, "List.swap/arg=other", "List.swap/arg=self"); w.afterOp(i, 0, false, cp); return; }
  if (kind < 650) { opCopyFrom(w, i, "List.copy-construct/source", "List.operator=/source"); w.afterOp(i, 0, true, cp); return; }
  if (n) { size_t idx = r.below(n); { size_t first = 0; while (m[first].k != m[idx].k) ++first; idx = first; } w.op("List.find", "c%d.find(%ld)", i, m[idx].k); It f = a.find(Elem(m[idx].k)); if (f != m[idx].it) fail(keyOf("lookup"), "find(%ld) does not return the stored iterator", m[idx].k); w.afterOp(i, idx, false, cp); }
}

// ------------------------------------------------------------------------------------------------ Map / MultiMap
template <class Tr> static void bulk(World<Tr>&, int, long) {}
template <> void bulk<TMap>(World<TMap>& w, int i, long cp) {
  typedef Map<Elem, Elem>::Iterator It; int o = 1 - i; w.op("Map.insert(Map)", "c%d.insert(c%d)", i, o); w.c[i]->insert(*w.c[o]);
  for (size_t x = 0; x < w.m[o].n; ++x) { long k = w.m[o][x].k, v = w.m[o][x].v; size_t lo = lowerBound(w.m[i], k);
    if (lo < w.m[i].n && w.m[i][lo].k == k) w.m[i][lo].v = v; else { It it = w.c[i]->find(Elem(k)); if (it == w.c[i]->end()) fail(keyOf("content"), "key %ld missing after insert(Map)", k); w.added(i, lo, it, k, v); } }
  w.sweepNow = true; w.afterOp(i, 0, true, cp);
}
template <class Tr> static void stepTree(World<Tr>& w, bool grow, const char* const* N) {
  typedef typename Tr::C C; typedef typename Tr::It It; typedef typename World<Tr>::R R; Rng& r = w.r; int i = (int)r.below(2), o = 1 - i; C& a = *w.c[i]; Vec<R>& m = w.m[i]; size_t n = m.n; long cp = ElemReg::copyCount();
  if (w.wipeNow) { int t = (int)r.below(3); if (t == 0) opClear(w, o, N[8]); else if (t == 1) opRecreate(w, o, N[9]); else opCopyFrom(w, i, N[6], N[7]); w.afterOp(i, 0, t == 2, cp); return; }
  int kind = (int)r.below(1000);
  if (kind < 600 && (grow || n == 0)) {
    long k = w.key(), v = w.fresh(); size_t lo = lowerBound(m, k), hi = upperBound(m, k); bool exists = (int)Tr::ORDER == (int)SORTED && lo != hi; int hint = (int)r.below(4); Sig<C> s = sigOf(a);
    It h = hint == 0 ? a.end() : hint == 1 && n ? m[r.below(n)].it : hint == 2 && lo < n ? m[lo].it : a.end();
    w.op(hint == 3 ? N[0] : N[1], "c%d.insert(%s%ld,%ld)%s", i, hint == 3 ? "" : "hint, ", k, v, exists ? " existing key" : "");
    It res = hint == 3 ? a.insert(Elem(k), Elem(v)) : a.insert(h, Elem(k), Elem(v));
    noteInsert(a, s, !exists);
    if (exists) { if (res != m[lo].it) fail(keyOf("returned"), "insert of existing key %ld did not return the stored iterator of that entry", k); m[lo].v = v; w.afterOp(i, lo, true, cp); return; }
    // position: directly before the stored iterator of the successor
    It nx = res; ++nx; size_t pos = nx == a.end() ? n : w.indexOfIt(i, nx);
    if (pos < lo || pos > hi) fail(keyOf("returned"), "insert(%ld) landed at position %lu outside [%lu,%lu]", k, (unsigned long)pos, (unsigned long)lo, (unsigned long)hi);
    w.added(i, pos, res, k, v); w.afterOp(i, pos, true, cp); return; }
  if (kind < 600) { if (!n) return;
    size_t idx = w.pickVictim(i); int how = (int)r.below(4); if (how == 2) idx = 0; if (how == 3) idx = n - 1; Sig<C> s = sigOf(a);
    w.op(how == 0 ? N[2] : how == 1 ? N[3] : how == 2 ? N[4] : N[5], "c%d.remove(@%lu key %ld)", i, (unsigned long)idx, m[idx].k);
    if (how == 1) { long k = m[idx].k; size_t lo = lowerBound(m, k), hi = upperBound(m, k); a.remove(Elem(k));
      // one entry with that key is gone; walk the run through the surviving stored iterators to see which
      It it = lo ? m[lo - 1].it : a.begin(); if (lo) ++it; size_t gone = hi - 1; for (size_t x = lo; x < hi; ++x) { if (it != m[x].it) { gone = x; break; } ++it; }
      idx = gone; }
    else if (how == 0) { It nx = a.remove(m[idx].it); if (idx + 1 < n ? nx != m[idx + 1].it : nx != a.end()) fail(keyOf("returned"), "remove(iterator) did not return the stored iterator of the successor"); }
    else if (how == 2) a.removeFront(); else a.removeBack();
    noteRemove(a, s); w.dropped(i, idx); w.afterOp(i, idx ? idx - 1 : 0, false, cp); return; }
  if (kind < 610) { if ((int)Tr::ORDER == (int)SORTED) bulk<Tr>(w, i, cp); return; }
  if (kind < 620) { opCopyFrom(w, i, N[6], N[7]); w.afterOp(i, 0, true, cp); return; }
  if (n) { size_t idx = r.below(n); w.op(N[10], "c%d.find(%ld)", i, m[idx].k); w.lookup(i, idx); if (!a.contains(Elem(m[idx].k))) fail(keyOf("lookup"), "contains(%ld) is false for a tracked key", m[idx].k); w.afterOp(i, idx, false, cp); }
}
static const char* const N_MAP[] = { "Map.insert", "Map.insert(hint)", "Map.remove(iterator)", "Map.remove(key)", "Map.removeFront", "Map.removeBack", "Map.copy-construct/source", "Map.operator=/source", "Map.clear/other-container", "Map.destructor/other-container", "Map.find" };
static const char* const N_MMAP[] = { "MultiMap.insert", "MultiMap.insert(hint)", "MultiMap.remove(iterator)", "MultiMap.remove(key)", "MultiMap.removeFront", "MultiMap.removeBack", "MultiMap.copy-construct/source", "MultiMap.operator=/source", "MultiMap.clear/other-container", "MultiMap.destructor/other-container", "MultiMap.find" };
static void stepMap(World<TMap>& w, bool grow) { stepTree<TMap>(w, grow, N_MAP); }
static void stepMultiMap(World<TMultiMap>& w, bool grow) { stepTree<TMultiMap>(w, grow, N_MMAP); }

// ------------------------------------------------------------------------------------------------ HashMap / HashSet / PoolMap (insertion-ordered unique keys)
static HashMap<Elem, Elem>::Iterator hIns(HashMap<Elem, Elem>& a, int where, const HashMap<Elem, Elem>::Iterator& at, long k, long v, bool exists) {
  HashMap<Elem, Elem>::Iterator it;
  if (where == 0) { Elem& e = a.append(Elem(k), Elem(v)); it = a.find(Elem(k)); if (&e != &*it) fail(keyOf("returned"), "append returned a reference that is not the stored value"); }
  else if (where == 1) { Elem& e = a.prepend(Elem(k), Elem(v)); it = a.find(Elem(k)); if (&e != &*it) fail(keyOf("returned"), "prepend returned a reference that is not the stored value"); }
  else it = a.insert(at, Elem(k), Elem(v));
  (void)exists; return it;
}
static HashSet<Elem>::Iterator hIns(HashSet<Elem>& a, int where, const HashSet<Elem>::Iterator& at, long k, long, bool) {
  if (where == 0) { a.append(Elem(k)); return a.find(Elem(k)); } if (where == 1) { a.prepend(Elem(k)); return a.find(Elem(k)); } return a.insert(at, Elem(k));
}
static PoolMap<Elem, NCV>::Iterator hIns(PoolMap<Elem, NCV>& a, int where, const PoolMap<Elem, NCV>::Iterator& at, long k, long v, bool exists) {
  long made = NCV::made; PoolMap<Elem, NCV>::Iterator it;
  if (where == 2) it = a.insert(at, Elem(k)); else { NCV& val = a.append(Elem(k)); it = a.find(Elem(k)); if (&val != &*it) fail(keyOf("returned"), "append returned a reference that is not the stored value"); }
  if (NCV::made - made != (exists ? 0 : 1)) fail(keyOf("constructions"), "append(%ld) constructed %ld values, expected %d (in place, only for a new key)", k, NCV::made - made, exists ? 0 : 1);
  if (!exists) { if ((*it).self != &*it) fail(keyOf("relocated"), "the new value was constructed at %p but is stored at %p", (void*)(*it).self, (void*)&*it); (*it).e.id = v; }
  return it;
}
template <class C> static void hRemoveValue(C&, const typename C::Iterator&) {}
static void hRemoveValue(PoolMap<Elem, NCV>& a, const PoolMap<Elem, NCV>::Iterator& it) { PoolMap<Elem, NCV>::Iterator x = it; a.remove(*x); }
template <class Tr> static void hBulk(World<Tr>&, int, long, int) {}
template <> void hBulk<THashSet>(World<THashSet>& w, int i, long cp, int which) {
  typedef HashSet<Elem>::Iterator It; int o = 1 - i;
  if (which == 0) { w.op("HashSet.append(HashSet)", "c%d.append(c%d)", i, o); w.c[i]->append(*w.c[o]);
    for (size_t x = 0; x < w.m[o].n; ++x) { long k = w.m[o][x].k; if (findKey(w.m[i], k) == w.m[i].n) { It it = w.c[i]->find(Elem(k)); if (it == w.c[i]->end()) fail(keyOf("content"), "key %ld missing after append(HashSet)", k); w.added(i, w.m[i].n, it, k, 0); } } }
  else { w.op("HashSet.remove(HashSet)", "c%d.remove(c%d)", i, o); w.c[i]->remove(*w.c[o]); for (size_t x = 0; x < w.m[o].n; ++x) { size_t f = findKey(w.m[i], w.m[o][x].k); if (f < w.m[i].n) w.dropped(i, f); } }
  w.sweepNow = true; w.afterOp(i, 0, which == 0, cp);
}
template <class Tr> static void stepHash(World<Tr>& w, bool grow, const char* const* N) {
  typedef typename Tr::C C; typedef typename Tr::It It; typedef typename World<Tr>::R R; Rng& r = w.r; int i = (int)r.below(2), o = 1 - i; C& a = *w.c[i]; Vec<R>& m = w.m[i]; size_t n = m.n; long cp = ElemReg::copyCount();
  if (w.wipeNow) { int t = (int)r.below(N[10] ? 3 : 2); if (t == 0) opClear(w, o, N[12]); else if (t == 1) opRecreate(w, o, N[13]); else { if constexpr (!Tr::POOL) opCopyFrom(w, i, N[10], N[11]); } w.afterOp(i, 0, t == 2, cp); return; }
  int kind = (int)r.below(1000);
  if (kind < 600 && (grow || n == 0)) {
    long k = w.key(), v = w.fresh(); size_t f = findKey(m, k); bool exists = f < n; int where = (int)r.below(3); size_t pos = where == 0 ? n : where == 1 ? 0 : r.below(n + 1); Sig<C> s = sigOf(a);
    w.op(where == 0 ? N[0] : where == 1 && N[1] ? N[1] : N[2], "c%d.insert(@%lu,%ld,%ld)%s", i, (unsigned long)pos, k, v, exists ? " existing key" : "");
    if (where == 1 && !N[1]) { where = 2; }   // PoolMap has no prepend: insert(begin, key)
    long g0 = NC::gone + NCV::gone;
    It it = hIns(a, where, pos < n ? m[pos].it : a.end(), k, v, exists);
    if (Tr::POOL && NC::gone + NCV::gone != g0) fail(keyOf("destructions"), "an insertion destroyed %ld stored objects", NC::gone + NCV::gone - g0);
    noteInsert(a, s, !exists);
    if (exists) { if (it != m[f].it) fail(keyOf("returned"), "insertion of existing key %ld did not lead to the stored iterator of that entry", k); if ((int)Tr::HASVAL && !Tr::POOL) m[f].v = v; w.afterOp(i, f, true, cp); return; }
    w.added(i, pos, it, k, v); w.afterOp(i, pos, true, cp); return; }
  if (kind < 600) { if (!n) return;
    size_t idx = w.pickVictim(i); int how = (int)r.below(5); if (how == 2) idx = 0; if (how == 3) idx = n - 1; if (how == 4 && !N[7]) how = 0;
    w.op(how == 0 ? N[3] : how == 1 ? N[4] : how == 2 ? N[5] : how == 3 ? N[6] : N[7], "c%d.remove(@%lu key %ld)", i, (unsigned long)idx, m[idx].k);
    long g0 = NC::gone + NCV::gone, m0 = NC::made + NCV::made;
    if (how == 0) { It nx = a.remove(m[idx].it); if (idx + 1 < n ? nx != m[idx + 1].it : nx != a.end()) fail(keyOf("returned"), "remove(iterator) did not return the stored iterator of the successor"); }
    else if (how == 1) a.remove(Elem(m[idx].k)); else if (how == 2) a.removeFront(); else if (how == 3) a.removeBack(); else hRemoveValue(a, m[idx].it);
    if (Tr::POOL && (NC::gone + NCV::gone - g0 != 1 || NC::made + NCV::made != m0)) fail(keyOf("destructions"), "a removal destroyed %ld and constructed %ld stored objects, expected 1 and 0", NC::gone + NCV::gone - g0, NC::made + NCV::made - m0);
    w.dropped(i, idx); w.afterOp(i, idx ? idx - 1 : 0, false, cp); return; }
  if (kind < 630) { opSwap(w, i, N[8], N[9]); w.afterOp(i, 0, false, cp); return; }
  if (kind < 640) { if constexpr (!Tr::POOL) { opCopyFrom(w, i, N[10], N[11]); w.afterOp(i, 0, true, cp); } return; }
  if (kind < 653) { if (N[15]) hBulk<Tr>(w, i, cp, (int)r.below(3) == 0); return; }
  if (n) { size_t idx = r.below(n); w.op(N[14], "c%d.find(%ld)", i, m[idx].k); w.lookup(i, idx); if (!a.contains(Elem(m[idx].k))) fail(keyOf("lookup"), "contains(%ld) is false for a tracked key", m[idx].k); w.afterOp(i, idx, false, cp); }
}
static const char* const N_HMAP[] = { "HashMap.append", "HashMap.prepend", "HashMap.insert", "HashMap.remove(iterator)", "HashMap.remove(key)", "HashMap.removeFront", "HashMap.removeBack", 0, "HashMap.swap/arg=other", "HashMap.swap/arg=self",
  "HashMap.copy-construct/source", "HashMap.operator=/source", "HashMap.clear/other-container", "HashMap.destructor/other-container", "HashMap.find", 0 };
static const char* const N_HSET[] = { "HashSet.append", "HashSet.prepend", "HashSet.insert", "HashSet.remove(iterator)", "HashSet.remove(key)", "HashSet.removeFront", "HashSet.removeBack", 0, "HashSet.swap/arg=other", "HashSet.swap/arg=self",
  "HashSet.copy-construct/source", "HashSet.operator=/source", "HashSet.clear/other-container", "HashSet.destructor/other-container", "HashSet.find", "bulk" };
static const char* const N_PMAP[] = { "PoolMap.append", 0, "PoolMap.insert", "PoolMap.remove(iterator)", "PoolMap.remove(key)", "PoolMap.removeFront", "PoolMap.removeBack", "PoolMap.remove(value)", "PoolMap.swap/arg=other", "PoolMap.swap/arg=self",
  0, 0, "PoolMap.clear/other-container", "PoolMap.destructor/other-container", "PoolMap.find", 0 };
static void stepHashMap(World<THashMap>& w, bool grow) { stepHash<THashMap>(w, grow, N_HMAP); }
static void stepHashSet(World<THashSet>& w, bool grow) { stepHash<THashSet>(w, grow, N_HSET); }
static void stepPoolMap(World<TPoolMap>& w, bool grow) { stepHash<TPoolMap>(w, grow, N_PMAP); }

// ------------------------------------------------------------------------------------------------ PoolList
static void stepPoolList(World<TPoolList>& w, bool grow) {
  typedef PoolList<NC> P; typedef P::Iterator It; Rng& r = w.r; int i = (int)r.below(2), o = 1 - i; P& a = *w.c[i]; Vec<World<TPoolList>::R>& m = w.m[i]; size_t n = m.n; long cp = ElemReg::copyCount();
  if (w.wipeNow) { if (r.chance(1, 2)) opClear(w, o, "PoolList.clear/other-container"); else opRecreate(w, o, "PoolList.destructor/other-container"); w.afterOp(i, 0, false, cp); return; }
  int kind = (int)r.below(1000);
  if (kind < 600 && (grow || n == 0)) {
    long id = w.fresh(); int na = (int)r.below(8); Sig<P> s = sigOf(a); static const char* const names[] = { "PoolList.append/0-args", "PoolList.append/1-arg", "PoolList.append/2-args", "PoolList.append/3-args", "PoolList.append/4-args", "PoolList.append/5-args", "PoolList.append/6-args", "PoolList.append/7-args" };
    w.op(names[na], "c%d.append(%d args, id %ld)", i, na, id);
    long made = NC::made, gone = NC::gone, ctors = ElemReg::ctorCount(), copies = ElemReg::copyCount(); NC* p;
    switch (na) { case 0: p = &a.append(); break; case 1: p = &a.append(id); break; case 2: p = &a.append(id, 1); break; case 3: p = &a.append(id, 1, 2); break; case 4: p = &a.append(id, 1, 2, 3); break;
      case 5: p = &a.append(id, 1, 2, 3, 4); break; case 6: p = &a.append(id, 1, 2, 3, 4, 5); break; default: p = &a.append(id, 1, 2, 3, 4, 5, 6); break; }
    if (NC::made - made != 1 || NC::gone != gone || ElemReg::ctorCount() - ctors != 1 || ElemReg::copyCount() != copies)
      fail(keyOf("constructions"), "append constructed %ld objects (%ld tracked elements, %ld copies) and destroyed %ld; expected exactly one construction in place", NC::made - made, ElemReg::ctorCount() - ctors, ElemReg::copyCount() - copies, NC::gone - gone);
    if (p->self != p) fail(keyOf("relocated"), "append returned %p for an object constructed at %p", (void*)p, (void*)p->self);
    if (p->nargs != na || p->sum != na * (na - 1) / 2) fail(keyOf("returned"), "the stored object was built by the %d-argument constructor with argument sum %ld, expected %d arguments", p->nargs, p->sum, na);
    if (na == 0) { p->e.id = id; }
    It it = a.end(); --it; if (&*it != p) fail(keyOf("returned"), "append returned a reference that is not the last element");
    noteInsert(a, s, true); w.added(i, n, it, id, 0); w.afterOp(i, n, true, cp); return; }
  if (kind < 600) { if (!n) return;
    size_t idx = w.pickVictim(i); int how = (int)r.below(4); if (how == 2) idx = 0; if (how == 3) idx = n - 1;
    w.op(how == 0 ? "PoolList.remove(iterator)" : how == 1 ? "PoolList.remove(value)" : how == 2 ? "PoolList.removeFront" : "PoolList.removeBack", "c%d.remove(@%lu id %ld)", i, (unsigned long)idx, m[idx].k);
    long made = NC::made, gone = NC::gone;
    if (how == 0) { It nx = a.remove(m[idx].it); if (idx + 1 < n ? nx != m[idx + 1].it : nx != a.end()) fail(keyOf("returned"), "remove(iterator) did not return the stored iterator of the successor"); }
    else if (how == 1) a.remove(*(const NC*)m[idx].ka); else if (how == 2) a.removeFront(); else a.removeBack();
    if (NC::gone - gone != 1 || NC::made != made) fail(keyOf("destructions"), "a removal destroyed %ld and constructed %ld stored objects, expected 1 and 0", NC::gone - gone, NC::made - made);
    w.dropped(i, idx); w.afterOp(i, idx ? idx - 1 : 0, false, cp); return; }
  if (kind < 630) { opSwap(w, i, "PoolList.swap/arg=other", "PoolList.swap/arg=self"); w.afterOp(i, 0, false, cp); return; }
  if (n) { size_t idx = r.below(n); w.op("PoolList.revisit", "c%d: revisit @%lu", i, (unsigned long)idx); w.afterOp(i, idx, false, cp); }
}


// ------------------------------------------------------------------------------------------------ mode reentrant: histories with nested operations
// the nested operation itself: runs inside the library call, from the destructor / copy constructor that consumed the arm; the ledger is updated by the caller afterwards
template <class Tr> static void nestedOp(void* arg) {
  World<Tr>& w = *(World<Tr>*)arg; typename World<Tr>::Nested& p = w.nest; typename Tr::C& a = *w.c[p.ci];
  if (p.what == 3) a.remove(p.other); else p.result = Tr::add(a, p.at, p.k, p.v);
}
template <class Tr> static void stepR(World<Tr>& w, bool grow) {
  typedef typename Tr::C C; typedef typename Tr::It It; typedef typename World<Tr>::R R; Rng& r = w.r; int i = (int)r.below(2), o = 1 - i; C& a = *w.c[i]; Vec<R>& m = w.m[i]; size_t n = m.n; long cp = ElemReg::copyCount();
  static char cx[160]; typename World<Tr>::Nested& p = w.nest; p.ci = i;
  if (w.wipeNow) { snprintf(cx, sizeof cx, "%s.clear/other-container", Tr::name()); w.op(cx, "c%d.clear()", o); w.c[o]->clear(); while (w.m[o].n) w.dropped(o, w.m[o].n - 1); w.sweepNow = true; w.afterOp(i, 0, false, cp); return; }
  int kind = (int)r.below(1000);
  if (kind < 600 && (grow || n == 0)) {   // insertion of a new key; in HashMap / HashSet every other time a copy constructor of the new entry inserts a second new key
    long v = w.fresh(), k = w.newKey(i, -1); size_t pos = r.chance(1, 3) ? n : r.below(n + 1); It at = pos < n ? m[pos].it : a.end();
    // Constructor re-entrancy is NOT armed (kArmCopyCtor = 0): the property does not promise it and five of the seven containers of the unchanged library
    // (List, Map, MultiMap, PoolMap, PoolList) construct in the head node of the free list before popping it, exactly what seeded change C05-B4 makes
    // HashMap do. Flagging it for HashMap/HashSet only would raise an alarm on code where the property holds. The machinery is kept for experiments.
    enum { kArmCopyCtor = 0 };
    bool nested = kArmCopyCtor && (int)Tr::COPIES > 0 && r.chance(1, 2);
    if (!nested) { snprintf(cx, sizeof cx, "%s.insert", Tr::name()); w.op(cx, "c%d.insert(@%lu,%ld,%ld)", i, (unsigned long)pos, k, v);
      It it = Tr::add(a, at, k, v); if (!w.place(i, it, k, v)) fail(keyOf("iterator"), "the successor of the new entry (%ld,%ld) is not designated by any stored iterator", k, v);
      w.afterOp(i, pos, true, cp); return; }
    int which = 1 + (int)r.below((u64)Tr::COPIES); size_t j = r.below(n + 1); p.what = 1; p.k = w.newKey(i, k); p.v = w.fresh(); p.at = j < n ? m[j].it : a.end();
    snprintf(cx, sizeof cx, "%s.insert/copy-constructor-inserts", Tr::name());
    w.op(cx, "c%d.insert(@%lu,%ld,%ld) [copy construction #%d of the new entry performs: c%d.insert(@%lu,%ld,%ld)]", i, (unsigned long)pos, k, v, which, i, (unsigned long)j, p.k, p.v);
    arm(ARM_COPY, which, nestedOp<Tr>, &w); It it = Tr::add(a, at, k, v); bool fired = disarm();
    if (fired) { ++w.nestedFired; cnt("nested_ops_from_copy_constructor"); cnt("nested_insertions"); setItem("reentrant_classes", cx);
      // both entries are stored now; the one whose successor is already in the ledger goes in first
      if (w.place(i, it, k, v)) { if (!w.place(i, p.result, p.k, p.v)) fail(keyOf("iterator"), "the successor of the entry (%ld,%ld) stored by the nested insertion is not designated by any stored iterator", p.k, p.v); }
      else if (!w.place(i, p.result, p.k, p.v) || !w.place(i, it, k, v)) fail(keyOf("iterator"), "the successors of the new entry (%ld,%ld) and of the entry (%ld,%ld) stored by the nested insertion are not designated by stored iterators", k, v, p.k, p.v); }
    else { cnt("nested_ops_not_performed"); if (!w.place(i, it, k, v)) fail(keyOf("iterator"), "the successor of the new entry (%ld,%ld) is not designated by any stored iterator", k, v); }
    w.sweepNow = true; w.afterOp(i, pos, true, cp); return; }
  if (kind < 600) { if (!n) return;   // removal through the recorded iterator; three times out of four a destructor of the dying entry works on the container
    size_t idx = w.pickVictim(i); int how = (int)r.below((u64)Tr::HOWS); if (how == 2) idx = 0; if (how == 3) idx = n - 1; long k = m[idx].k;
    if ((int)Tr::ORDER == (int)MULTI && how == 1) how = 0;   // MultiMap::remove(key) may take any entry of a run of equal keys
    int what = (int)r.below(4); if (what == 3 && n < 2) what = 1;
    if (what == 0) { snprintf(cx, sizeof cx, "%s.%s", Tr::name(), Tr::how(how)); w.op(cx, "c%d.remove(@%lu key %ld)", i, (unsigned long)idx, k);
      Tr::del(a, m[idx].it, how, k);
      w.dropped(i, idx); w.afterOp(i, idx ? idx - 1 : 0, false, cp); return; }
    int which = 1 + (int)r.below((u64)Tr::PARTS); size_t j = r.below(n + 1 - (what == 3 ? 2 : 0)); p.what = what;
    if (what == 3) { if (j >= idx) ++j; p.other = m[j].it;   // any entry but the dying one
      snprintf(cx, sizeof cx, "%s.%s/destructor-removes-other", Tr::name(), Tr::how(how));
      w.op(cx, "c%d.remove(@%lu key %ld) [destructor #%d of the dying entry performs: c%d.remove(@%lu key %ld)]", i, (unsigned long)idx, k, which, i, (unsigned long)j, m[j].k); }
    else { if (j == idx) j = n; p.at = j < n ? m[j].it : a.end(); p.k = what == 2 ? k : w.newKey(i, k); p.v = w.fresh();   // anywhere but in front of the dying entry
      snprintf(cx, sizeof cx, "%s.%s/%s", Tr::name(), Tr::how(how), what == 2 ? "destructor-reinserts-key" : "destructor-inserts");
      w.op(cx, "c%d.remove(@%lu key %ld) [destructor #%d of the dying entry performs: c%d.insert(@%lu,%ld,%ld)]", i, (unsigned long)idx, k, which, i, (unsigned long)j, p.k, p.v); }
    const char* lo = (const char*)m[idx].ka; const char* hi = lo + sizeof(typename Tr::KT);
    if (m[idx].va) { const char* vl = (const char*)m[idx].va; const char* vh_ = vl + sizeof(typename Tr::VT); if (vl < lo) lo = vl; if (vh_ > hi) hi = vh_; }
    arm(ARM_DTOR, which, nestedOp<Tr>, &w, lo, hi); Tr::del(a, m[idx].it, how, k); bool fired = disarm();
    if (!fired) { cnt("nested_ops_not_performed"); w.dropped(i, idx); }
    else { ++w.nestedFired; cnt("nested_ops_from_destructor"); setItem("reentrant_classes", cx);
      if (what == 3) { cnt("nested_removals"); if (j > idx) { w.dropped(i, j); w.dropped(i, idx); } else { w.dropped(i, idx); w.dropped(i, j); } }
      else { cnt(what == 2 ? "nested_reinsertions_of_dying_key" : "nested_insertions"); w.dropped(i, idx);
        if (!w.place(i, p.result, p.k, p.v)) fail(keyOf("iterator"), "the successor of the entry (%ld,%ld) stored by the nested insertion is not designated by any stored iterator", p.k, p.v); } }
    w.sweepNow = true; w.afterOp(i, idx ? idx - 1 : 0, what != 3, cp); return; }
  if (kind < 640) { if constexpr ((bool)Tr::SWAP) { static char cs[2][64]; snprintf(cs[0], 64, "%s.swap/arg=other", Tr::name()); snprintf(cs[1], 64, "%s.swap/arg=self", Tr::name()); opSwap(w, i, cs[0], cs[1]); w.afterOp(i, 0, false, cp); } return; }
  if (n) { size_t idx = r.below(n); snprintf(cx, sizeof cx, "%s.revisit", Tr::name()); w.op(cx, "c%d: revisit @%lu", i, (unsigned long)idx); w.afterOp(i, idx, false, cp); }
}

// ------------------------------------------------------------------------------------------------ case loop
static int g_lengthFactor = 1;
static bool g_reentrant = false;
template <class Tr> static void runCase(void (*step)(World<Tr>&, bool), u64 modeConst, long idx) {
  char dctx[64]; snprintf(dctx, sizeof dctx, "%s.destructor/end-of-case", Tr::name());
  beginCase(idx);
  Rng r(opts.seed, modeConst, (u64)idx);
  ElemReg::reset();
  World<Tr> w(r);
  // mode reentrant: shorter histories on small populations (every removal sweeps both containers)
  long nops = g_reentrant ? r.range(150, 900) : r.range(300, 3000) * g_lengthFactor;
  long hiTarget = g_reentrant ? r.range(3, 40) : r.chance(1, 4) ? r.range(4, 30) : r.range(30, 300);
  w.universe = (int)Tr::ORDER == (int)MULTI ? (int)r.range(2, (long)hiTarget / 2 + 3) : (int)(hiTarget + r.range(1, hiTarget + 8));   // unique-key tables need more keys than entries; MultiMap wants runs of equal keys
  elemHashMode = r.chance(1, 2) ? 0 : (long)r.range(2, 4);
  w.youngBias = r.chance(1, 2);
  hist.addf("# %s history%s: nops=%ld population target=%ld universe=%d hashMode=%ld youngBias=%d\n", Tr::name(), g_reentrant ? " with re-entrant elements" : "", nops, hiTarget, w.universe, elemHashMode, (int)w.youngBias);
  setctx("constructor"); w.c[0] = Tr::create(r); w.c[1] = Tr::create(r);
  long target = hiTarget; bool grow = true;
  for (long o = 0; o < nops; ++o) {
    size_t pop = w.m[0].n + w.m[1].n;
    if (grow && (long)pop >= target) { grow = false; target = r.chance(1, 3) ? 0 : r.range(0, hiTarget / 2); cnt("population_turns"); }
    else if (!grow && (long)pop <= target) { grow = true; target = r.range(hiTarget / 2 + 1, hiTarget); cnt("population_turns"); }
    w.wipeNow = r.below((u64)nops) < 4;   // about four times per history, whatever its length, one container is cleared / destroyed / assigned to: old entries of the other one live on
    step(w, r.chance(3, 4) ? grow : !grow);
  }
  setctx(dctx); w.sweep(0); w.sweep(1);
  hist.add("delete c0; delete c1\n"); delete w.c[0]; w.c[0] = 0; delete w.c[1]; w.c[1] = 0;
  ElemReg::checkBalanced(dctx);
  cnt("ops", w.opNo); statMax("max_population", (long)w.maxPop);
  if (idx % 193 == 0) sample("%.1000s", hist.c());
  if (g_reentrant) { cnt("reentrant_histories"); endCase(mix(w.fp, (u64)w.maxPop), w.nestedFired >= 4); }
  else endCase(mix(w.fp, (u64)w.maxPop), w.maxPop >= 8 && w.removals >= 8);
}
static void flushCheckCounters() { cnt("address_checks", g_addrChecks); cnt("iterator_checks", g_iterChecks); cnt("lookups", g_lookups); cnt("full_sweeps", g_sweeps); cnt("entries_in_sweeps", g_sweepEntries); }
template <class Tr> static void histories(void (*step)(World<Tr>&, bool), u64 modeConst) {
  for (long idx = opts.start; idx < opts.start + opts.cases; ++idx) if (mine(idx)) runCase<Tr>(step, modeConst, idx);
  flushCheckCounters();
}
// mode reentrant: case idx works on container type idx % 7
static void reentrantHistories() {
  g_reentrant = true;
  for (long idx = opts.start; idx < opts.start + opts.cases; ++idx) {
    if (!mine(idx)) continue;
    switch (idx % 7) {
      case 0: runCase<TListR>(stepR<TListR>, 5201, idx); break;
      case 1: runCase<TMapR>(stepR<TMapR>, 5202, idx); break;
      case 2: runCase<TMultiMapR>(stepR<TMultiMapR>, 5203, idx); break;
      case 3: runCase<THashMapR>(stepR<THashMapR>, 5204, idx); break;
      case 4: runCase<THashSetR>(stepR<THashSetR>, 5205, idx); break;
      case 5: runCase<TPoolListR>(stepR<TPoolListR>, 5206, idx); break;
      default: runCase<TPoolMapR>(stepR<TPoolMapR>, 5207, idx); break;
    }
  }
  flushCheckCounters();
}

int main(int argc, char** argv) {
  init(argc, argv, "h_stable");
  if (opts.probe) harnessBug("unknown probe %s", opts.probe);
  // mode = <type>[-long]; the history length factor is part of the mode name so that a replay (--mode M --seed S --start i --cases 1) reproduces the case
  char m[64]; snprintf(m, sizeof m, "%s", opts.mode); g_lengthFactor = 1; u64 lc = 0;
  { size_t l = strlen(m); if (l > 5 && !strcmp(m + l - 5, "-long")) { m[l - 5] = 0; g_lengthFactor = 8; lc = 100; } }
  if (!strcmp(m, "list")) histories<TList>(stepList, 5001 + lc);
  else if (!strcmp(m, "map")) histories<TMap>(stepMap, 5002 + lc);
  else if (!strcmp(m, "multimap")) histories<TMultiMap>(stepMultiMap, 5003 + lc);
  else if (!strcmp(m, "hashmap")) histories<THashMap>(stepHashMap, 5004 + lc);
  else if (!strcmp(m, "hashset")) histories<THashSet>(stepHashSet, 5005 + lc);
  else if (!strcmp(m, "poollist")) histories<TPoolList>(stepPoolList, 5006 + lc);
  else if (!strcmp(m, "poolmap")) histories<TPoolMap>(stepPoolMap, 5007 + lc);
  else if (!strcmp(m, "reentrant")) reentrantHistories();
  else harnessBug("unknown mode %s", opts.mode);
  leakCheck("containers/leak");
  finish();
  return 0;
}
