// h_doc_common.hpp - shared by h_json.cpp (C15) and h_xml.cpp (C16): byte strings, exactly-sized input blocks,
// the per-call CPU + heap-growth guard, the error-position oracle, and index -> string decoding for exhaustive enumeration.
// (own file of the C15/C16 harnesses; not one of the shared framework files)
#pragma once
#include "vh.hpp"

// ASan allocator statistics / hooks (weak: absent in non-ASan builds, then the heap cap is simply not enforced)
extern "C" size_t __sanitizer_get_current_allocated_bytes() __attribute__((weak));

namespace doc {
using namespace vh;

// ---------------------------------------------------------------- byte string with value semantics
struct Bytes {
  Vec<char> v;
  void clear() { v.clear(); }
  void add(char c) { v.push(c); }
  void add(const char* p, size_t n) { for (size_t i = 0; i < n; ++i) v.push(p[i]); }
  void adds(const char* s) { add(s, strlen(s)); }
  void add(const Bytes& o) { add(o.p(), o.size()); }
  size_t size() const { return v.n; }
  const char* p() const { return v.n ? v.d : ""; }
  char operator[](size_t i) const { return v.d[i]; }
  bool eq(const char* q, size_t n) const { return n == v.n && (n == 0 || !memcmp(v.d, q, n)); }
  bool eq(const Bytes& o) const { return eq(o.p(), o.size()); }
};

// ---------------------------------------------------------------- exactly-sized heap copy of an input (n bytes + terminator): any over-read is an ASan report
struct Exact {
  char* p; size_t n;
  Exact(const char* s, size_t len) : n(len) { p = (char*)malloc(n + 1); if (n) memcpy(p, s, n); p[n] = 0; }
  Exact(const Bytes& b) : n(b.size()) { p = (char*)malloc(n + 1); if (n) memcpy(p, b.p(), n); p[n] = 0; }
  ~Exact() { free(p); }
private:
  Exact(const Exact&); Exact& operator=(const Exact&);
};

// ---------------------------------------------------------------- per-call guard: CPU budget (vh::cpuBudget) + heap growth cap
// RLIMIT_AS cannot be used under ASan (shadow memory). Instead the ASan allocator's own malloc hook is used: while armed, every allocation
// compares __sanitizer_get_current_allocated_bytes() with the value at arming time; growth beyond the cap is a violation (the inputs are <= a few KiB).
static volatile int g_memArmed = 0;
static size_t g_memBase = 0, g_memCap = (size_t)64 << 20, g_memInput = 0;
static const char* g_memKey = "heap-cap";
static long g_hookCalls = 0;

static inline void guardOn(int seconds, const char* nonTermKey, const char* memKey, size_t inputLen) {
  cpuBudget(seconds, nonTermKey);
  if (__sanitizer_get_current_allocated_bytes) { g_memBase = __sanitizer_get_current_allocated_bytes(); g_memKey = memKey; g_memInput = inputLen; g_memArmed = 1; }
}
static inline void guardOff() { g_memArmed = 0; cpuBudget(0, 0); }

#define DOC_DEFINE_MALLOC_HOOK \
  extern "C" void __sanitizer_malloc_hook(const volatile void*, size_t) { \
    ++doc::g_hookCalls; \
    if (!doc::g_memArmed) return; \
    size_t cur = __sanitizer_get_current_allocated_bytes(); \
    if (cur > doc::g_memBase && cur - doc::g_memBase > doc::g_memCap) { \
      doc::g_memArmed = 0; \
      vh::fail(doc::g_memKey, "live heap grew by more than %lu MiB during %s on an input of %lu bytes (unbounded memory growth)", (unsigned long)(doc::g_memCap >> 20), (const char*)vh::ctx, (unsigned long)doc::g_memInput); \
    } \
  }

// ---------------------------------------------------------------- error position oracle
// line breaks: "\r\n" | "\r" | "\n" (the parsers' own convention). A reported (line, column) lies inside the text iff
// 1 <= line <= number of lines and 1 <= column <= length of that line + 1 (a character, the end of the line or the end of the text).
// returns 0 ok, 1 line outside, 2 column outside; fills lines / lineLen for the message
static inline int posInside(const char* t, size_t n, long line, long col, long& lines, long& lineLen) {
  long cur = 1; size_t ls = 0; lineLen = -1;
  for (;;) {
    size_t e = ls; while (e < n && t[e] != '\n' && t[e] != '\r') ++e;
    if (cur == line) lineLen = (long)(e - ls);
    if (e >= n) break;
    ls = (t[e] == '\r' && e + 1 < n && t[e + 1] == '\n') ? e + 2 : e + 1; ++cur;
  }
  lines = cur;
  if (line < 1 || line > lines) return 1;
  if (col < 1 || col > lineLen + 1) return 2;
  return 0;
}
static inline void checkPos(const char* t, size_t n, long line, long col, const char* keyPrefix) {
  long lines, lineLen; int rc = posInside(t, n, line, col, lines, lineLen);
  cnt("positions_checked");
  if (rc == 0) return;
  char key[200]; snprintf(key, sizeof key, "%s/error-position-outside-text", keyPrefix);
  if (rc == 1) fail(key, "failure reported at line %ld column %ld but the text has %ld line(s)", line, col, lines);
  fail(key, "failure reported at line %ld column %ld but that line is %ld byte(s) long (valid columns 1..%ld); the text has %ld line(s)", line, col, lineLen, lineLen + 1, lines);
}

// ---------------------------------------------------------------- exhaustive enumeration: idx -> string over an alphabet of A symbols, ordered by length then lexicographically
static inline long exhTotal(int A, int L) { long tot = 0, pw = 1; for (int k = 0; k <= L; ++k) { tot += pw; pw *= A; } return tot; }
static inline int exhDecode(long idx, int A, int* digits, int maxLen) {
  long rem = idx, pw = 1; int len = 0;
  while (rem >= pw) { rem -= pw; pw *= A; ++len; if (len > maxLen) return -1; }
  for (int i = len - 1; i >= 0; --i) { digits[i] = (int)(rem % A); rem /= A; }
  return len;
}

// UTF-8 encoder of the harness (independent of nstd/Unicode.hpp)
static inline void utf8(u32 cp, Bytes& out) {
  if (cp < 0x80) out.add((char)cp);
  else if (cp < 0x800) { out.add((char)(0xC0 | (cp >> 6))); out.add((char)(0x80 | (cp & 0x3F))); }
  else if (cp < 0x10000) { out.add((char)(0xE0 | (cp >> 12))); out.add((char)(0x80 | ((cp >> 6) & 0x3F))); out.add((char)(0x80 | (cp & 0x3F))); }
  else { out.add((char)(0xF0 | (cp >> 18))); out.add((char)(0x80 | ((cp >> 12) & 0x3F))); out.add((char)(0x80 | ((cp >> 6) & 0x3F))); out.add((char)(0x80 | (cp & 0x3F))); }
}

// class of a byte, used to make keys of content mismatches specific
static inline const char* byteClass(unsigned char c) {
  if (c == '\n' || c == '\r') return "linebreak";
  if (c == 0) return "nul";
  if (c < 32) return "control";
  if (c == '"') return "quote";
  if (c == '\'') return "apostrophe";
  if (c == '\\') return "backslash";
  if (c == '&') return "ampersand";
  if (c == '<' || c == '>') return "angle";
  if (c == 127) return "del";
  if (c >= 128) return "high";
  if (c == ' ') return "space";
  return "ascii";
}
// class of the first byte at which two byte strings differ (taken from the expected string; "truncated"/"extra" when one is a prefix of the other)
static inline const char* diffClass(const char* exp, size_t en, const char* got, size_t gn, size_t& at) {
  size_t i = 0; while (i < en && i < gn && exp[i] == got[i]) ++i; at = i;
  if (i < en) return byteClass((unsigned char)exp[i]);
  if (i < gn) return "extra";
  return "equal";
}

} // namespace doc
