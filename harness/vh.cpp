// vh.cpp - implementation of the common harness support (see vh.hpp)
#include "vh.hpp"
#include <sys/stat.h>
#include <sys/time.h>
#include <sys/resource.h>
#include <errno.h>
#include <dirent.h>
#include <dlfcn.h>
#include <pthread.h>

extern "C" void __sanitizer_set_death_callback(void (*cb)(void)) __attribute__((weak));
extern "C" int __lsan_do_recoverable_leak_check(void) __attribute__((weak));
extern "C" size_t __sanitizer_get_allocated_size(const volatile void* p) __attribute__((weak));
extern "C" int __sanitizer_get_ownership(const volatile void* p) __attribute__((weak));

namespace vh {

Opts opts;
Text hist;
volatile const char* ctx = "init";
char ctxbuf[256];
long curCase = -1;
static const char* g_harness = "?";
static long g_cases = 0, g_nontrivial = 0;
static int g_fpfd = -1;
static int g_samples = 0;
static bool g_finished = false;
static FILE* g_rec = 0;

// ---- counters (small open table, names compared by content)
struct Counter { char name[96]; long v; int kind; };  // kind 0 sum, 1 max
static Counter g_ctr[1024]; static int g_nctr = 0;
static Counter* findCtr(const char* name, int kind) {
  for (int i = 0; i < g_nctr; ++i) if (g_ctr[i].kind == kind && !strcmp(g_ctr[i].name, name)) return &g_ctr[i];
  if (g_nctr == 1024) return &g_ctr[1023];
  Counter* c = &g_ctr[g_nctr++]; snprintf(c->name, sizeof c->name, "%s", name); c->v = 0; c->kind = kind; return c;
}
void cnt(const char* name, long add) { findCtr(name, 0)->v += add; }
void statMax(const char* name, long v) { Counter* c = findCtr(name, 1); if (v > c->v) c->v = v; }
struct SetItem { char set[48]; char item[96]; };
static SetItem* g_items = 0; static int g_nitems = 0, g_capitems = 0;
void setItem(const char* set, const char* item) {
  for (int i = 0; i < g_nitems; ++i) if (!strcmp(g_items[i].item, item) && !strcmp(g_items[i].set, set)) return;
  if (g_nitems == g_capitems) { g_capitems = g_capitems ? g_capitems * 2 : 256; g_items = (SetItem*)realloc(g_items, g_capitems * sizeof(SetItem)); }
  snprintf(g_items[g_nitems].set, 48, "%s", set); snprintf(g_items[g_nitems].item, 96, "%s", item); ++g_nitems;
}
void sample(const char* fmt, ...) {
  if (g_samples >= 3) return; ++g_samples;
  char tmp[2000]; va_list ap; va_start(ap, fmt); vsnprintf(tmp, sizeof tmp, fmt, ap); va_end(ap);
  for (char* p = tmp; *p; ++p) if (*p == '\n') *p = ' ';
  printf("@SAMPLE %s\n", tmp);
}

void setctxf(const char* fmt, ...) { va_list ap; va_start(ap, fmt); vsnprintf(ctxbuf, sizeof ctxbuf, fmt, ap); va_end(ap); ctx = ctxbuf; }

bool excluded(const char* key) {
  const char* e = opts.exclude; if (!e || !*e) return false; size_t k = strlen(key);
  while (*e) { const char* c = strchr(e, ','); size_t len = c ? (size_t)(c - e) : strlen(e); if (len == k && !memcmp(e, key, k)) return true; if (!c) break; e = c + 1; }
  return false;
}

static void writeReplay(char* path, size_t pathsz, const char* key, const char* msg) {
  mkdir(opts.out, 0777);
  snprintf(path, pathsz, "%s/replay.%s.%ld.%d.txt", opts.out, g_harness, curCase, (int)getpid());
  int fd = open(path, O_WRONLY | O_CREAT | O_TRUNC, 0666);
  if (fd < 0) return;
  char head[1500];
  int k = snprintf(head, sizeof head, "harness=%s\nmode=%s\nseed=%llu\ncase=%ld\nexclude=%s\nkey=%s\nctx=%s\nmsg=%s\n--- history of the failing case ---\n",
                   g_harness, opts.mode, (unsigned long long)opts.seed, curCase, opts.exclude ? opts.exclude : "", key, (const char*)ctx, msg);
  if (k > 0) { if ((size_t)k > sizeof head) k = sizeof head; if (write(fd, head, (size_t)k) < 0) {} }
  if (hist.n) { if (write(fd, hist.d, hist.n) < 0) {} }
  close(fd);
}

static void dumpStats() {
  for (int i = 0; i < g_nctr; ++i) printf("@%s %s %ld\n", g_ctr[i].kind ? "MAX" : "STAT", g_ctr[i].name, g_ctr[i].v);
  for (int i = 0; i < g_nitems; ++i) printf("@SET %s %s\n", g_items[i].set, g_items[i].item);
  printf("@STAT cases %ld\n@STAT nontrivial_cases %ld\n", g_cases, g_nontrivial);
  fflush(stdout);
}

void fail(const char* key, const char* fmt, ...) {
  char msg[1200]; va_list ap; va_start(ap, fmt); vsnprintf(msg, sizeof msg, fmt, ap); va_end(ap);
  for (char* p = msg; *p; ++p) if (*p == '\n') *p = ' ';
  char path[512]; path[0] = 0; writeReplay(path, sizeof path, key, msg);
  dumpStats();
  printf("@VIOL key=%s replay=%s msg=%s\n", key, path, msg); fflush(stdout);
  g_finished = true;
  if (g_rec) fflush(g_rec);
  _exit(3);
}
void harnessBug(const char* fmt, ...) {
  char msg[1200]; va_list ap; va_start(ap, fmt); vsnprintf(msg, sizeof msg, fmt, ap); va_end(ap);
  printf("@HARNESSBUG %s (ctx=%s case=%ld)\n", msg, (const char*)ctx, curCase); fflush(stdout);
  g_finished = true;
  _exit(2);
}

// called by the sanitizer runtime just before it aborts, or by our signal handler
static volatile int g_dying = 0;
static void deathCallback() {
  if (g_dying || g_finished) return; g_dying = 1;
  char path[512]; path[0] = 0; writeReplay(path, sizeof path, "(sanitizer-or-signal)", "process died inside library code; see stderr");
  char line[900]; int k = snprintf(line, sizeof line, "\n@CTX %s\n@DEATHREPLAY %s\n", (const char*)ctx, path);
  if (k > 0) { if (write(1, line, (size_t)k) < 0) {} if (write(2, line, (size_t)k) < 0) {} }
}
static void sigHandler(int sig) {
  char line[64]; int k = snprintf(line, sizeof line, "\n@SIGNAL %d\n", sig); if (write(2, line, (size_t)k) < 0) {}
  deathCallback();
  signal(sig, SIG_DFL); raise(sig);
}

void rec(const char* fmt, ...) {
  if (!opts.rec) return; if (!g_rec) { g_rec = fopen(opts.rec, "w"); if (!g_rec) harnessBug("cannot open rec file %s", opts.rec); }
  va_list ap; va_start(ap, fmt); vfprintf(g_rec, fmt, ap); va_end(ap);
}
void recRaw(const void* p, size_t n) { if (!opts.rec) return; if (!g_rec) rec("%s", ""); fwrite(p, 1, n, g_rec); }
static const char* g_budgetKey = 0;
static void budgetHandler(int) { const char* k = g_budgetKey ? g_budgetKey : "cpu-budget"; fail(k, "CPU budget exhausted during %s (non-terminating or super-linear)", (const char*)ctx); }
void cpuBudget(int seconds, const char* key) {
  g_budgetKey = key; struct itimerval it; memset(&it, 0, sizeof it); it.it_value.tv_sec = seconds;
  if (seconds) signal(SIGVTALRM, budgetHandler);
  setitimer(ITIMER_VIRTUAL, &it, 0);
}
size_t allocSize(const void* p) { if (__sanitizer_get_allocated_size && __sanitizer_get_ownership && __sanitizer_get_ownership(p)) return __sanitizer_get_allocated_size(p); return 0; }
void leakCheck(const char* key) { if (__lsan_do_recoverable_leak_check && __lsan_do_recoverable_leak_check()) fail(key, "LeakSanitizer reported leaked memory (see stderr) at or before case %ld", curCase); }

void beginCase(long idx) { curCase = idx; hist.clear(); ctx = "case-setup"; }
void endCase(u64 fp, bool nontrivial) {
  ++g_cases;
  if (nontrivial) { ++g_nontrivial; if (g_fpfd >= 0) { if (write(g_fpfd, &fp, 8) < 0) {} } }
  ctx = "between-cases";
}

static void* dummyThread(void*) { return 0; }

void init(int argc, char** argv, const char* harnessName) {
  g_harness = harnessName;
  opts.seed = 1; opts.cases = 100; opts.start = 0; opts.mode = "default"; opts.out = "/verif/replays"; opts.exclude = ""; opts.replay = 0; opts.probe = 0; opts.scale = 1; opts.shard = 0; opts.nshards = 1; opts.rec = 0;
  for (int i = 1; i < argc; ++i) {
    const char* a = argv[i]; const char* v = i + 1 < argc ? argv[i + 1] : "";
    if (!strcmp(a, "--seed")) { opts.seed = strtoull(v, 0, 10); ++i; }
    else if (!strcmp(a, "--cases")) { opts.cases = atol(v); ++i; }
    else if (!strcmp(a, "--start")) { opts.start = atol(v); ++i; }
    else if (!strcmp(a, "--mode")) { opts.mode = v; ++i; }
    else if (!strcmp(a, "--out")) { opts.out = v; ++i; }
    else if (!strcmp(a, "--exclude")) { opts.exclude = v; ++i; }
    else if (!strcmp(a, "--probe")) { opts.probe = v; ++i; }
    else if (!strcmp(a, "--scale")) { opts.scale = atol(v); ++i; }
    else if (!strcmp(a, "--shard")) { opts.shard = atol(v); ++i; }
    else if (!strcmp(a, "--nshards")) { opts.nshards = atol(v); ++i; }
    else if (!strcmp(a, "--rec")) { opts.rec = v; ++i; }
  }
  setvbuf(stdout, 0, _IOLBF, 0);
  mkdir(opts.out, 0777);
  char p[512]; snprintf(p, sizeof p, "%s/fp.%s.%d.bin", opts.out, harnessName, (int)getpid());
  g_fpfd = open(p, O_WRONLY | O_CREAT | O_TRUNC, 0666);
  printf("@FPFILE %s\n", p);
  { // threads that exist before the workload starts belong to the sanitizer runtime (ignored by the deadlock detector).
    // TSan starts its background thread lazily with the first pthread_create, so create (and join) one dummy thread first.
    pthread_t dummy; if (pthread_create(&dummy, 0, dummyThread, 0) == 0) pthread_join(dummy, 0);
    char line[512]; int k = snprintf(line, sizeof line, "@BGTIDS"); DIR* d = opendir("/proc/self/task");
    if (d) { struct dirent* e; while ((e = readdir(d))) { int t = atoi(e->d_name); if (t > 0 && t != (int)getpid() && k < 480) k += snprintf(line + k, sizeof line - (size_t)k, " %d", t); } closedir(d); }
    printf("%s\n", line);
  }
  if (__sanitizer_set_death_callback) __sanitizer_set_death_callback(deathCallback);
  else { int sigs[] = { SIGSEGV, SIGBUS, SIGILL, SIGABRT, SIGFPE, SIGTRAP }; for (unsigned i = 0; i < sizeof sigs / sizeof *sigs; ++i) signal(sigs[i], sigHandler); }
  { // gcc links libasan and libubsan as separate shared objects, each with its own copy of the death-callback slot
    void* h = dlopen("libubsan.so.1", RTLD_NOLOAD | RTLD_NOW);
    if (h) { typedef void (*Setter)(void (*)(void)); Setter set = (Setter)dlsym(h, "__sanitizer_set_death_callback"); if (set) set(deathCallback); }
  }
  // resource guard: a runaway self-append must be a bounded, classified failure
  struct rlimit rl; rl.rlim_cur = rl.rlim_max = 7200; setrlimit(RLIMIT_CPU, &rl);
}

void finish() {
  dumpStats();
  printf("@DONE\n"); fflush(stdout);
  g_finished = true;
  if (g_fpfd >= 0) close(g_fpfd);
  if (g_rec) fclose(g_rec);
}

// ---------------------------------------------------------------- Elem registry
// open-addressing table keyed by address; value: state (1 live, 2 destroyed) and id
struct RegEnt { const void* a; long id; int st; };
static RegEnt* g_reg = 0; static size_t g_regcap = 0, g_regn = 0;
static long g_live = 0, g_ctors = 0, g_dtors = 0, g_copies = 0;
long elemCmpCount = 0; long elemHashMode = 0;
static size_t slotOf(const void* a, size_t cap) { return (size_t)(((u64)(uintptr_t)a >> 3) * 0x9e3779b97f4a7c15ULL >> 17) & (cap - 1); }
static void regGrow() {
  size_t ncap = g_regcap ? g_regcap * 2 : 4096; RegEnt* nr = (RegEnt*)calloc(ncap, sizeof(RegEnt));
  for (size_t i = 0; i < g_regcap; ++i) if (g_reg[i].a) { size_t s = slotOf(g_reg[i].a, ncap); while (nr[s].a) s = (s + 1) & (ncap - 1); nr[s] = g_reg[i]; }
  free(g_reg); g_reg = nr; g_regcap = ncap;
}
static RegEnt* regFind(const void* a, bool create) {
  if (!g_regcap || (create && g_regn * 2 >= g_regcap)) regGrow();
  size_t s = slotOf(a, g_regcap);
  while (g_reg[s].a) { if (g_reg[s].a == a) return &g_reg[s]; s = (s + 1) & (g_regcap - 1); }
  if (!create) return 0;
  g_reg[s].a = a; g_reg[s].st = 0; g_reg[s].id = 0; ++g_regn; return &g_reg[s];
}
void ElemReg::onCtor(const void* self, long id) {
  RegEnt* e = regFind(self, true);
  if (e->st == 1) fail("Elem/construct-over-live", "element constructed at %p (id %ld) over a live element (id %ld) during %s", self, id, e->id, (const char*)ctx);
  e->st = 1; e->id = id; ++g_live; ++g_ctors;
}
void ElemReg::onDtor(const void* self, long id) {
  RegEnt* e = regFind(self, false);
  if (!e || e->st != 1) fail("Elem/destroy-not-live", "destructor ran at %p (id %ld) which is %s during %s", self, id, e ? "already destroyed" : "never constructed", (const char*)ctx);
  e->st = 2; --g_live; ++g_dtors;
}
void ElemReg::onUse(const void* self, long id, const char* what) {
  RegEnt* e = regFind(self, false);
  if (!e || e->st != 1) fail("Elem/use-not-live", "%s on element at %p (id %ld) which is %s during %s", what, self, id, e ? "destroyed" : "never constructed", (const char*)ctx);
}
long ElemReg::liveCount() { return g_live; }
long ElemReg::ctorCount() { return g_ctors; }
long ElemReg::dtorCount() { return g_dtors; }
long ElemReg::copyCount() { return g_copies; }
void ElemReg::noteCopy() { ++g_copies; }
void ElemReg::reset() {
  if (g_live != 0) harnessBug("ElemReg::reset with %ld live elements", g_live);
  if (g_regcap) memset(g_reg, 0, g_regcap * sizeof(RegEnt)); g_regn = 0;
}
void ElemReg::checkBalanced(const char* keyPrefix) {
  if (g_live != 0) { char k[160]; snprintf(k, sizeof k, "%s/elements-not-destroyed", keyPrefix); fail(k, "%ld element(s) still live after all containers were destroyed (constructed %ld, destroyed %ld)", g_live, g_ctors, g_dtors); }
}

} // namespace vh
