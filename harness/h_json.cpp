// h_json.cpp - C15: Json::parse total + safe + error position inside the text; toString -> parse identity; stripComments == reference stripper
// modes: exh-a, exh-b (all strings over a small alphabet, length <= scale), gen (grammar-generated valid documents: value oracle, comment stripping
//        pipeline, every prefix), mut (mutations of valid documents), deep (nesting 1000), roundtrip (random Variant trees), strip-exh, strip-rand,
//        reuse (sequences of 2-6 texts - valid, mutated, truncated, with and without line breaks - fed to ONE Json::Parser object)
// In every mode a parse through the Json::Parser class (api 0 / 2) goes, for two thirds of the (case, parse number) pairs, through the case's long-lived
// Parser object instead of a fresh one; that object is primed with 0-3 texts derived from the case index when it is created, so that "which texts share a
// parser" is a function of the case alone (replay with --start idx --cases 1 rebuilds the same sequence). Every parse on an already used Parser is
// cross-checked against the static Json::parse of the same text: same verdict, same tree, same error line / column / message.
#include "h_doc_common.hpp"
#include <nstd/Document/Json.hpp>
#include <nstd/Error.hpp>
#include <limits.h>

using namespace vh;
using namespace doc;

DOC_DEFINE_MALLOC_HOOK

// ================================================================================================ model tree (shares nothing with libnstd)
enum { K_NULL, K_BOOL, K_INT, K_DOUBLE, K_STR, K_LIST, K_MAP };
struct MNode {
  int kind; bool b; long long i; bool as64; double d; Bytes s; Vec<MNode*> kids; Vec<Bytes> keys;
  MNode(int k) : kind(k), b(false), i(0), as64(false), d(0) {}
  ~MNode() { for (size_t j = 0; j < kids.n; ++j) delete kids[j]; }
private:
  MNode(const MNode&); MNode& operator=(const MNode&);
};
static long countNodes(const MNode* m) { long n = 1; for (size_t j = 0; j < m->kids.n; ++j) n += countNodes(m->kids[j]); return n; }
static u64 hashModel(const MNode* m) {
  u64 h = mix(17, (u64)m->kind);
  switch (m->kind) { case K_BOOL: h = mix(h, m->b); break; case K_INT: h = mix(h, (u64)m->i); break; case K_DOUBLE: { u64 x; memcpy(&x, &m->d, 8); h = mix(h, x); break; }
    case K_STR: for (size_t j = 0; j < m->s.size(); ++j) h = mix(h, (u8)m->s[j]); break; default: break; }
  for (size_t j = 0; j < m->keys.n; ++j) for (size_t k = 0; k < m->keys[j].size(); ++k) h = mix(h, (u8)m->keys[j][k]);
  for (size_t j = 0; j < m->kids.n; ++j) h = mix(h, hashModel(m->kids[j]));
  return h;
}

static Variant buildVariant(const MNode* m) {
  switch (m->kind) {
  case K_NULL: return Variant();
  case K_BOOL: return Variant(m->b);
  case K_INT: if (m->as64) return Variant((int64)m->i); return Variant((int)m->i);
  case K_DOUBLE: return Variant(m->d);
  case K_STR: return Variant(String(m->s.p(), m->s.size()));
  case K_LIST: { Variant v; List<Variant>& l = v.toList(); for (size_t j = 0; j < m->kids.n; ++j) l.append(buildVariant(m->kids[j])); return v; }
  default: { Variant v; HashMap<String, Variant>& h = v.toMap(); for (size_t j = 0; j < m->kids.n; ++j) h.append(String(m->keys[j].p(), m->keys[j].size()), buildVariant(m->kids[j])); return v; }
  }
}

static const char* typeName(int t) { static const char* n[] = { "null", "bool", "double", "int", "uint", "int64", "uint64", "map", "list", "array", "string" }; return t >= 0 && t <= 10 ? n[t] : "?"; }

// structural comparison Variant vs model: types (integers: int iff the value fits, else int64 - the parser's documented convention), order, bytes
struct Cmp {
  const char* prefix; long nodes, strBytes; char key[200];
  Cmp(const char* p) : prefix(p), nodes(0), strBytes(0) {}
  void strMismatch(const char* what, const Bytes& exp, const String& got, const char* path) {
    size_t at; const char* cls = diffClass(exp.p(), exp.size(), (const char*)got, got.length(), at);
    snprintf(key, sizeof key, "%s/string:%s/content", prefix, cls);
    Text m; m.addf("%s at %s differs at byte %lu: expected (%lu bytes) \"", what, path, (unsigned long)at, (unsigned long)exp.size()); m.addEsc(exp.p(), exp.size() > 60 ? 60 : exp.size());
    m.addf("\" got (%lu bytes) \"", (unsigned long)got.length()); m.addEsc((const char*)got, got.length() > 60 ? 60 : got.length()); m.add("\"");
    fail(key, "%s", m.c());
  }
  void go(const Variant& v, const MNode* m, Text& path) {
    ++nodes;
    int t = (int)v.getType();
    switch (m->kind) {
    case K_NULL: if (t != Variant::nullType) typeFail(t, "null", path); break;
    case K_BOOL: if (t != Variant::boolType) typeFail(t, "bool", path); if (v.toBool() != m->b) { snprintf(key, sizeof key, "%s/bool/value", prefix); fail(key, "bool at %s is %d, expected %d", path.c(), (int)v.toBool(), (int)m->b); } break;
    case K_INT: {
      bool fits = m->i >= INT_MIN && m->i <= INT_MAX;
      if (t != (fits ? Variant::intType : Variant::int64Type)) typeFail(t, fits ? "int" : "int64", path);
      if ((long long)v.toInt64() != m->i) { snprintf(key, sizeof key, "%s/integer/value", prefix); fail(key, "integer at %s is %lld, expected %lld", path.c(), (long long)v.toInt64(), m->i); }
      break; }
    case K_DOUBLE: if (t != Variant::doubleType) typeFail(t, "double", path); if (!(v.toDouble() == m->d)) { snprintf(key, sizeof key, "%s/double/value", prefix); fail(key, "double at %s is %.17g, expected %.17g", path.c(), v.toDouble(), m->d); } break;
    case K_STR: { if (t != Variant::stringType) typeFail(t, "string", path); String s = v.toString(); strBytes += (long)m->s.size(); if (!m->s.eq((const char*)s, s.length())) strMismatch("string", m->s, s, path.c()); break; }
    case K_LIST: {
      if (t != Variant::listType) typeFail(t, "list", path);
      const List<Variant>& l = v.toList();
      if (l.size() != m->kids.n) { snprintf(key, sizeof key, "%s/list/size", prefix); fail(key, "list at %s has %lu items, expected %lu", path.c(), (unsigned long)l.size(), (unsigned long)m->kids.n); }
      size_t j = 0, save = path.n;
      for (List<Variant>::Iterator it = l.begin(), e = l.end(); it != e; ++it, ++j) { if (path.n < 400) path.addf("[%lu]", (unsigned long)j); go(*it, m->kids[j], path); path.n = save; if (path.d) path.d[save] = 0; }
      break; }
    default: {
      if (t != Variant::mapType) typeFail(t, "map", path);
      const HashMap<String, Variant>& h = v.toMap();
      if (h.size() != m->kids.n) { snprintf(key, sizeof key, "%s/map/size", prefix); fail(key, "map at %s has %lu entries, expected %lu", path.c(), (unsigned long)h.size(), (unsigned long)m->kids.n); }
      size_t j = 0, save = path.n;
      for (HashMap<String, Variant>::Iterator it = h.begin(), e = h.end(); it != e; ++it, ++j) {
        const String& k = it.key(); strBytes += (long)m->keys[j].size();
        if (path.n < 400) path.addf(".#%lu", (unsigned long)j);
        if (!m->keys[j].eq((const char*)k, k.length())) strMismatch("map key", m->keys[j], k, path.c());
        go(*it, m->kids[j], path); path.n = save; if (path.d) path.d[save] = 0;
      }
      break; }
    }
  }
  void typeFail(int got, const char* exp, Text& path) { snprintf(key, sizeof key, "%s/%s/type", prefix, exp); fail(key, "value at %s has type %s, expected %s", path.c()[0] ? path.c() : "(root)", typeName(got), exp); }
};

// model of a parsed Variant (for the re-serialisation check of arbitrary accepted inputs); false if the tree is outside the statement (double, uint, array, NUL in strings)
static bool hasNul(const String& s) { return memchr((const char*)s, 0, s.length()) != 0; }
static MNode* modelOf(const Variant& v, bool& representable, bool& hasLinebreak, int depth = 0) {
  switch (v.getType()) {
  case Variant::nullType: return new MNode(K_NULL);
  case Variant::boolType: { MNode* m = new MNode(K_BOOL); m->b = v.toBool(); return m; }
  case Variant::intType: { MNode* m = new MNode(K_INT); m->i = v.toInt(); return m; }
  case Variant::int64Type: { MNode* m = new MNode(K_INT); m->i = v.toInt64(); m->as64 = true; return m; }
  case Variant::stringType: { MNode* m = new MNode(K_STR); String s = v.toString(); if (hasNul(s)) representable = false; m->s.add((const char*)s, s.length()); if (memchr(m->s.p(), '\n', m->s.size()) || memchr(m->s.p(), '\r', m->s.size())) hasLinebreak = true; return m; }
  case Variant::listType: { MNode* m = new MNode(K_LIST); const List<Variant>& l = v.toList(); for (List<Variant>::Iterator it = l.begin(), e = l.end(); it != e; ++it) m->kids.push(modelOf(*it, representable, hasLinebreak, depth + 1)); return m; }
  case Variant::mapType: { MNode* m = new MNode(K_MAP); const HashMap<String, Variant>& h = v.toMap();
      for (HashMap<String, Variant>::Iterator it = h.begin(), e = h.end(); it != e; ++it) { const String& k = it.key(); if (hasNul(k)) representable = false; Bytes kb; kb.add((const char*)k, k.length()); if (memchr(kb.p(), '\n', kb.size()) || memchr(kb.p(), '\r', kb.size())) hasLinebreak = true; m->keys.push(kb); m->kids.push(modelOf(*it, representable, hasLinebreak, depth + 1)); }
      return m; }
  default: representable = false; return new MNode(K_NULL);
  }
}

// ================================================================================================ parse under guard + oracles
static const char* K_TRUNC = "Json.parse/truncated-escape/asan:heap-buffer-overflow";
static const char* K_BSLB = "Json.parse/backslash-linebreak/error-position-outside-text";
static const char* K_RTLB = "Json.roundtrip/string:linebreak/content";
static const char* K_STAR = "Json.stripComments/star-in-block-comment/content";
static const char* K_ESC = "Json.stripComments/escape-in-string/content";
static bool xTrunc, xBslb, xRtlb, xStar, xEsc;

// input class (names the tokenizer state that matters for the key): a backslash directly before the terminator / before a line break inside a string literal
static const char* jsonClass(const char* t, size_t n, bool& trunc, bool& bslb) {
  bool inStr = false; trunc = bslb = false;
  for (size_t i = 0; i < n; ++i) {
    char c = t[i];
    if (inStr) { if (c == '\\') { if (i + 1 >= n) { trunc = true; break; } if (t[i + 1] == '\n' || t[i + 1] == '\r') bslb = true; ++i; } else if (c == '"') inStr = false; }
    else if (c == '"') inStr = true;
  }
  return trunc ? "truncated-escape" : bslb ? "backslash-linebreak" : "plain";
}

struct PResult { bool ok; int line, col; bool havePos; };

// ---------------------------------------------------------------- the long-lived Json::Parser of the current case
struct SharedParser {
  Json::Parser* p; long idx; int uses, parserApiNo; long lbSeen; int lastOk; bool force, disabled, priming, elide;
};
static SharedParser S = { 0, 0, 0, 0, 0, -1, false, false, false, false };
static void dropShared() { if (S.p) { setctx("Json.Parser.destructor/reused-parser"); delete S.p; S.p = 0; } S.uses = 0; S.lbSeen = 0; S.lastOk = -1; S.parserApiNo = 0; }
static void caseBegin(long idx) { beginCase(idx); dropShared(); S.idx = idx; }
static void caseEnd(u64 fp, bool nontrivial) { dropShared(); endCase(fp, nontrivial); }
static long countLinebreaks(const char* t, size_t n) { long k = 0; for (size_t i = 0; i < n; ++i) { if (t[i] == '\n') ++k; else if (t[i] == '\r') { ++k; if (i + 1 < n && t[i + 1] == '\n') ++i; } } return k; }

// bytewise / structural identity of two parser results (independent of Variant::operator==; doubles by bit pattern)
static bool sameTree(const Variant& a, const Variant& b, long& nodes) {
  ++nodes;
  if (a.getType() != b.getType()) return false;
  switch (a.getType()) {
  case Variant::nullType: return true;
  case Variant::boolType: return a.toBool() == b.toBool();
  case Variant::doubleType: { double x = a.toDouble(), y = b.toDouble(); return memcmp(&x, &y, sizeof x) == 0; }
  case Variant::intType: return a.toInt() == b.toInt();
  case Variant::uintType: return a.toUInt() == b.toUInt();
  case Variant::int64Type: return a.toInt64() == b.toInt64();
  case Variant::uint64Type: return a.toUInt64() == b.toUInt64();
  case Variant::stringType: { String x = a.toString(), y = b.toString(); return x.length() == y.length() && memcmp((const char*)x, (const char*)y, x.length()) == 0; }
  case Variant::listType: {
    const List<Variant>& x = a.toList(); const List<Variant>& y = b.toList(); if (x.size() != y.size()) return false;
    List<Variant>::Iterator i = x.begin(), j = y.begin();
    for (List<Variant>::Iterator e = x.end(); i != e; ++i, ++j) if (!sameTree(*i, *j, nodes)) return false;
    return true; }
  case Variant::mapType: {
    const HashMap<String, Variant>& x = a.toMap(); const HashMap<String, Variant>& y = b.toMap(); if (x.size() != y.size()) return false;
    HashMap<String, Variant>::Iterator i = x.begin(), j = y.begin();
    for (HashMap<String, Variant>::Iterator e = x.end(); i != e; ++i, ++j) {
      const String& kx = i.key(); const String& ky = j.key();
      if (kx.length() != ky.length() || memcmp((const char*)kx, (const char*)ky, kx.length()) != 0) return false;
      if (!sameTree(*i, *j, nodes)) return false;
    }
    return true; }
  default: {
    const Array<Variant>& x = a.toArray(); const Array<Variant>& y = b.toArray(); if (x.size() != y.size()) return false;
    for (usize i = 0; i < x.size(); ++i) if (!sameTree(x[i], y[i], nodes)) return false;
    return true; }
  }
}

static PResult parseGuarded(const char* text, size_t n, int api, Variant& out, const char* what);

// texts a freshly created long-lived parser is primed with (short: the exhaustive modes pay for them on a third of their cases)
static const char* primers[] = {
  "{\n  \"a\": [\n    1,\n    2\n  ],\n  \"b\": null\n}\n", "[1,\n2,\n}", "\r\n\r\n[]", "\"line1\nline2\rline3\r\nline4\"", "\n\n\n\n\n\n\n\n",
  "[\"a\",\r\"b\"\r,]", "{\"k\":\n\"unterminated", "", "1", "[true,false]", "{\"a\":1}x", "nul", "\t\n \r\n{\"x\":{\"y\":[\n]}}\n\n", "[\n[\n[\n",
  "\"\\u12\n\"", "{\"a\"\n\n1}",
};
static const int NPRIMERS = (int)(sizeof primers / sizeof *primers);
static void primeShared() {
  u64 mh = 1520; for (const char* m = opts.mode; *m; ++m) mh = mix(mh, (u8)*m);   // per mode: the same index gets different primers in different modes
  Rng pr(opts.seed, mh, (u64)S.idx);
  int k = (int)pr.below(4);
  bool f = S.force; S.force = true; S.priming = true;
  for (int i = 0; i < k; ++i) { const char* t = primers[pr.below(NPRIMERS)]; Variant o; parseGuarded(t, strlen(t), pr.chance(1, 2) ? 0 : 2, o, "prime"); cnt("primer_parses"); }
  S.force = f; S.priming = false;
}

// a parse on an already used Parser object must be indistinguishable from the static Json::parse of the same text
static void crossCheckReused(const Exact& e, const char* cls, bool ok, const Variant& out, int line, int col, const String& msg) {
  char keyNT[160], keyMem[160];
  snprintf(keyNT, sizeof keyNT, "Json.parse/%s/nonterminating", cls); snprintf(keyMem, sizeof keyMem, "Json.parse/%s/memory-growth", cls);
  Variant ref; bool ok2;
  { String s; s.attach(e.p, e.n);
    guardOn(5, keyNT, keyMem, e.n);
    ok2 = (S.uses & 1) ? Json::parse((const char*)e.p, ref) : Json::parse(s, ref);
    guardOff(); }
  setctx("Json.Parser.parse/reused-parser/compare");
  cnt("reused_parser_crosschecks");
  if (ok2 != ok) fail("Json.Parser.parse/reused-parser/verdict-differs-from-static-parse", "a Json::Parser object already used for %d text(s) %s a text that the static Json::parse %s", S.uses, ok ? "accepts" : "rejects", ok2 ? "accepts" : "rejects");
  if (ok) {
    long nodes = 0;
    if (!sameTree(out, ref, nodes)) fail("Json.Parser.parse/reused-parser/value-differs-from-static-parse", "a Json::Parser object already used for %d text(s) yields a different tree than the static Json::parse of the same text", S.uses);
    cnt("reused_parser_nodes_compared", nodes);
    return;
  }
  String es = Error::getErrorString(); int l2 = 0, c2 = 0;
  if (sscanf((const char*)es, "Syntax error at line %d, column %d", &l2, &c2) != 2) { cnt("error_string_unparsed"); return; }
  long lines, lineLen; posInside(e.p, e.n, line, col, lines, lineLen);
  if (l2 != line) fail("Json.Parser.parse/reused-parser/error-line-differs-from-static-parse", "a Json::Parser object already used for %d text(s) containing %ld line break(s) reports the failure at line %d column %d; the static Json::parse of the same text reports line %d column %d; the text has %ld line(s)", S.uses, S.lbSeen, line, col, l2, c2, lines);
  if (c2 != col) fail("Json.Parser.parse/reused-parser/error-column-differs-from-static-parse", "a Json::Parser object already used for %d text(s) reports the failure at line %d column %d; the static Json::parse of the same text reports line %d column %d", S.uses, line, col, l2, c2);
  Text exp; exp.addf("Syntax error at line %d, column %d: ", line, col); size_t pre = exp.n;
  if (es.length() < pre || es.length() - pre != msg.length() || memcmp((const char*)es + pre, (const char*)msg, msg.length()) != 0)
    fail("Json.Parser.parse/reused-parser/error-message-differs-from-static-parse", "a Json::Parser object already used for %d text(s): getErrorString() is \"%.80s\" but the static Json::parse of the same text reports \"%.120s\"", S.uses, (const char*)msg, (const char*)es);
  cnt("reused_parser_positions_compared");
}

// parses text (n bytes) from an exactly-sized heap block through one of the four public entry points; checks termination, heap growth and the failure position
static PResult parseGuarded(const char* text, size_t n, int api, Variant& out, const char* what) {
  PResult r; r.ok = false; r.line = r.col = 0; r.havePos = false;
  bool fTrunc, fBslb; const char* cls = jsonClass(text, n, fTrunc, fBslb);
  if (xTrunc && fTrunc) { cnt("skipped_excluded_inputs"); r.ok = false; r.havePos = false; r.line = -1; return r; }
  // which Parser object: a fresh one, or the long-lived one of this case (function of the case index and the number of Parser-API parses so far)
  bool shared = false;
  if ((api == 0 || api == 2) && !S.disabled) { shared = S.force || (S.idx + S.parserApiNo) % 3 != 0; if (!S.priming) ++S.parserApiNo; }
  if (shared && !S.p) { setctx("Json.Parser.constructor"); S.p = new Json::Parser; if (!S.force) primeShared(); }
  char tag[64]; tag[0] = 0; if (shared) snprintf(tag, sizeof tag, " (long-lived Parser, its text #%d)", S.uses + 1);
  if (!strcmp(what, "prefix")) hist.addf("prefix api=%d%s: the first %lu bytes of the document above\n", api, tag, (unsigned long)n);
  else if (S.elide && n > 400) { hist.addf("%s api=%d%s len=%lu \"", what, api, tag, (unsigned long)n); hist.addEsc(text, 200); hist.add("\"... (elided: regenerate from the header line)\n"); }
  else { hist.addf("%s api=%d%s len=%lu \"", what, api, tag, (unsigned long)n); hist.addEsc(text, n); hist.add("\"\n"); }
  Exact e(text, n);
  char keyNT[160], keyMem[160], prefix[120];
  snprintf(prefix, sizeof prefix, "Json.parse/%s", cls);
  snprintf(keyNT, sizeof keyNT, "%s/nonterminating", prefix); snprintf(keyMem, sizeof keyMem, "%s/memory-growth", prefix);
  setctxf("Json.parse/%s", cls);
  String errStr;
  {
    Json::Parser fresh;
    Json::Parser& parser = shared ? *S.p : fresh;
    guardOn(5, keyNT, keyMem, n);
    switch (api) {
    case 0: r.ok = parser.parse((const char*)e.p, out); break;
    case 1: r.ok = Json::parse((const char*)e.p, out); break;
    case 2: { String s; s.attach(e.p, e.n); r.ok = parser.parse(s, out); break; }
    default: { String s; s.attach(e.p, e.n); r.ok = Json::parse(s, out); break; }
    }
    guardOff();
    if (!r.ok) {
      if (api == 0 || api == 2) { r.line = parser.getErrorLine(); r.col = parser.getErrorColumn(); r.havePos = true; errStr = parser.getErrorString(); }
      else { errStr = Error::getErrorString(); int l = 0, c = 0; if (sscanf((const char*)errStr, "Syntax error at line %d, column %d", &l, &c) == 2) { r.line = l; r.col = c; r.havePos = true; } else cnt("error_string_unparsed"); }
    }
  }
  if (memcmp(e.p, text, n) != 0 || e.p[n] != 0) { char k[160]; snprintf(k, sizeof k, "%s/input-modified", prefix); fail(k, "the parser wrote into the caller's text"); }
  if (shared) {
    if (S.uses >= 1) {
      cnt("parses_on_reused_parser"); cnt(api == 0 ? "reused_parser_parse_cstr" : "reused_parser_parse_string");
      cnt(r.ok ? "reused_parser_accepted" : "reused_parser_rejected");
      if (S.lbSeen > 0) { cnt("reused_after_linebreak_text"); if (!r.ok) cnt("reused_rejected_after_linebreak_text"); }
      setItem("reuse_transitions", S.lastOk ? (r.ok ? "accepted>accepted" : "accepted>rejected") : (r.ok ? "rejected>accepted" : "rejected>rejected"));
      crossCheckReused(e, cls, r.ok, out, r.line, r.col, errStr);
      if (memcmp(e.p, text, n) != 0 || e.p[n] != 0) { char k[160]; snprintf(k, sizeof k, "%s/input-modified", prefix); fail(k, "the parser wrote into the caller's text"); }
    }
    ++S.uses; S.lbSeen += countLinebreaks(text, n); S.lastOk = r.ok ? 1 : 0;
    statMax("max_texts_on_one_parser", S.uses);
  }
  cnt("parses"); cnt("parse_bytes", (long)n);
  if (r.ok) cnt("parse_accepted");
  else {
    cnt("parse_rejected");
    if (api == 0 || api == 2) { const char* m = (const char*)errStr; char item[96]; snprintf(item, sizeof item, "%.90s", m); for (char* p = item; *p; ++p) if (*p == ' ' || *p == '\n') *p = '_'; setItem("error_messages", item); }
    if (r.havePos) {
      if (xBslb && fBslb) cnt("skipped_excluded_positions");
      else checkPos(text, n, r.line, r.col, prefix);
    }
  }
  return r;
}

// toString -> parse identity on a tree given by its model; v is the Variant to serialise (built from the model or produced by the parser)
static void roundTrip(const Variant& v, const MNode* m, const char* prefix, int api, Cmp& cmp) {
  setctx("Json.toString"); hist.add("toString\n");
  guardOn(20, "Json.toString/nonterminating", "Json.toString/memory-growth", 0);
  String text = Json::toString(v);
  guardOff();
  cnt("serialised_bytes", (long)text.length());
  Variant back;
  PResult r = parseGuarded((const char*)text, text.length(), api, back, "reparse");
  if (r.line == -1) return;
  if (!r.ok) { char k[160]; snprintf(k, sizeof k, "%s/serialised-text-rejected", prefix); fail(k, "the text produced by Json::toString is rejected by Json::parse at line %d column %d", r.line, r.col); }
  setctx("Json.roundtrip/compare");
  Text path; cmp.go(back, m, path);
  setctx("Variant.operator==");
  if (!(back == v) || !(v == back) || back != v) { char k[160]; snprintf(k, sizeof k, "%s/variant-operator-equal", prefix); fail(k, "parse(toString(v)) is structurally identical to v but Variant::operator== says they differ"); }
  cnt("roundtrips");
}

// after an arbitrary input was accepted: if the tree is one the statement covers, serialising and parsing it again must be identity
static void reparseAccepted(const Variant& v, int api) {
  bool rep = true, lb = false; MNode* m = modelOf(v, rep, lb);
  if (rep && !(lb && xRtlb)) { Cmp cmp("Json.roundtrip"); roundTrip(v, m, "Json.roundtrip", api, cmp); cnt("reparse_checks"); cnt("rt_nodes_compared", cmp.nodes); cnt("rt_string_bytes_compared", cmp.strBytes); }
  else cnt("reparse_skipped_unrepresentable");
  delete m;
}

// ================================================================================================ exhaustive short strings
static void exhaustive(const char* alphabet, int A, int modeConst) {
  int L = (int)opts.scale; if (L < 0) L = 0; if (L > 12) L = 12;
  long total = opts.cases < 0 ? exhTotal(A, L) : opts.start + opts.cases;
  long first = opts.cases < 0 ? 0 : opts.start;
  int dg[16]; char buf[16];
  for (long idx = first; idx < total; ++idx) {
    if (!mine(idx)) continue;
    int len = exhDecode(idx, A, dg, 12); if (len < 0) break;
    caseBegin(idx);
    for (int i = 0; i < len; ++i) buf[i] = alphabet[dg[i]]; buf[len] = 0;
    Variant out;
    int api = (int)(idx % 4);
    PResult r = parseGuarded(buf, (size_t)len, api, out, "parse");
    if (r.ok) { if ((idx & 7) == 0 || len <= 4) reparseAccepted(out, api); }
    cnt("exh_parses");
    if (idx % 100003 == 7) sample("%s", hist.c());
    u64 fp = mix(mix(0x5eed, (u64)modeConst), (u64)idx);
    caseEnd(fp, len >= 2);
  }
  if (opts.cases < 0) cnt("exhaustive_space", opts.shard == 0 ? total : 0);
  statMax("exhaustive_max_length", L);
}

// ================================================================================================ generator of valid documents
static u32 genCodePoint(Rng& r) {
  switch (r.below(16)) {
  case 0: case 1: case 2: case 3: case 4: case 5: case 6: case 7: return (u32)r.range(0x20, 0x7e);
  case 8: { static const char sp[] = "\"\\/*\"\\/ "; return (u32)(u8)sp[r.below(8)]; }
  case 9: return (u32)r.range(1, 31);
  case 10: { static const u32 c[] = { 0x7f, 0x80, 0xff, 0x7ff, 0x800, 0xd7ff, 0xe000, 0xfffd, 0xffff, 0x10000, 0x10ffff, 0x1f600, '\n', '\r', '\t', 8, 12 }; return c[r.below(sizeof c / sizeof *c)]; }
  case 11: return (u32)r.range(0x80, 0x7ff);
  case 12: { u32 c = (u32)r.range(0x800, 0xffff); if (c >= 0xd800 && c <= 0xdfff) c = 0x20ac; return c; }
  case 13: return (u32)r.range(0x10000, 0x10ffff);
  default: return (u32)r.range('a', 'z');
  }
}

struct DocGen {
  Rng& r; Bytes& out; bool comments; int maxDepth; long tokens;
  DocGen(Rng& rr, Bytes& o, bool c, int d) : r(rr), out(o), comments(c), maxDepth(d), tokens(0) {}
  void wsChars() { int k = r.chance(1, 3) ? (int)r.range(1, 3) : 0; static const char* w[] = { " ", "\t", "\n", "\r\n", "\r", " " }; for (int i = 0; i < k; ++i) out.adds(w[r.below(6)]); }
  void comment() {
    static const char cc[] = "ab z*/\"\\'*/:,{[1";
    if (r.chance(1, 2)) { out.adds("//"); int k = (int)r.below(12); for (int i = 0; i < k; ++i) out.add(cc[r.below(sizeof cc - 1)]); static const char* nl[] = { "\n", "\r\n", "\r" }; out.adds(nl[r.below(3)]); }
    else { out.adds("/*"); int k = (int)r.below(14); for (int i = 0; i < k; ++i) { if (r.chance(1, 8)) { out.adds(r.chance(1, 2) ? "\n" : "\r\n"); continue; } char c = cc[r.below(sizeof cc - 1)]; if (c == '/' && out.size() && out[out.size() - 1] == '*') c = 'x'; out.add(c); } if (r.chance(1, 6)) out.add('*'); out.adds("*/"); }
  }
  void ws() { wsChars(); if (comments) while (r.chance(1, 5)) { comment(); wsChars(); } }
  void hex4(u32 v) { char b[8]; snprintf(b, sizeof b, r.chance(1, 2) ? "%04x" : "%04X", v); out.adds("\\u"); out.adds(b); }
  void emitString(Bytes& model) {
    int n = r.chance(1, 10) ? (int)r.range(20, 120) : (int)r.below(10);
    out.add('"');
    for (int i = 0; i < n; ++i) {
      u32 cp = genCodePoint(r); utf8(cp, model);
      bool mustEscape = cp == '"' || cp == '\\' || cp < 0x20;
      if (!mustEscape && !r.chance(1, 8)) { if (cp == '/' && r.chance(1, 3)) out.adds("\\/"); else utf8(cp, out); continue; }
      const char* shortEsc = 0;
      switch (cp) { case '"': shortEsc = "\\\""; break; case '\\': shortEsc = "\\\\"; break; case '/': shortEsc = "\\/"; break; case 8: shortEsc = "\\b"; break; case 12: shortEsc = "\\f"; break; case 10: shortEsc = "\\n"; break; case 13: shortEsc = "\\r"; break; case 9: shortEsc = "\\t"; break; default: break; }
      if (shortEsc && !r.chance(1, 4)) out.adds(shortEsc);
      else if (cp < 0x10000) hex4(cp);
      else { u32 v = cp - 0x10000; hex4(0xd800 | (v >> 10)); hex4(0xdc00 | (v & 0x3ff)); }
    }
    out.add('"'); ++tokens;
  }
  MNode* value(int depth) {
    int kind = (int)r.below(depth >= maxDepth ? 6 : 10);
    if (depth == 0 && maxDepth > 0 && kind < 6 && r.chance(3, 4)) kind = 6 + (int)r.below(4);
    ++tokens;
    switch (kind) {
    case 0: out.adds("null"); return new MNode(K_NULL);
    case 1: { MNode* m = new MNode(K_BOOL); m->b = r.chance(1, 2); out.adds(m->b ? "true" : "false"); return m; }
    case 2: case 3: { MNode* m = new MNode(K_INT);
        static const long long bv[] = { 0, 1, -1, 9, 10, INT_MAX, INT_MIN, (long long)INT_MAX + 1, (long long)INT_MIN - 1, LLONG_MAX, LLONG_MIN, LLONG_MAX - 1, LLONG_MIN + 1, 4294967295LL, 4294967296LL };
        int c = (int)r.below(4); m->i = c == 0 ? bv[r.below(sizeof bv / sizeof *bv)] : c == 1 ? r.range(-1000, 1000) : c == 2 ? (long long)(int)r.next() : (long long)r.next();
        char b[40]; snprintf(b, sizeof b, "%lld", m->i); out.adds(b); return m; }
    case 4: { MNode* m = new MNode(K_DOUBLE); char b[64]; long ip = r.range(-99999, 99999); long fp = r.range(0, 999999);
        int f = (int)r.below(4); if (f == 0) snprintf(b, sizeof b, "%ld.%ld", ip, fp); else if (f == 1) snprintf(b, sizeof b, "%ld.%lde%ld", ip, fp, r.range(-20, 20)); else if (f == 2) snprintf(b, sizeof b, "%ld.%03ldE+%ld", ip, fp % 1000, r.range(0, 30)); else snprintf(b, sizeof b, "%s0.%06ld", ip < 0 ? "-" : "", fp);
        m->d = strtod(b, 0); out.adds(b); return m; }
    case 5: { MNode* m = new MNode(K_STR); emitString(m->s); return m; }
    case 6: case 7: { MNode* m = new MNode(K_LIST); out.add('['); ws(); int n = r.chance(1, 6) ? 0 : (int)r.range(1, 5);
        for (int i = 0; i < n; ++i) { if (i) { out.add(','); ws(); } m->kids.push(value(depth + 1)); ws(); } out.add(']'); return m; }
    default: { MNode* m = new MNode(K_MAP); out.add('{'); ws(); int n = r.chance(1, 6) ? 0 : (int)r.range(1, 5);
        for (int i = 0; i < n; ++i) {
          if (i) { out.add(','); ws(); }
          Bytes k; size_t mark = out.size();
          for (int attempt = 0;; ++attempt) { k.clear(); out.v.resize(mark, 0); emitString(k); bool dup = false; for (size_t j = 0; j < m->keys.n; ++j) if (m->keys[j].eq(k)) dup = true; if (!dup) break; if (attempt > 20) { out.v.resize(mark, 0); char b[32]; snprintf(b, sizeof b, "\"k%d_%d\"", i, attempt); out.adds(b); k.clear(); k.add(b + 1, strlen(b) - 2); break; } }
          m->keys.push(k); ws(); out.add(':'); ws(); m->kids.push(value(depth + 1)); ws();
        }
        out.add('}'); return m; }
    }
  }
  MNode* document() { ws(); MNode* m = value(0); ws(); return m; }
};

// fixed corpus (no model: safety, position and prefix checks only)
static const char* corpus[] = {
  "{\"a\":\"\\u00e4\\uD83D\\uDE00\\n\\t\\\\\\\"\\/\\b\\f\\r\",\"b\":[1,-2,3.5e10,true,false,null],\"c\":{\"d\":{}}}",
  "[\"\\uD800\\uDC00\",\"\\udbff\\udfff\",\"\\uD800x\",\"\\uDC00\",\"\\u12\",\"\\uD800\\u0041\"]",
  "  {\r\n\t\"key\" : [ ] ,\r\"k2\":-0.0e-0,\n\"k3\":\"line1\nline2\rline3\r\nline4\\\nline5\"}\n",
  "[9223372036854775807,-9223372036854775808,9223372036854775808,2147483647,2147483648,-2147483649,1e5,1E+2,-,--1,1.2.3,0x10]",
  "\"abc\\",
  "\"\\\n\nabcdefgh",
  "[[\\",
  "{\"a\":1,\"a\":2,\"\":3,\"\\u0000\":4}",
  "tru", "nul", "fals", "truex", "[true,false,null]x", "1 2", "\"a\" \"b\"",
  "{\"a\" 1}", "{\"a\":}", "{,}", "[,]", "[1,]", "{\"a\":1,}", "[1 2]", "{1:2}",
  "\xef\xbb\xbf{}", "\x01", "\x7f", "\xff\xfe", "\"\xc3\x28\xf0\x9f\"",
};
static const int NCORPUS = (int)(sizeof corpus / sizeof *corpus);

static void everyPrefix(const char* t, size_t n, int api0) {
  for (size_t k = 0; k <= n; ++k) { Variant out; PResult r = parseGuarded(t, k, (int)((api0 + k) % 4), out, "prefix"); (void)r; cnt("prefix_parses"); }
}

// insert nothing: the generator already wove comments in. Returns the reference-stripped text.
struct StripFeat { bool line, block, str, esc, starInBlock, lbInBlock, openBlock, openStr; StripFeat() { memset(this, 0, sizeof *this); } };
static void refStrip(const char* s, size_t n, Bytes& out, StripFeat& f) {
  size_t i = 0; int st = 0;
  while (i < n) {
    char c = s[i];
    switch (st) {
    case 0:
      if (c == '/' && i + 1 < n && s[i + 1] == '/') { st = 1; i += 2; f.line = true; }
      else if (c == '/' && i + 1 < n && s[i + 1] == '*') { st = 2; i += 2; f.block = true; }
      else if (c == '"') { out.add(c); st = 3; ++i; f.str = true; }
      else { out.add(c); ++i; }
      break;
    case 1: if (c == '\n' || c == '\r') st = 0; else ++i; break;
    case 2:
      if (c == '*' && i + 1 < n && s[i + 1] == '/') { i += 2; st = 0; }
      else { if (c == '\n' || c == '\r') { out.add(c); f.lbInBlock = true; } else if (c == '*') f.starInBlock = true; ++i; }
      break;
    default:
      if (c == '\\' && i + 1 < n) { out.add(c); out.add(s[i + 1]); i += 2; f.esc = true; }
      else if (c == '"') { out.add(c); ++i; st = 0; }
      else { out.add(c); ++i; }
      break;
    }
  }
  if (st == 2) f.openBlock = true; if (st == 3) f.openStr = true;
}

// runs Json::stripComments on an exactly-sized block and compares with the reference stripper. Returns false if skipped because of an excluded trigger.
static bool stripCheck(const char* t, size_t n, Bytes& ref) {
  StripFeat f; ref.clear(); refStrip(t, n, ref, f);
  if ((xStar && f.starInBlock) || (xEsc && f.esc)) { cnt("skipped_excluded_inputs"); return false; }
  hist.addf("stripComments len=%lu \"", (unsigned long)n); hist.addEsc(t, n); hist.add("\"\n");
  Exact e(t, n);
  const char* cls = f.starInBlock && f.esc ? "star-in-block-comment+escape-in-string" : f.starInBlock ? "star-in-block-comment" : f.esc ? "escape-in-string" : f.block ? "block-comment" : f.line ? "line-comment" : f.str ? "string-literal" : "no-comment";
  setctxf("Json.stripComments/%s", cls);
  String res;
  { String in; in.attach(e.p, e.n);
    guardOn(5, "Json.stripComments/nonterminating", "Json.stripComments/memory-growth", n);
    res = Json::stripComments(in);
    guardOff(); }
  if (memcmp(e.p, t, n) != 0 || e.p[n] != 0) fail("Json.stripComments/input-modified", "stripComments wrote into its argument");
  cnt("strip_calls"); cnt("strip_bytes_compared", (long)ref.size());
  if (f.line) cnt("strip_with_line_comment"); if (f.block) cnt("strip_with_block_comment"); if (f.str) cnt("strip_with_string"); if (f.esc) cnt("strip_with_escape_in_string");
  if (f.starInBlock) cnt("strip_with_star_in_block"); if (f.lbInBlock) cnt("strip_with_linebreak_in_block"); if (f.openBlock) cnt("strip_unterminated_block"); if (f.openStr) cnt("strip_unterminated_string");
  if (!ref.eq((const char*)res, res.length())) {
    char key[200]; snprintf(key, sizeof key, "Json.stripComments/%s/content", cls);
    size_t at; diffClass(ref.p(), ref.size(), (const char*)res, res.length(), at);
    Text m; m.addf("result differs from the reference stripper at output byte %lu: input \"", (unsigned long)at); m.addEsc(t, n > 80 ? 80 : n); m.add("\" expected \""); m.addEsc(ref.p(), ref.size() > 80 ? 80 : ref.size());
    m.add("\" got \""); m.addEsc((const char*)res, res.length() > 80 ? 80 : res.length()); m.add("\"");
    fail(key, "%s", m.c());
  }
  if (((const char*)res)[res.length()] != 0) fail("Json.stripComments/terminator", "result is not NUL-terminated");
  return true;
}

static void genMode() {
  for (long idx = opts.start; idx < opts.start + opts.cases; ++idx) {
    if (!mine(idx)) continue;
    caseBegin(idx);
    Rng r(opts.seed, 1501, (u64)idx);
    if (idx < NCORPUS) {
      const char* t = corpus[idx]; size_t n = strlen(t);
      hist.addf("# corpus document %ld\n", idx);
      for (int api = 0; api < 4; ++api) { Variant out; PResult pr = parseGuarded(t, n, api, out, "parse"); if (pr.ok) reparseAccepted(out, api); }
      hist.addf("document \""); hist.addEsc(t, n); hist.add("\"\n");
      everyPrefix(t, n, (int)idx);
      Bytes ref; stripCheck(t, n, ref);
      caseEnd(mix(mix(0x5eed, 1501), (u64)idx), true);
      continue;
    }
    bool comments = r.chance(2, 3);
    Bytes text; DocGen g(r, text, comments, (int)r.range(0, 6));
    MNode* m = g.document();
    hist.addf("# generated valid document, %lu bytes, %ld nodes, comments=%d\n", (unsigned long)text.size(), countNodes(m), (int)comments);
    // 1. stripComments against the reference stripper; the stripped text is the plain JSON document
    Bytes plain; bool stripped = stripCheck(text.p(), text.size(), plain);
    (void)stripped;
    // 2. the plain document must be accepted and denote the model
    int api = (int)r.below(4);
    Variant out; PResult pr = parseGuarded(plain.p(), plain.size(), api, out, "parse");
    if (pr.line != -1) {
      if (!pr.ok) fail("Json.parse/valid-document/rejected", "a valid JSON document was rejected at line %d column %d", pr.line, pr.col);
      setctx("Json.parse/valid-document/compare");
      Cmp cmp("Json.parse/valid-document"); Text path; cmp.go(out, m, path);
      cnt("value_nodes_compared", cmp.nodes); cnt("value_string_bytes_compared", cmp.strBytes); cnt("valid_documents_compared");
      reparseAccepted(out, api);
    }
    // 3. the commented text itself (comments are not JSON: only totality, safety and the failure position are judged)
    if (comments) { Variant o2; parseGuarded(text.p(), text.size(), (int)r.below(4), o2, "parse-commented"); }
    // 4. truncation at every byte
    if (plain.size() <= 600) everyPrefix(plain.p(), plain.size(), (int)r.below(4));
    else { for (int k = 0; k < 300; ++k) { size_t cut = r.below(plain.size() + 1); Variant o3; parseGuarded(plain.p(), cut, (int)r.below(4), o3, "prefix"); cnt("prefix_parses"); } }
    statMax("max_document_bytes", (long)plain.size());
    if (idx % 211 == 0) sample("%.900s", hist.c());
    u64 fp = hashModel(m); long nn = countNodes(m);
    delete m;
    caseEnd(fp, nn >= 3);
  }
}

// ================================================================================================ mutations
static void mutate(Rng& r, Bytes& base, const Bytes& other, int nm, u64& fp) {
  static const char interesting[] = "{}[],:\"\\/utfnrb0123456789-+.eE \n\r\tDd8Cc";
  for (int k = 0; k < nm; ++k) {
    Bytes t; size_t n = base.size(); int kind = (int)r.below(7); fp = mix(fp, (u64)kind);
    size_t at = n ? r.below(n) : 0;
    char ch = r.chance(1, 8) ? (char)r.range(1, 255) : interesting[r.below(sizeof interesting - 1)];
    switch (kind) {
    case 0: t.add(base.p(), n); if (n) t.v[at] = ch; break;                                   // replace a byte
    case 1: t.add(base.p(), at); t.add(ch); t.add(base.p() + at, n - at); break;             // insert a byte
    case 2: { size_t len = n ? r.range(1, 4) : 0; if (at + len > n) len = n - at; t.add(base.p(), at); t.add(base.p() + at + len, n - at - len); break; }  // delete a range
    case 3: { size_t len = n ? r.range(1, 8) : 0; if (at + len > n) len = n - at; t.add(base.p(), at + len); t.add(base.p() + at, n - at); break; }        // duplicate a range
    case 4: t.add(base.p(), at); if (other.size()) { size_t o = r.below(other.size()); t.add(other.p() + o, other.size() - o); } break;                   // splice
    case 5: t.add(base.p(), at); t.add('\\'); if (r.chance(1, 2)) t.add(r.chance(1, 2) ? '\n' : '\r'); t.add(base.p() + at, n - at); break;             // backslash (+ line break)
    default: { t.add(base.p(), n); for (size_t j = 0; j + 1 < t.size(); ++j) if (t.v[j] == '"' && r.chance(1, 3)) { t.v[j] = r.chance(1, 2) ? '\n' : '\\'; } break; }
    }
    base = t;
    fp = mix(fp, (u64)at);
  }
}
static void mutMode() {
  for (long idx = opts.start; idx < opts.start + opts.cases; ++idx) {
    if (!mine(idx)) continue;
    caseBegin(idx);
    Rng r(opts.seed, 1502, (u64)idx);
    Bytes base;
    if (r.chance(1, 5)) base.adds(corpus[r.below(NCORPUS)]);
    else { DocGen g(r, base, r.chance(1, 4), (int)r.range(0, 5)); delete g.document(); }
    Bytes other; if (r.chance(1, 3)) { DocGen g2(r, other, false, 3); delete g2.document(); }
    int nm = (int)r.range(1, 4); u64 fp = 1502;
    mutate(r, base, other, nm, fp);
    // never hand over an embedded NUL: the text is what precedes the terminator
    size_t n = base.size(); for (size_t j = 0; j < n; ++j) if (base[j] == 0) { n = j; break; }
    int api = (int)r.below(4);
    Variant out; PResult pr = parseGuarded(base.p(), n, api, out, "parse-mutant");
    if (pr.ok) reparseAccepted(out, api);
    Bytes ref; stripCheck(base.p(), n, ref);
    cnt("mutation_parses");
    if (idx % 997 == 0) sample("%.500s", hist.c());
    caseEnd(fp, n >= 2);
  }
}

// ================================================================================================ one Parser object, several texts
// case = a sequence of 2-6 texts handed to the same Json::Parser object (alternating parse(const char*) / parse(const String&)); every parse is judged like any
// other (termination, heap, position inside the text; valid documents against their model) and, from the second text on, against the static Json::parse.
static void reuseMode() {
  static const char alpha[] = "{}[],:\"\\ut0-. \n\ra";
  for (long idx = opts.start; idx < opts.start + opts.cases; ++idx) {
    if (!mine(idx)) continue;
    caseBegin(idx);
    S.force = true;
    Rng r(opts.seed, 1507, (u64)idx);
    int steps = (int)r.range(2, 6); u64 fp = 1507; Bytes prev; long rejected = 0, withLb = 0;
    hist.addf("# one Json::Parser object, %d texts\n", steps);
    for (int k = 0; k < steps; ++k) {
      Bytes t; MNode* model = 0; int kind = (int)r.below(8); fp = mix(fp, (u64)kind);
      switch (kind) {
      case 0: case 1: { DocGen g(r, t, false, (int)r.range(0, 4)); model = g.document(); break; }                                   // valid document
      case 2: { DocGen g(r, t, r.chance(1, 4), (int)r.range(0, 4)); delete g.document(); Bytes other; mutate(r, t, other, (int)r.range(1, 3), fp); break; }  // mutant
      case 3: t.adds(corpus[r.below(NCORPUS)]); break;
      case 4: { Bytes d; DocGen g(r, d, false, (int)r.range(1, 4)); delete g.document(); t.add(d.p(), r.below(d.size() + 1)); break; }  // truncated document
      case 5: { int n = (int)r.below(9); for (int i = 0; i < n; ++i) t.add(alpha[r.below(sizeof alpha - 1)]); break; }                // short token soup
      case 6: { int n = (int)r.below(6); static const char* nl[] = { "\n", "\r\n", "\r" }; t.adds(r.chance(1, 2) ? "[1," : "{\"a\":"); for (int i = 0; i < n; ++i) t.adds(nl[r.below(3)]); t.adds(r.chance(1, 2) ? "}" : "]]"); break; }  // line breaks, then a syntax error
      default: if (k) t = prev; else t.adds(primers[r.below(NPRIMERS)]); break;                                                         // the same text again
      }
      size_t n = t.size(); for (size_t j = 0; j < n; ++j) if (t[j] == 0) { n = j; break; }
      for (size_t j = 0; j < n; ++j) fp = mix(fp, (u8)t[j]);
      if (countLinebreaks(t.p(), n)) ++withLb;
      int api = r.chance(1, 2) ? 0 : 2;
      Variant out; PResult pr = parseGuarded(t.p(), n, api, out, "parse");
      if (pr.line != -1) {
        if (!pr.ok) ++rejected;
        if (model) {
          if (!pr.ok) fail("Json.parse/valid-document/rejected", "a valid JSON document was rejected at line %d column %d (text #%d of the Parser object)", pr.line, pr.col, k + 1);
          setctx("Json.parse/valid-document/compare");
          Cmp cmp("Json.parse/valid-document"); Text path; cmp.go(out, model, path);
          cnt("value_nodes_compared", cmp.nodes); cnt("value_string_bytes_compared", cmp.strBytes); cnt("valid_documents_compared");
        }
        if (pr.ok && r.chance(1, 4)) reparseAccepted(out, api);
      }
      delete model;
      prev.clear(); prev.add(t.p(), n);
    }
    S.force = false;
    cnt("reuse_sequences"); if (rejected && withLb) cnt("reuse_sequences_with_linebreaks_and_rejection");
    if (idx % 499 == 0) sample("%.700s", hist.c());
    caseEnd(fp, true);
  }
}

// ================================================================================================ deep nesting
static int depthOf(const Variant& v) {   // iterative walk along the first child
  int d = 0; const Variant* p = &v;
  for (;;) {
    if (p->getType() == Variant::listType) { const List<Variant>& l = p->toList(); ++d; if (l.isEmpty()) return d; p = &*l.begin(); }
    else if (p->getType() == Variant::mapType) { const HashMap<String, Variant>& h = p->toMap(); ++d; if (h.isEmpty()) return d; p = &*h.begin(); }
    else return d;
  }
}
static void deepMode() {
  for (long idx = opts.start; idx < opts.start + opts.cases; ++idx) {
    if (!mine(idx)) continue;
    caseBegin(idx);
    Rng r(opts.seed, 1503, (u64)idx);
    int pattern = (int)(idx % 8); int d = (idx / 8) % 2 == 0 ? 1000 : (int)r.range(1, 1000);
    Bytes t; bool valid = true; int closes = d;
    if (pattern == 3) { closes = 0; valid = false; } else if (pattern == 4) { closes = (int)r.below((u64)d); valid = false; }
    for (int i = 0; i < d; ++i) {
      bool obj = pattern == 1 || (pattern == 2 && (i & 1)) || (pattern >= 5 && r.chance(1, 2));
      if (obj) { t.adds("{\"a\":"); } else t.add('[');
      if (pattern == 5) t.adds(r.chance(1, 2) ? "\n" : "\r\n ");
    }
    if (pattern == 6) t.adds("\"x\""); else if (pattern != 0) t.add('1');
    // close in reverse order
    { Bytes stack; for (size_t j = 0; j < t.size(); ++j) if (t[j] == '[' || t[j] == '{') stack.add(t[j]);
      for (int i = 0; i < closes; ++i) { char o = stack[stack.size() - 1 - (size_t)i]; t.add(o == '[' ? ']' : '}'); if (pattern == 5 && r.chance(1, 3)) t.add('\n'); } }
    if (pattern == 7) { t.add(','); valid = true; }   // trailing garbage after a complete value is outside the value
    hist.addf("# deep nesting pattern=%d depth=%d closes=%d bytes=%lu\n", pattern, d, closes, (unsigned long)t.size());
    S.elide = true;
    int api = (int)r.below(4);
    Variant out; PResult pr = parseGuarded(t.p(), t.size(), api, out, "parse-deep");
    if (valid && pattern != 7) {
      if (!pr.ok) fail("Json.parse/valid-document/rejected", "a valid document nested %d deep was rejected at line %d column %d", d, pr.line, pr.col);
      int got = depthOf(out); if (got != d) fail("Json.parse/valid-document/list/size", "document nested %d deep parsed to a tree nested %d deep", d, got);
      // serialise and parse again at full depth
      bool rep = true, lb = false; MNode* m = modelOf(out, rep, lb); Cmp cmp("Json.roundtrip");
      roundTrip(out, m, "Json.roundtrip", api, cmp); delete m;
      cnt("deep_roundtrips"); cnt("rt_nodes_compared", cmp.nodes);
    } else if (!valid && pr.ok) cnt("deep_truncated_accepted");
    S.elide = false;
    statMax("max_nesting_depth", d); cnt("deep_parses");
    setctx("Variant.destructor/deep");
    caseEnd(mix(mix(1503, (u64)pattern), (u64)d), true);
  }
}

// ================================================================================================ random Variant trees
static void genRtString(Rng& r, Bytes& s, u64& classes) {
  int n = r.chance(1, 12) ? (int)r.range(30, 300) : (int)r.below(12);
  for (int i = 0; i < n; ++i) {
    int c = (int)r.below(12); char ch = 'a';
    switch (c) {
    case 0: ch = '"'; break; case 1: ch = '\\'; break;
    case 2: ch = (char)r.range(1, 31); break;
    case 3: ch = r.chance(1, 2) ? '\n' : '\r'; break;
    case 4: ch = 0x7f; break;
    case 5: ch = (char)r.range(0x80, 0xff); break;      // lone (invalid) high byte
    case 6: { Bytes u; utf8(genCodePoint(r) | 0x80, u); s.add(u); continue; }  // valid multi-byte sequence
    case 7: { static const char* lit[] = { "\\u0041", "\\n", "\\\"", "//", "/*", "*/", "\\\\", "\\", "\"\"" }; s.adds(lit[r.below(9)]); continue; }
    case 8: ch = '/'; break;
    default: ch = (char)r.range(0x20, 0x7e); break;
    }
    if (xRtlb && (ch == '\n' || ch == '\r')) ch = ' ';
    s.add(ch);
  }
  for (size_t i = 0; i < s.size(); ++i) { unsigned char c = (unsigned char)s[i]; int b = c == '\n' ? 0 : c == '\r' ? 1 : c < 32 ? 2 : c == '"' ? 3 : c == '\\' ? 4 : c == 127 ? 5 : c >= 128 ? 6 : 7; classes |= 1u << b; }
  static bool seen[256]; for (size_t i = 0; i < s.size(); ++i) { unsigned char c = (unsigned char)s[i]; if (!seen[c]) { seen[c] = true; char it[8]; snprintf(it, sizeof it, "%02x", c); setItem("rt_byte_values", it); } }
}
static MNode* genTree(Rng& r, int depth, int maxDepth, u64& classes) {
  int kind = (int)r.below(depth >= maxDepth ? 6 : 10);
  if (depth == 0 && maxDepth > 0 && kind < 6 && r.chance(3, 4)) kind = 6 + (int)r.below(4);
  switch (kind) {
  case 0: return new MNode(K_NULL);
  case 1: { MNode* m = new MNode(K_BOOL); m->b = r.chance(1, 2); return m; }
  case 2: case 3: { MNode* m = new MNode(K_INT);
      static const long long bv[] = { 0, 1, -1, INT_MAX, INT_MIN, (long long)INT_MAX + 1, (long long)INT_MIN - 1, LLONG_MAX, LLONG_MIN, LLONG_MAX - 1, LLONG_MIN + 1, 4294967295LL };
      int c = (int)r.below(4); m->i = c == 0 ? bv[r.below(sizeof bv / sizeof *bv)] : c == 1 ? r.range(-1000, 1000) : c == 2 ? (long long)(int)r.next() : (long long)r.next();
      bool fits = m->i >= INT_MIN && m->i <= INT_MAX; m->as64 = !fits || r.chance(1, 3); return m; }
  case 4: case 5: { MNode* m = new MNode(K_STR); genRtString(r, m->s, classes); return m; }
  case 6: case 7: { MNode* m = new MNode(K_LIST); int n = r.chance(1, 6) ? 0 : (int)r.range(1, 6); for (int i = 0; i < n; ++i) m->kids.push(genTree(r, depth + 1, maxDepth, classes)); return m; }
  default: { MNode* m = new MNode(K_MAP); int n = r.chance(1, 6) ? 0 : (int)r.range(1, 6);
      for (int i = 0; i < n; ++i) { Bytes k; genRtString(r, k, classes); bool dup = false; for (size_t j = 0; j < m->keys.n; ++j) if (m->keys[j].eq(k)) dup = true; if (dup) { char b[24]; snprintf(b, sizeof b, "#%d", i); k.adds(b); } m->keys.push(k); m->kids.push(genTree(r, depth + 1, maxDepth, classes)); }
      return m; }
  }
}
static void describe(const MNode* m, Text& t, int depth = 0) {
  if (t.n > 3000) return;
  switch (m->kind) { case K_NULL: t.add("null"); break; case K_BOOL: t.add(m->b ? "true" : "false"); break; case K_INT: t.addf("%s(%lld)", m->as64 ? "int64" : "int", m->i); break; case K_DOUBLE: t.addf("%g", m->d); break;
    case K_STR: t.add("\""); t.addEsc(m->s.p(), m->s.size()); t.add("\""); break;
    case K_LIST: t.add("["); for (size_t j = 0; j < m->kids.n; ++j) { if (j) t.add(","); describe(m->kids[j], t, depth + 1); } t.add("]"); break;
    default: t.add("{"); for (size_t j = 0; j < m->kids.n; ++j) { if (j) t.add(","); t.add("\""); t.addEsc(m->keys[j].p(), m->keys[j].size()); t.add("\":"); describe(m->kids[j], t, depth + 1); } t.add("}"); break; }
}
static void roundtripMode() {
  for (long idx = opts.start; idx < opts.start + opts.cases; ++idx) {
    if (!mine(idx)) continue;
    caseBegin(idx);
    Rng r(opts.seed, 1504, (u64)idx);
    u64 classes = 0;
    MNode* m = genTree(r, 0, (int)r.range(0, 6), classes);
    hist.add("# tree: "); describe(m, hist); hist.add("\n");
    setctx("Variant.build");
    Variant v = buildVariant(m);
    Cmp cmp("Json.roundtrip");
    roundTrip(v, m, "Json.roundtrip", (int)r.below(4), cmp);
    cnt("rt_nodes_compared", cmp.nodes); cnt("rt_string_bytes_compared", cmp.strBytes);
    static const char* cn[] = { "lf", "cr", "control", "quote", "backslash", "del", "high", "ascii" };
    for (int b = 0; b < 8; ++b) if (classes & (1u << b)) setItem("rt_char_classes", cn[b]);
    long nn = countNodes(m); statMax("max_tree_nodes", nn);
    if (idx % 307 == 0) sample("%.600s", hist.c());
    u64 fp = hashModel(m);
    delete m;
    caseEnd(fp, nn >= 3 && (classes & 0x7f) != 0);
  }
}

// ================================================================================================ stripComments: exhaustive token strings and random
static const char* stripTok[] = { "//", "/*", "*/", "*", "/", "\"", "\\\"", "\\\\", "\n", "\r\n", "a", "\\" };
static const int NSTRIPTOK = 12;
static void stripExh() {
  int L = (int)opts.scale; if (L > 10) L = 10;
  long total = opts.cases < 0 ? exhTotal(NSTRIPTOK, L) : opts.start + opts.cases;
  long first = opts.cases < 0 ? 0 : opts.start;
  int dg[16];
  for (long idx = first; idx < total; ++idx) {
    if (!mine(idx)) continue;
    int len = exhDecode(idx, NSTRIPTOK, dg, 10); if (len < 0) break;
    caseBegin(idx);
    char buf[64]; size_t n = 0; for (int i = 0; i < len; ++i) { size_t k = strlen(stripTok[dg[i]]); memcpy(buf + n, stripTok[dg[i]], k); n += k; } buf[n] = 0;
    Bytes ref; stripCheck(buf, n, ref);
    if (idx % 100003 == 11) sample("%s", hist.c());
    caseEnd(mix(mix(0x5eed, 1505), (u64)idx), len >= 2);
  }
  if (opts.cases < 0) cnt("exhaustive_space", opts.shard == 0 ? total : 0);
}
static void stripRand() {
  static const char* tok[] = { "//", "/*", "*/", "*", "/", "\"", "\\\"", "\\\\", "\n", "\r\n", "a", "\\", "\r", " ", "{\"k\":1}", "**/", "/**", "x", "\\n", "'" };
  const int NT = 20;
  for (long idx = opts.start; idx < opts.start + opts.cases; ++idx) {
    if (!mine(idx)) continue;
    caseBegin(idx);
    Rng r(opts.seed, 1506, (u64)idx);
    int w[NT], tot = 0; for (int i = 0; i < NT; ++i) { w[i] = r.chance(1, 3) ? 0 : (int)r.range(1, 8); tot += w[i]; } if (!tot) { w[10] = 1; tot = 1; }
    int len = (int)r.range(1, r.chance(1, 4) ? 200 : 40);
    Bytes t; u64 fp = 1506;
    for (int i = 0; i < len; ++i) { int pick = (int)r.below((u64)tot), k = 0; while (pick >= w[k]) pick -= w[k++]; t.adds(tok[k]); fp = mix(fp, (u64)k); }
    Bytes ref; stripCheck(t.p(), t.size(), ref);
    if (idx % 997 == 0) sample("%.400s", hist.c());
    caseEnd(fp, len >= 2);
  }
}

// ================================================================================================ probes of the listed findings
static int probe(const char* key) {
  beginCase(0); S.disabled = true;
  if (!strcmp(key, K_TRUNC)) { Variant out; parseGuarded("\"abc\\", 5, 0, out, "probe"); return 0; }
  if (!strcmp(key, K_BSLB)) { Variant out; parseGuarded("\"\\\nabc", 6, 0, out, "probe"); return 0; }
  if (!strcmp(key, K_RTLB)) { MNode m(K_STR); m.s.adds("a\nb\rc"); Variant v = buildVariant(&m); Cmp cmp("Json.roundtrip"); roundTrip(v, &m, "Json.roundtrip", 0, cmp); return 0; }
  if (!strcmp(key, K_STAR)) { Bytes ref; const char* t = "/** x */1"; stripCheck(t, strlen(t), ref); return 0; }
  if (!strcmp(key, K_ESC)) { Bytes ref; const char* t = "\"a\\b//c\""; stripCheck(t, strlen(t), ref); return 0; }
  harnessBug("unknown probe %s", key);
}

int main(int argc, char** argv) {
  init(argc, argv, "h_json");
  if (opts.probe) { int rc = probe(opts.probe); finish(); return rc; }
  xTrunc = excluded(K_TRUNC); xBslb = excluded(K_BSLB); xRtlb = excluded(K_RTLB); xStar = excluded(K_STAR); xEsc = excluded(K_ESC);
  const char* m = opts.mode;
  if (!strcmp(m, "exh-a")) exhaustive("{}[],:\"\\ut0-. ", 14, 1510);
  else if (!strcmp(m, "exh-b")) exhaustive("\"\\\n\ra,[]", 8, 1511);
  else if (!strcmp(m, "gen")) genMode();
  else if (!strcmp(m, "mut")) mutMode();
  else if (!strcmp(m, "deep")) deepMode();
  else if (!strcmp(m, "roundtrip")) roundtripMode();
  else if (!strcmp(m, "strip-exh")) stripExh();
  else if (!strcmp(m, "strip-rand")) stripRand();
  else if (!strcmp(m, "reuse")) reuseMode();
  else harnessBug("unknown mode %s", m);
  cnt("malloc_hook_calls", g_hookCalls);
  leakCheck("Json/leak");
  finish();
  return 0;
}
