// h_server_loop.cpp - C14: the Server event loop honours timers, removals, readiness and interrupts.
// Virtual-time scenarios (single thread, interpose/net_shims.cpp): a seeded "world" of timers (equal due times on purpose), socket-pair clients,
// listeners on loopback ephemeral ports with raw harness connections, establishers to an open and to a closed port. External events (peer traffic,
// raw connects, interrupts) happen while the loop is idle inside epoll_wait; Server API calls happen between run() calls and inside every kind of
// callback (create / remove self / remove others - preferably ones whose event is already selected in the current poll batch -, write, suspend, interrupt).
// The accept and connect callbacks additionally act on the client they are being handed, before they return its callback object (freshClientActs: write with
// forced partial / EAGAIN / hard-error sends, suspend, suspend+write, write+suspend, nothing).
// Monitors:
//   timers   : activation k happens at now >= created + k*interval (never early), in non-decreasing due time within one dispatch round, none due is left
//              when the loop blocks, the poll timeout never reaches beyond the next due time; EINTR and oversleeping are injected
//   removal  : every callback object carries an `alive` flag (tombstones are kept to the end of the scenario): any callback after remove() returned fails
//   readiness: when the loop is about to block (epoll_wait(0) == 0), an independent poll() is made on the fd of every unsuspended client / client with
//              backlog / listener / pending establisher. Ready per poll() AND the needed readiness not requested from the poll set (epoll_ctl log of the
//              shim) = lost registration -> violation (no timing involved). Ready per poll() with the registration in place = kernel wake-up still in
//              flight (loopback softirq): re-polled with real-time naps, inconclusive after 10 s, never a violation
//   closing  : failed read/write (recv/send log) => onClosed before the loop blocks; "broadcast-to-dead-peers" makes writes to 2..3 clients fail hard in one go, so several
//              onClosed notifications are queued in the same loop iteration, and onClosed also drops another client whose notification is still queued (it must never arrive)
//   interrupt: run() returns iff interrupt() was requested since the last return; after interrupt() the very next poll must wake
//   names    : establishers made with Server::connect(host name, port): the library resolves in a worker thread of its thread pool. getaddrinfo is interposed
//              (net_shims) and every resolution waits inside the hook until the scenario releases it (an external action like peer traffic), so "resolution
//              pending" is a state the scenario controls: the establisher can be removed while it resolves, after it resolved but before the loop has looked at
//              the result, or - inside onAbolished - be removed and replaced at once by a new connect(host) (the pool reuses the slot). After a release the harness
//              waits (real time, bounded) until the resolver thread has written the loop's wake-up descriptor; nothing else in the world mode depends on threads.
//              No callback before the resolution was released, none after remove(), a released resolution is acted upon before the loop blocks again.
// Threaded scenarios (mode threads, real time, plain and tsan builds): 1..3 threads call interrupt() while run() polls for real.
#include "srv_util.hpp"
#include <nstd/Socket/Server.hpp>
#include <nstd/Socket/Socket.hpp>
#include <nstd/Time.hpp>
#include <pthread.h>
#include <sched.h>
#include <sys/stat.h>
#include <netdb.h>
#include <fcntl.h>
#include <unistd.h>
#include <stdlib.h>
#include <sys/syscall.h>
#ifndef VERIF_NO_PRIVATE
#define SOCK_FD(sockref) ((sockref).s)
#define SOCK_TAKE_FD(sockref, out) do { (out) = (sockref).s; (sockref).s = -1; } while (0)
#else   // fallback flavour: public API only
#define SOCK_FD(sockref) ((int)(sockref).getFileDescriptor())
#define SOCK_TAKE_FD(sockref, out) do { (out) = dup((int)(sockref).getFileDescriptor()); (sockref).close(); } while (0)
#endif


using namespace vh;
namespace ns = netshim;

enum Venue { V_OUT, V_IDLE, V_TIMER, V_READ, V_WRITE, V_CLOSED, V_ACCEPT, V_CONNECT, V_ABOLISH, NVENUE };
static const char* const VN[] = { "outside", "at-idle", "in-onActivated", "in-onRead", "in-onWrite", "in-onClosed", "in-onAccepted", "in-onConnected", "in-onAbolished" };

struct TimerM; struct ClientM; struct ListenerM; struct EstabM;
struct TCB : public Server::Timer::ICallback { TimerM* m; void onActivated(); };
struct CCB : public Server::Client::ICallback { ClientM* m; void onRead(); void onWrite(); void onClosed(); };
struct LCB : public Server::Listener::ICallback { ListenerM* m; Server::Client::ICallback* onAccepted(Server::Client& client, uint32 ip, uint16 port); };
struct ECB : public Server::Establisher::ICallback { EstabM* m; Server::Client::ICallback* onConnected(Server::Client& client); void onAbolished(); };

struct TimerM { int id; TCB cb; Server::Timer* t; int64_t interval, created; long k; bool alive; bool removedInEqualRun; int removedVenue, createdVenue; };
struct ClientM {
  int id; CCB cb; Server::Client* c; int fd, pfd; int origin;   // 0 pair, 1 accepted, 2 connected
  bool alive, suspended, closedSeen, expectClosed, peerClosed, peerEof, pendingOnWrite, backlogDropped, inWrite, errInThisWrite, inBatch, removedSelected;
  int removedVenue, forceSend;   // forceSend: 1 = next send partial, 2 = next send EAGAIN, 3 = next send hard error
  su::OutStream out; u64 S, peerGot; u32 inSalt; u64 inSent, inRead; long lastRecvRet; int lastRecvErr; long transitions, onWriteCount;
  int skipReads;
  u64 backlog() const { return out.total(inWrite) - S; }
};
struct ListenerM { int id; LCB cb; Server::Listener* l; int fd; uint16_t port; bool alive, inBatch, removedSelected; int removedVenue; Vec<int> pendFd; Vec<int> pendPort; long accepted; };
enum EstabKind { EK_ADDR_OPEN, EK_ADDR_CLOSED, EK_NAME_FAIL, EK_NAME_OPEN, EK_NAME_CLOSED, EK_NUMERIC_OPEN, NEK };   // numeric = host string "127.0.0.1": no resolver involved
static const char* const EKN[] = { "open-port", "closed-port", "unresolvable-name", "name-of-open-port", "name-of-closed-port", "numeric-host-open-port" };
struct EstabM { int id; ECB cb; Server::Establisher* e; int fd; uint16_t lport; bool alive, done, openTarget, inBatch, removedSelected; int removedVenue;
                int kind; bool byName, released, sockKnown; const char* removedClass; int notProcessedRechecks; };

enum Act { A_TIMER_NEW, A_TIMER_DEL, A_PAIR_NEW, A_CLIENT_DEL, A_CLIENT_WRITE, A_SUSPEND, A_RESUME, A_LISTEN_NEW, A_LISTEN_DEL, A_ESTAB_NEW, A_ESTAB_DEL, A_BROADCAST_DEAD, A_INTERRUPT,
           A_PEER_SEND, A_PEER_CLOSE, A_RAW_CONNECT, A_RESOLVE, NACT };
static const char* const AN[] = { "timer-new", "timer-del", "pair-new", "client-del", "client-write", "suspend", "resume", "listen-new", "listen-del", "estab-new", "estab-del", "broadcast-to-dead-peers", "interrupt",
                                  "peer-send", "peer-close", "raw-connect", "resolution-completes" };

static Server* g_srv = 0;
static Vec<TimerM*> g_tm; static Vec<ClientM*> g_cl; static Vec<ListenerM*> g_ls; static Vec<EstabM*> g_es;
static Vec<int> g_garbageFds, g_stashFd, g_stashPort;
static Rng* g_rng = 0;
static bool g_inRun = false, g_intrReq = false, g_final = false, g_virtual = true, g_recvFaults = false;
static int g_intrVenue = 0, g_venue = V_OUT;
static long g_waitsSinceIntr = 0, g_rounds = 0, g_stepsLeft = 0, g_cbSeq = 0, g_strikeSeq = -1, g_strikes = 0;
static int64_t g_nextStepAt = 0, g_roundLastDue = 0;
static u32 g_w[NACT]; static u32 g_reactPermille = 300;
static int g_rawListen = -1, g_closedSock = -1; static uint16_t g_rawPort = 0, g_closedPort = 0;
static u64 g_fp = 0;
static TimerM* g_selfTimer = 0; static ClientM* g_selfClient = 0; static ListenerM* g_selfListener = 0; static EstabM* g_selfEstab = 0;
static u8* g_tmp = 0; enum { TMPSZ = 1 << 16 };
static long g_removals = 0, g_activations = 0;
static const int64_t INTERVALS[] = { 1, 2, 3, 5, 10, 1000 };
struct Script { int i, j, variant; bool done; };
static Script* g_script = 0;

static const char* ctxBase() { return g_inRun ? "Server.run" : "driver"; }
static ClientM* byFd(int fd) { int t = ns::tagOf(fd); return t >= 0 && (size_t)t < g_cl.n ? g_cl[(size_t)t] : 0; }
static int64_t nextDue(const TimerM* m) { return m->created + (m->k + 1) * m->interval; }

// ---------------------------------------------------------------- raw TCP infrastructure owned by the harness
static uint16_t localPort(int fd) { sockaddr_in a; socklen_t l = sizeof a; memset(&a, 0, sizeof a); getsockname(fd, (sockaddr*)&a, &l); return ntohs(a.sin_port); }
static uint16_t peerPort(int fd) { sockaddr_in a; socklen_t l = sizeof a; memset(&a, 0, sizeof a); if (getpeername(fd, (sockaddr*)&a, &l) != 0) return 0; return ntohs(a.sin_port); }
static void lingerReset(int fd, bool on) { struct linger lg; lg.l_onoff = on ? 1 : 0; lg.l_linger = 0; setsockopt(fd, SOL_SOCKET, SO_LINGER, &lg, sizeof lg); }   // close() sends RST: no TIME_WAIT entries pile up on the ephemeral ports
static void rawInfra() {
  if (g_rawListen >= 0) return;
  sockaddr_in a; memset(&a, 0, sizeof a); a.sin_family = AF_INET; a.sin_addr.s_addr = htonl(INADDR_LOOPBACK);
  for (int attempt = 0; ; ++attempt) {   // bind(0)+listen can collide with another process that is between bind and listen: retry
    g_rawListen = socket(AF_INET, SOCK_STREAM | SOCK_CLOEXEC, 0);
    if (g_rawListen >= 0 && bind(g_rawListen, (sockaddr*)&a, sizeof a) == 0 && listen(g_rawListen, 128) == 0) break;
    int e = errno; if (g_rawListen >= 0) close(g_rawListen); g_rawListen = -1;
    if (attempt >= 200) harnessBug("cannot create the raw loopback listener: %s", strerror(e));
    su::sleepUs(2000);
  }
  su::setNonBlock(g_rawListen); g_rawPort = localPort(g_rawListen);
  for (int attempt = 0; ; ++attempt) {
    g_closedSock = socket(AF_INET, SOCK_STREAM | SOCK_CLOEXEC, 0);
    if (g_closedSock >= 0 && bind(g_closedSock, (sockaddr*)&a, sizeof a) == 0) break;
    int e = errno; if (g_closedSock >= 0) close(g_closedSock); g_closedSock = -1;
    if (attempt >= 200) harnessBug("cannot reserve a closed loopback port: %s", strerror(e));
    su::sleepUs(2000);
  }
  g_closedPort = localPort(g_closedSock);
}
// the raw end of the connection an establisher made from local port `lport` (accept queue order is not the dispatch order: stash the others)
static int rawAcceptFor(uint16_t lport) {
  for (size_t i = 0; i < g_stashFd.n; ++i) if (g_stashPort[i] == (int)lport) { int fd = g_stashFd[i]; g_stashFd.removeAt(i); g_stashPort.removeAt(i); return fd; }
  for (int tries = 0; tries < 64; ++tries) {
    int fd = accept4(g_rawListen, 0, 0, SOCK_CLOEXEC);
    if (fd < 0) { if (errno == EINTR) continue; if (!su::waitReady(g_rawListen, POLLIN)) return -1; continue; }
    su::setNonBlock(fd); lingerReset(fd, true); su::tcpFast(fd);
    uint16_t pp = peerPort(fd);
    if (pp == lport) return fd;
    g_stashFd.push(fd); g_stashPort.push((int)pp);
  }
  return -1;
}
static void rawCleanup() {
  for (size_t i = 0; i < g_stashFd.n; ++i) close(g_stashFd[i]);
  g_stashFd.clear(); g_stashPort.clear();
  for (;;) { int fd = accept4(g_rawListen, 0, 0, SOCK_CLOEXEC); if (fd < 0) break; lingerReset(fd, true); close(fd); }
  for (size_t i = 0; i < g_garbageFds.n; ++i) close(g_garbageFds[i]);
  g_garbageFds.clear();
}

// ---------------------------------------------------------------- scripted name resolution (the hook runs in the library's resolver threads)
enum { MAXG = 48 };
struct Gate { int used, state, released, failing; };   // state: 0 not yet asked, 1 waiting inside getaddrinfo, 2 answered
static Gate g_gate[MAXG];
static pthread_mutex_t g_gateMx = PTHREAD_MUTEX_INITIALIZER; static pthread_cond_t g_gateCv = PTHREAD_COND_INITIALIZER;
static int g_eventFd = -1;
static int resolveHook(const char* node, uint32_t* addr) {
  int id = -1;
  if (!node || node[0] != 'e' || sscanf(node + 1, "%d", &id) != 1 || id < 0 || id >= MAXG || !strstr(node, ".test")) return ns::RESOLVE_PASS;
  pthread_mutex_lock(&g_gateMx);
  Gate& g = g_gate[id];
  g.state = 1; pthread_cond_broadcast(&g_gateCv);
  while (!g.released) pthread_cond_wait(&g_gateCv, &g_gateMx);
  int failing = g.failing; g.state = 2; pthread_cond_broadcast(&g_gateCv);
  pthread_mutex_unlock(&g_gateMx);
  if (failing) return EAI_NONAME;
  *addr = 0x7f000001u;
  return 0;
}
// the library's thread pool: enough workers for every resolution a scenario keeps waiting (independent of the number of processors)
extern "C" void libnstd_verif_pool_config(usize* minThreads, usize* maxThreads, usize* queueSize) { (void)minThreads; (void)queueSize; *maxThreads = 12; }
static int gatesWaiting() { int n = 0; pthread_mutex_lock(&g_gateMx); for (int i = 0; i < MAXG; ++i) if (g_gate[i].used && !g_gate[i].released) ++n; pthread_mutex_unlock(&g_gateMx); return n; }
static void openAllGates() { pthread_mutex_lock(&g_gateMx); for (int i = 0; i < MAXG; ++i) g_gate[i].released = 1; pthread_cond_broadcast(&g_gateCv); pthread_mutex_unlock(&g_gateMx); }
// the resolution of establisher m completes now: the resolver thread leaves getaddrinfo, marks the resolver finished and wakes the loop (eventfd). Returns false if
// nothing was done (the wake-up descriptor is already readable: the completion could not be told apart from the pending wake-up)
static bool releaseGate(EstabM* m) {
  if (!m->byName || m->released) return false;
  if (su::pollNow(g_eventFd, POLLIN)) { cnt("resolution_release_skipped_wakeup_pending"); return false; }
  int64_t t0 = ns::realMonotonicMs();
  pthread_mutex_lock(&g_gateMx);
  Gate& g = g_gate[m->id];
  while (g.state == 0) {   // the pool has not started the job yet
    pthread_mutex_unlock(&g_gateMx); su::sleepUs(100);
    if (ns::realMonotonicMs() - t0 > 30000) harnessBug("establisher %d: the library never called getaddrinfo for its host name (30 s)", m->id);
    pthread_mutex_lock(&g_gateMx);
  }
  g.released = 1; pthread_cond_broadcast(&g_gateCv);
  pthread_mutex_unlock(&g_gateMx);
  if (!su::waitReady(g_eventFd, POLLIN, 30000)) harnessBug("establisher %d: the resolver thread did not wake the loop within 30 s after getaddrinfo returned", m->id);
  m->released = true;
  cnt("resolutions_completed"); cnt(m->alive ? "resolutions_completed_establisher_alive" : "resolutions_completed_establisher_removed");
  { char it[64]; snprintf(it, sizeof it, "%s/%s/%s", EKN[m->kind], m->alive ? "alive" : "removed", VN[g_venue]); setItem("resolution_completions", it); }
  hist.addf("  [%s] the resolution of establisher%d's name completes (%s)%s\n", VN[g_venue], m->id, m->kind == EK_NAME_FAIL ? "unknown host" : "127.0.0.1", m->alive ? "" : " - the establisher was removed meanwhile");
  g_fp = mix(g_fp, 1200 + (u64)m->id);
  return true;
}
// by-name establisher whose resolution has completed: has the loop opened its socket yet (no callback tells)?
static void refreshEstab(EstabM* m) {
  if (!m->alive || m->done || !m->byName || !m->released || m->sockKnown) return;
  int s = SOCK_FD(*(Socket*)(void*)m->e);
  if (s >= 0) { m->fd = s; m->lport = localPort(s); m->sockKnown = true; cnt("named_establishers_seen_connecting"); }
}

// ---------------------------------------------------------------- peer side of clients
static void drainPeer(ClientM* m) {
  if (m->pfd < 0 || m->peerEof) return;
  for (;;) {
    long r = ns::realRecv(m->pfd, g_tmp, TMPSZ, 0);
    if (m->origin != 0) su::quickAck(m->pfd);   // TCP_QUICKACK is not sticky
    if (r < 0) { if (errno == EINTR) continue; if (errno == EAGAIN || errno == EWOULDBLOCK) return; m->peerEof = true; return; }
    if (r == 0) { m->peerEof = true; return; }
    u64 off = 0;
    long d = m->out.compare(m->peerGot, g_tmp, (size_t)r, m->inWrite, &off);
    if (d != -1) fail(d == -2 ? "Server.Client/peer-stream/excess-bytes" : "Server.Client/peer-stream/content", "client %d: peer stream wrong at position %llu (expected offered offset %llu)", m->id, (unsigned long long)(m->peerGot + (u64)(d < 0 ? 0 : d)), (unsigned long long)off);
    m->peerGot += (u64)r; cnt("peer_bytes_verified", r);
  }
}
static void peerSend(ClientM* m, long n) {
  if (m->pfd < 0 || m->peerClosed || n <= 0) return;
  if (n > TMPSZ) n = TMPSZ;
  su::fill(m->inSalt, m->inSent, g_tmp, (size_t)n);
  long r = ns::realSend(m->pfd, g_tmp, (size_t)n, MSG_NOSIGNAL);
  if (r > 0) m->inSent += (u64)r;
  hist.addf("  peer of client%d sends %ld -> %ld\n", m->id, n, r);
}

// ---------------------------------------------------------------- shim hooks: send / recv
static long hSendPlan(int fd, const void* buf, size_t len, int* err) {
  ClientM* m = byFd(fd); if (!m) return -2;
  cnt("send_calls");
  if (!m->alive) fail("Server.Client.send/after-remove", "send() on the socket of removed client %d", m->id);
  u64 off = 0;
  long d = m->out.compare(m->S, (const u8*)buf, len, m->inWrite, &off);
  if (d != -1 || len == 0) fail("Server.Client.send/content", "client %d: bytes handed to send() are not the next accepted bytes (position %llu, len %zu)", m->id, (unsigned long long)m->S, len);
  int f = m->forceSend; m->forceSend = 0;
  if (f == 1 && len >= 2) { cnt("send_forced_partial"); return 1 + (long)g_rng->below(len - 1); }
  if (f == 2) { cnt("send_forced_eagain"); *err = EAGAIN; return -1; }
  if (f == 3) { cnt("send_forced_error"); *err = EPIPE; return -1; }
  return -2;
}
static void hSendDone(int fd, const void* buf, size_t len, long ret, int err) {
  (void)buf; (void)len;
  ClientM* m = byFd(fd); if (!m) return;
  if (ret > 0) {
    u64 before = m->backlog(); if ((u64)ret > before) harnessBug("send returned more than offered");
    m->S += (u64)ret;
    if (!m->inWrite && before > 0 && m->backlog() == 0) { m->pendingOnWrite = true; ++m->transitions; cnt("backlog_drained"); }
  } else if (ret < 0 && (err == EAGAIN || err == EWOULDBLOCK)) { /* nothing */ }
  else { m->expectClosed = true; if (m->inWrite) m->errInThisWrite = true; else m->backlogDropped = true; hist.addf("    send(client%d) failed: %s\n", m->id, strerror(err)); }
}
static void hDrain(int fd) { ClientM* m = byFd(fd); if (m) drainPeer(m); }
static long hRecvPlan(int fd, size_t len, int* err) {
  ClientM* m = byFd(fd); if (!m || !g_recvFaults) return -2;
  u32 x = (u32)g_rng->below(100);
  if (x < 6 && len > 1) { cnt("recv_forced_short"); return 1 + (long)g_rng->below(len - 1); }
  if (x < 10) { cnt("recv_forced_eagain"); *err = EAGAIN; return -1; }
  if (x < 11) { cnt("recv_forced_error"); *err = ECONNRESET; return -1; }
  return -2;
}
static void hRecvDone(int fd, const void* buf, size_t len, long ret, int err) { (void)buf; (void)len; ClientM* m = byFd(fd); if (!m) return; m->lastRecvRet = ret; m->lastRecvErr = err; cnt("recv_calls"); }

// ---------------------------------------------------------------- model operations (Server API calls)
static long equalRun(const TimerM* m) { long n = 0; for (size_t i = 0; i < g_tm.n; ++i) if (g_tm[i]->alive && nextDue(g_tm[i]) == nextDue(m)) ++n; return n; }

static TimerM* newTimer(int64_t interval) {
  TimerM* m = new TimerM; m->id = (int)g_tm.n; m->cb.m = m; m->interval = interval; m->k = 0; m->alive = true; m->removedInEqualRun = false; m->removedVenue = 0; m->createdVenue = g_venue;
  m->created = g_virtual ? ns::monotonicMs() : Time::ticks();   // the library samples the same clock inside time(): virtual origin BASE_MS = 1000000
  setctxf("Server.time/interval=%lld/%s", (long long)interval, VN[g_venue]);
  m->t = g_srv->time(interval, m->cb);
  setctx(ctxBase());
  if (!m->t) harnessBug("Server::time returned 0");
  g_tm.push(m);
  long run = equalRun(m); statMax("max_equal_due_run", run); if (run >= 3) cnt("timers_created_into_equal_run_of_3plus");
  cnt("timers_created"); hist.addf("  [%s] timer%d = time(%lld) at t=%lld (equal-due run %ld)\n", VN[g_venue], m->id, (long long)interval, (long long)ns::vnow(), run);
  g_fp = mix(g_fp, 100 + (u64)interval);
  return m;
}
static void removeTimer(TimerM* m) {
  long run = equalRun(m);
  m->removedInEqualRun = run >= 2; m->removedVenue = g_venue;
  setctxf("Server.remove(Timer)/%s/%s%s", run >= 2 ? "equal-due-times" : "unique-due-time", VN[g_venue], m == g_selfTimer ? "/self" : "");
  hist.addf("  [%s] remove(timer%d)%s equal-due run %ld, next due t=%lld\n", VN[g_venue], m->id, m == g_selfTimer ? " (self)" : "", run, (long long)(nextDue(m) - ns::originMs()));
  g_srv->remove(*m->t);
  m->alive = false; m->t = 0; setctx(ctxBase());
  cnt("timers_removed"); if (run >= 3) cnt("timers_removed_from_equal_run_of_3plus"); if (m == g_selfTimer) cnt("timers_removed_self");
  { char it[64]; snprintf(it, sizeof it, "timer/%s/%s", VN[g_venue], run >= 3 ? "run3+" : run == 2 ? "run2" : "run1"); setItem("removal_classes", it); }
  ++g_removals; g_fp = mix(g_fp, 200 + (u64)m->id);
}

static ClientM* allocClient(int origin) {
  ClientM* m = new ClientM; m->id = (int)g_cl.n; m->cb.m = m; m->c = 0; m->fd = m->pfd = -1; m->origin = origin;
  m->alive = m->suspended = m->closedSeen = m->expectClosed = m->peerClosed = m->peerEof = m->pendingOnWrite = m->backlogDropped = m->inWrite = m->errInThisWrite = m->inBatch = m->removedSelected = false;
  m->removedVenue = 0; m->forceSend = 0; m->S = m->peerGot = 0; m->inSent = m->inRead = 0; m->lastRecvRet = 0; m->lastRecvErr = 0; m->transitions = m->onWriteCount = 0; m->skipReads = 0;
  m->out.salt = (u32)(m->id * 2 + 21); m->inSalt = (u32)(m->id * 2 + 22);
  g_cl.push(m);
  return m;
}
static void bindClient(ClientM* m, Server::Client& c, int pfd) {
  m->c = &c; m->pfd = pfd; m->fd = (int)c.getSocket().getFileDescriptor(); m->alive = true;
  ns::registerFd(m->fd, m->id);
}
static ClientM* makeClientModel(Server::Client& c, int pfd, int origin) { ClientM* m = allocClient(origin); bindClient(m, c, pfd); return m; }
static ClientM* newPair() {
  Socket peer;
  ClientM* m = allocClient(0);   // the callback object must exist before pair()
  setctxf("Server.pair/%s", VN[g_venue]);
  Server::Client* c = g_srv->pair(m->cb, peer);
  setctx(ctxBase());
  if (!c) harnessBug("Server::pair failed: %s", strerror(errno));
  int pfd; SOCK_TAKE_FD(peer, pfd); su::setNonBlock(pfd);
  bindClient(m, *c, pfd);
  cnt("pairs_created"); hist.addf("  [%s] client%d = pair()\n", VN[g_venue], m->id);
  g_fp = mix(g_fp, 300);
  return m;
}
static void removeClient(ClientM* m) {
  m->removedSelected = m->inBatch; m->removedVenue = g_venue;
  setctxf("Server.remove(Client)/%s/%s%s", m->inBatch ? "event-selected" : "no-event-selected", VN[g_venue], m == g_selfClient ? "/self" : "");
  hist.addf("  [%s] remove(client%d)%s%s\n", VN[g_venue], m->id, m == g_selfClient ? " (self)" : "", m->inBatch ? " (event selected, undelivered)" : "");
  g_srv->remove(*m->c);
  m->alive = false; m->c = 0; ns::unregisterFd(m->fd); setctx(ctxBase());
  cnt("clients_removed"); if (m->removedSelected) cnt("removed_with_selected_event"); if (m == g_selfClient) cnt("clients_removed_self");
  { char it[64]; snprintf(it, sizeof it, "client/%s/%s", VN[g_venue], m->removedSelected ? "selected" : "idle"); setItem("removal_classes", it); }
  ++g_removals; g_fp = mix(g_fp, 400 + (u64)m->id);
}
static void clientWrite(ClientM* m, long size) {
  u8* p = (u8*)malloc((size_t)size);
  su::fill(m->out.salt, m->out.offered, p, (size_t)size);
  bool hadBacklog = m->backlog() > 0;
  m->out.pend.start = m->out.offered; m->out.pend.len = (u64)size; m->out.hasPend = true; m->out.offered += (u64)size;
  u64 Sbefore = m->S; usize post = 12345;
  m->inWrite = true; m->errInThisWrite = false;
  setctxf("Server.Client.write/%s/%s", hadBacklog ? "append" : "direct", VN[g_venue]);
  bool ok = m->c->write((const byte*)p, (usize)size, &post);
  m->inWrite = false; m->out.hasPend = false; free(p); setctx(ctxBase());
  cnt("client_writes");
  if (ok) {
    m->out.acc.push(m->out.pend); m->out.accepted += (u64)size;
    if (m->errInThisWrite) fail("Server.Client.write/hard-error/returned-true", "client %d: send failed hard inside write() but write() returned true", m->id);
    if ((u64)post != m->backlog() || (u64)m->c->getSendBufferSize() != m->backlog()) fail("Server.Client.write/postponed", "client %d: postponed=%llu getSendBufferSize=%llu, model backlog %llu", m->id, (unsigned long long)post, (unsigned long long)m->c->getSendBufferSize(), (unsigned long long)m->backlog());
    if (m->backlog() > 0) cnt("client_writes_with_backlog");
  } else {
    if (!m->errInThisWrite) fail("Server.Client.write/returned-false-without-send-failure", "client %d: write returned false although no send failed", m->id);
    if (m->S != Sbefore) fail("Server.Client.write/returned-false-after-sending", "client %d: write returned false after handing bytes to the OS", m->id);
    m->expectClosed = true; cnt("client_writes_false");
  }
  hist.addf("  [%s] client%d.write(%ld) -> %s backlog=%llu\n", VN[g_venue], m->id, size, ok ? "true" : "false", (unsigned long long)m->backlog());
  g_fp = mix(g_fp, 500 + (u64)size);
}
static ListenerM* newListener() {
  ListenerM* m = new ListenerM; m->id = (int)g_ls.n; m->cb.m = m; m->alive = true; m->inBatch = m->removedSelected = false; m->removedVenue = 0; m->accepted = 0;
  setctxf("Server.listen/%s", VN[g_venue]);
  m->l = g_srv->listen(Socket::loopbackAddress, 0, m->cb);
  setctx(ctxBase());
  if (!m->l) { cnt("listen_failed"); delete m; return 0; }
  m->fd = SOCK_FD(*(Socket*)(void*)m->l); m->port = localPort(m->fd);
  g_ls.push(m); cnt("listeners_created"); hist.addf("  [%s] listener%d = listen(127.0.0.1:%u)\n", VN[g_venue], m->id, (unsigned)m->port);
  g_fp = mix(g_fp, 600);
  return m;
}
static void removeListener(ListenerM* m) {
  m->removedSelected = m->inBatch; m->removedVenue = g_venue;
  setctxf("Server.remove(Listener)/%s/%s%s", m->inBatch ? "event-selected" : "no-event-selected", VN[g_venue], m == g_selfListener ? "/self" : "");
  hist.addf("  [%s] remove(listener%d)%s (%zu connection(s) not yet accepted)\n", VN[g_venue], m->id, m->inBatch ? " (event selected, undelivered)" : "", m->pendFd.n);
  g_srv->remove(*m->l);
  m->alive = false; m->l = 0; setctx(ctxBase());
  for (size_t i = 0; i < m->pendFd.n; ++i) g_garbageFds.push(m->pendFd[i]);
  m->pendFd.clear(); m->pendPort.clear();
  cnt("listeners_removed"); if (m->removedSelected) cnt("removed_with_selected_event");
  { char it[64]; snprintf(it, sizeof it, "listener/%s/%s", VN[g_venue], m->removedSelected ? "selected" : "idle"); setItem("removal_classes", it); }
  ++g_removals; g_fp = mix(g_fp, 700 + (u64)m->id);
}
static long g_rawConnects = 0;
static void rawConnect(ListenerM* m) {
  ++g_rawConnects;
  int fd = socket(AF_INET, SOCK_STREAM | SOCK_CLOEXEC, 0); if (fd < 0) return;
  sockaddr_in a; memset(&a, 0, sizeof a); a.sin_family = AF_INET; a.sin_addr.s_addr = htonl(INADDR_LOOPBACK); a.sin_port = htons(m->port);
  if (connect(fd, (sockaddr*)&a, sizeof a) != 0) { cnt("raw_connect_failed"); close(fd); return; }
  su::setNonBlock(fd); lingerReset(fd, true); su::tcpFast(fd);
  m->pendFd.push(fd); m->pendPort.push((int)localPort(fd));
  cnt("raw_connects"); hist.addf("  raw connection from port %u to listener%d\n", (unsigned)localPort(fd), m->id);
}
static EstabM* newEstab(int kind) {
  const bool open = kind == EK_ADDR_OPEN || kind == EK_NAME_OPEN || kind == EK_NUMERIC_OPEN, byName = kind == EK_NAME_FAIL || kind == EK_NAME_OPEN || kind == EK_NAME_CLOSED;
  if (byName && ((int)g_es.n >= MAXG || gatesWaiting() >= 6)) return 0;
  EstabM* m = new EstabM; m->id = (int)g_es.n; m->cb.m = m; m->alive = true; m->done = false; m->openTarget = open; m->inBatch = m->removedSelected = false; m->removedVenue = 0;
  m->kind = kind; m->byName = byName; m->released = m->sockKnown = false; m->removedClass = 0; m->fd = -1; m->lport = 0; m->notProcessedRechecks = 0;
  if (kind == EK_ADDR_OPEN || kind == EK_ADDR_CLOSED) {
    setctxf("Server.connect/%s/%s", open ? "open-port" : "closed-port", VN[g_venue]);
    m->e = g_srv->connect(Socket::loopbackAddress, open ? g_rawPort : g_closedPort, m->cb);
  } else {
    char host[64];
    if (kind == EK_NUMERIC_OPEN) snprintf(host, sizeof host, "127.0.0.1");
    else {
      snprintf(host, sizeof host, "e%d.%s.test", m->id, kind == EK_NAME_FAIL ? "unknown" : open ? "open" : "closed");
      pthread_mutex_lock(&g_gateMx); Gate& g = g_gate[m->id]; g.used = 1; g.state = 0; g.released = 0; g.failing = kind == EK_NAME_FAIL; pthread_mutex_unlock(&g_gateMx);
    }
    setctxf("Server.connect(host)/%s/%s", EKN[kind], VN[g_venue]);
    m->e = g_srv->connect(String(host, strlen(host)), open ? g_rawPort : g_closedPort, m->cb);
    if (!m->e && byName) { pthread_mutex_lock(&g_gateMx); g_gate[m->id].used = 0; pthread_mutex_unlock(&g_gateMx); }
  }
  setctx(ctxBase());
  if (!m->e) { cnt("connect_returned_null"); delete m; return 0; }
  if (!byName) { m->fd = SOCK_FD(*(Socket*)(void*)m->e); m->lport = localPort(m->fd); m->sockKnown = true; }
  g_es.push(m); cnt(open ? "establishers_to_open_port" : "establishers_to_closed_port");
  if (byName) { cnt("establishers_by_name"); hist.addf("  [%s] establisher%d = connect(host name: %s), resolution pending\n", VN[g_venue], m->id, EKN[kind]); }
  else { if (kind == EK_NUMERIC_OPEN) cnt("establishers_by_numeric_host"); hist.addf("  [%s] establisher%d = connect(%s port) from port %u\n", VN[g_venue], m->id, open ? "open" : "closed", (unsigned)m->lport); }
  setItem("establisher_kinds", EKN[kind]);
  g_fp = mix(g_fp, 800 + (open ? 1 : 0) + (u64)kind * 2);
  return m;
}
static int pickEstabKind() {
  Rng& r = *g_rng;
  if (r.chance(1, 2)) return r.chance(3, 5) ? EK_ADDR_OPEN : EK_ADDR_CLOSED;
  u32 x = (u32)r.below(20);
  return x < 8 ? EK_NAME_FAIL : x < 15 ? EK_NAME_OPEN : x < 18 ? EK_NAME_CLOSED : EK_NUMERIC_OPEN;
}
static void removeEstab(EstabM* m) {
  refreshEstab(m);
  // by name: "resolving" = getaddrinfo has not returned, "resolved-unprocessed" = it has, the loop has not looked at the result yet
  const char* ncls = m->done || !m->byName ? 0 : !m->released ? "resolving" : !m->sockKnown ? "resolved-unprocessed" : 0;
  m->removedSelected = m->inBatch && !m->done; m->removedVenue = g_venue; m->removedClass = ncls;
  setctxf("Server.remove(Establisher)/%s/%s%s", m->done ? "finished" : ncls ? ncls : m->inBatch ? "event-selected" : "pending", VN[g_venue], m == g_selfEstab ? "/self" : "");
  hist.addf("  [%s] remove(establisher%d)%s\n", VN[g_venue], m->id, m->done ? " (finished)" : ncls ? (!m->released ? " (its name is being resolved)" : " (name resolved, result not yet processed by the loop)") : m->inBatch ? " (event selected, undelivered)" : " (pending)");
  g_srv->remove(*m->e);
  m->alive = false; m->e = 0; setctx(ctxBase());
  cnt("establishers_removed"); if (m->removedSelected) cnt("removed_with_selected_event");
  if (ncls) cnt(!m->released ? "establishers_removed_while_resolving" : "establishers_removed_resolved_unprocessed");
  { char it[64]; snprintf(it, sizeof it, "establisher/%s/%s", VN[g_venue], m->done ? "finished" : ncls ? ncls : m->removedSelected ? "selected" : "pending"); setItem("removal_classes", it); }
  ++g_removals; g_fp = mix(g_fp, 900 + (u64)m->id);
}
static void doInterrupt(int times) {
  for (int i = 0; i < times; ++i) {
    setctxf("Server.interrupt/%s%s", VN[g_venue], g_intrReq ? "/already-requested" : "");
    g_srv->interrupt();
    if (!g_intrReq) { g_intrReq = true; g_intrVenue = g_venue; g_waitsSinceIntr = 0; }
    else cnt("interrupt_while_pending");
    cnt("interrupts");
  }
  setctx(ctxBase());
  { char it[48]; snprintf(it, sizeof it, "%s", VN[g_venue]); setItem("interrupt_venues", it); }
  hist.addf("  [%s] interrupt() x%d\n", VN[g_venue], times);
  g_fp = mix(g_fp, 1000 + (u64)times);
}

// ---------------------------------------------------------------- random actions
template <typename T> static T* pickAlive(Vec<T*>& v, bool preferBatch) {
  Vec<T*> a, b;
  for (size_t i = 0; i < v.n; ++i) if (v[i]->alive) { a.push(v[i]); if (v[i]->inBatch) b.push(v[i]); }
  if (preferBatch && b.n && g_rng->chance(2, 3)) return b[g_rng->below(b.n)];
  return a.n ? a[g_rng->below(a.n)] : 0;
}
template <typename T> static size_t aliveN(const Vec<T*>& v) { size_t n = 0; for (size_t i = 0; i < v.n; ++i) if (v.d[i]->alive) ++n; return n; }

static bool apiAllowed() { return g_venue != V_IDLE; }   // while the loop is blocked only the outside world acts (and interrupt(), which is thread-safe by contract)

static void doAct(int a) {
  Rng& r = *g_rng;
  switch (a) {
  case A_TIMER_NEW: {
    if (!apiAllowed() || aliveN(g_tm) >= 14 || g_tm.n >= 90) return;
    int64_t iv;
    TimerM* like = 0; { Vec<TimerM*> al; for (size_t i = 0; i < g_tm.n; ++i) if (g_tm[i]->alive) al.push(g_tm[i]); if (al.n && r.chance(1, 2)) like = al[r.below(al.n)]; }
    iv = like ? like->interval : INTERVALS[r.below(r.chance(1, 8) ? 6 : 5)];
    int burst = r.chance(1, 4) ? 2 + (int)r.below(4) : 1;   // several timers in the same tick: equal due times
    for (int i = 0; i < burst && aliveN(g_tm) < 14; ++i) newTimer(iv);
    break; }
  case A_TIMER_DEL: {
    if (!apiAllowed()) return;
    TimerM* t = 0;
    if (g_selfTimer && g_selfTimer->alive && r.chance(1, 3)) t = g_selfTimer;
    else {
      Vec<TimerM*> al, eq; for (size_t i = 0; i < g_tm.n; ++i) if (g_tm[i]->alive) { al.push(g_tm[i]); if (equalRun(g_tm[i]) >= 2) eq.push(g_tm[i]); }
      if (eq.n && r.chance(2, 3)) t = eq[r.below(eq.n)]; else if (al.n) t = al[r.below(al.n)];
    }
    if (t) removeTimer(t);
    break; }
  case A_PAIR_NEW: if (apiAllowed() && aliveN(g_cl) < 8 && g_cl.n < 60) newPair(); break;
  case A_CLIENT_DEL: {
    if (!apiAllowed()) return;
    ClientM* c = (g_selfClient && g_selfClient->alive && r.chance(1, 4)) ? g_selfClient : pickAlive(g_cl, true);
    if (c) removeClient(c);
    break; }
  case A_CLIENT_WRITE: {
    if (!apiAllowed()) return;
    ClientM* c = pickAlive(g_cl, false); if (!c || c->expectClosed) return;   // a client known to be closing is not written to (its unsent backlog may have been dropped)
    u32 x = (u32)r.below(10);
    if (x < 3) c->forceSend = 1; else if (x < 4) c->forceSend = 2; else if (x == 9 && r.chance(1, 4)) c->forceSend = 3;
    if (c->backlog() > 0) c->forceSend = 0;   // applies to the next send only if it is this write's own
    clientWrite(c, 1 + (long)r.below(r.chance(1, 5) ? 20000 : 300));
    break; }
  case A_SUSPEND: {
    if (!apiAllowed()) return;
    ClientM* c = pickAlive(g_cl, true); if (!c || c->suspended || c->peerClosed) return;
    if (c->inBatch && c != g_selfClient) cnt("suspend_while_event_selected");
    setctx("Server.Client.suspend"); c->c->suspend(); c->suspended = true; setctx(ctxBase()); cnt("suspends");
    hist.addf("  [%s] client%d.suspend()%s\n", VN[g_venue], c->id, c->inBatch ? " (event selected)" : "");
    break; }
  case A_RESUME: {
    if (!apiAllowed()) return;
    Vec<ClientM*> s; for (size_t i = 0; i < g_cl.n; ++i) if (g_cl[i]->alive && g_cl[i]->suspended) s.push(g_cl[i]);
    if (!s.n) return; ClientM* c = s[r.below(s.n)];
    if (c->inSent > c->inRead) cnt("resumes_with_pending_data");
    setctx("Server.Client.resume"); c->c->resume(); c->suspended = false; setctx(ctxBase()); cnt("resumes");
    hist.addf("  [%s] client%d.resume()\n", VN[g_venue], c->id);
    break; }
  case A_LISTEN_NEW: if (apiAllowed() && aliveN(g_ls) < 3 && g_ls.n < 15) newListener(); break;
  case A_LISTEN_DEL: { if (!apiAllowed()) return; ListenerM* l = (g_selfListener && g_selfListener->alive && r.chance(1, 3)) ? g_selfListener : pickAlive(g_ls, true); if (l) removeListener(l); break; }
  case A_ESTAB_NEW: if (apiAllowed() && aliveN(g_es) < 4 && g_es.n < 16 && g_cl.n < 60) newEstab(pickEstabKind()); break;
  case A_ESTAB_DEL: { if (!apiAllowed()) return; EstabM* e = pickAlive(g_es, true); if (e && e != g_selfEstab) removeEstab(e); break; }
  case A_BROADCAST_DEAD: {   // writes to several clients fail hard in one go: all of them are queued for onClosed in the same loop iteration
    if (!apiAllowed()) return;
    Vec<ClientM*> c; for (size_t i = 0; i < g_cl.n; ++i) { ClientM* m = g_cl[i]; if (m->alive && !m->expectClosed && !m->closedSeen && m->backlog() == 0) c.push(m); }
    if (c.n < 2) return;
    int n = 2 + (int)r.below(c.n >= 3 ? 2 : 1);
    for (int k = 0; k < n; ++k) { size_t at = (size_t)r.below(c.n); ClientM* m = c[at]; c.removeAt(at); m->forceSend = 3; clientWrite(m, 1 + (long)r.below(300)); }
    cnt("broadcasts_to_dead_peers");
    break; }
  case A_INTERRUPT: doInterrupt(r.chance(1, 4) ? 2 : 1); break;
  case A_PEER_SEND: { ClientM* c = pickAlive(g_cl, false); if (c) { peerSend(c, 1 + (long)r.below(r.chance(1, 6) ? 20000 : 200)); if (r.chance(1, 6)) c->skipReads = 1 + (int)r.below(2); } break; }
  case A_PEER_CLOSE: {
    ClientM* c = pickAlive(g_cl, false); if (!c || c->suspended || c->peerClosed || c->pfd < 0) return;
    drainPeer(c);
    bool graceful = c->origin == 0 || r.chance(1, 10);   // TCP peers mostly reset (SO_LINGER 0), see lingerReset
    if (c->origin != 0 && graceful) lingerReset(c->pfd, false);
    cnt(graceful ? "peer_closes_graceful" : "peer_closes_reset");
    hist.addf("  peer of client%d closes%s\n", c->id, graceful ? "" : " (reset)"); close(c->pfd); c->pfd = -1; c->peerClosed = true; c->peerEof = true; cnt("peer_closes");
    break; }
  case A_RESOLVE: {   // external: a pending name resolution completes (also of an establisher that was removed meanwhile)
    if (g_intrReq) return;
    Vec<EstabM*> w; for (size_t i = 0; i < g_es.n; ++i) if (g_es[i]->byName && !g_es[i]->released) w.push(g_es[i]);
    if (w.n) releaseGate(w[r.below(w.n)]);
    break; }
  case A_RAW_CONNECT: { ListenerM* l = pickAlive(g_ls, false); if (l && g_rawConnects < 16 && aliveN(g_cl) < 12) { int n = 1 + (int)g_rng->below(3); for (int i = 0; i < n; ++i) rawConnect(l); } break; }
  default: break;
  }
}
static void randomActs(int maxn, bool externalOnly) {
  u32 tot = 0; for (int i = 0; i < NACT; ++i) if (!externalOnly || i >= A_INTERRUPT) tot += g_w[i];
  if (!tot) return;
  int n = 1 + (int)g_rng->below((u64)maxn);
  for (int k = 0; k < n; ++k) {
    u32 x = (u32)g_rng->below(tot); int a = 0;
    for (a = 0; a < NACT; ++a) { if (externalOnly && a < A_INTERRUPT) continue; if (x < g_w[a]) break; x -= g_w[a]; }
    if (a < NACT) { cnt("actions"); setItem("actions_by_venue", AN[a]); doAct(a); }
  }
}
static void react() { if (g_rng->below(1000) < g_reactPermille) randomActs(2, false); }

// ---------------------------------------------------------------- what onAccepted / onConnected do to the client they are handed, before returning its callback object
enum FreshAct { F_NONE, F_WRITE, F_SUSPEND, F_SUSPEND_WRITE, F_WRITE_SUSPEND, NFRESH };
static const char* const FN[] = { "nothing", "write", "suspend", "suspend+write", "write+suspend" };
static void freshSuspend(ClientM* c) {
  setctxf("Server.Client.suspend/%s", VN[g_venue]); c->c->suspend(); c->suspended = true;
  if (!c->c->isSuspended()) fail("Server.Client.isSuspended/after-suspend", "client %d: isSuspended() false after suspend() %s", c->id, VN[g_venue]);
  setctx(ctxBase()); cnt("suspends");
  hist.addf("  [%s] client%d.suspend() (fresh client)\n", VN[g_venue], c->id);
}
static const char* freshWrite(ClientM* c) {
  Rng& r = *g_rng;
  u32 x = (u32)r.below(16); const char* how; long size = 1 + (long)r.below(r.chance(1, 4) ? 20000 : 300);
  if (x < 6) { c->forceSend = 1; how = "forced-partial"; if (size < 2) size = 2; }
  else if (x < 9) { c->forceSend = 2; how = "forced-eagain"; }
  else if (x < 10) { c->forceSend = 3; how = "forced-error"; }
  else how = "plain";   // decided by the kernel: complete on an empty loopback socket (real-kernel partial sends inside the callback: C13, accept-kernel)
  clientWrite(c, size);
  return how;
}
static void freshClientActs(ClientM* c, int venue) {
  Rng& r = *g_rng;
  const char* cbn = venue == V_ACCEPT ? "onAccepted" : "onConnected";
  int sv = g_venue; g_venue = venue;
  u32 x = (u32)r.below(16);
  int act = x < 4 ? F_NONE : x < 9 ? F_WRITE : x < 12 ? F_SUSPEND : x < 14 ? F_SUSPEND_WRITE : F_WRITE_SUSPEND;
  const char* how = "-";
  switch (act) {
  case F_WRITE: how = freshWrite(c); break;
  case F_SUSPEND: freshSuspend(c); break;
  case F_SUSPEND_WRITE: freshSuspend(c); how = freshWrite(c); break;
  case F_WRITE_SUSPEND: how = freshWrite(c); freshSuspend(c); break;
  default: break;
  }
  char nm[96];
  if (act == F_WRITE || act == F_SUSPEND_WRITE || act == F_WRITE_SUSPEND) { snprintf(nm, sizeof nm, "writes_in_%s", cbn); cnt(nm); if (c->backlog() > 0) { snprintf(nm, sizeof nm, "writes_in_%s_leaving_backlog", cbn); cnt(nm); } }
  if (act == F_SUSPEND || act == F_SUSPEND_WRITE || act == F_WRITE_SUSPEND) { snprintf(nm, sizeof nm, "suspends_in_%s", cbn); cnt(nm); }
  if (act == F_NONE) { snprintf(nm, sizeof nm, "nothing_in_%s", cbn); cnt(nm); }
  snprintf(nm, sizeof nm, "%s/%s/%s", cbn, FN[act], how); setItem("fresh_client_acts", nm);
  // the peer talks at once in most scenarios: a client the callback suspended must not hear of it before it is resumed
  if (r.chance(2, 3)) peerSend(c, 1 + (long)r.below(200));
  g_venue = sv;
  g_fp = mix(g_fp, 1100 + (u64)act);
}

// ---------------------------------------------------------------- callbacks
static void enterCallback(const char* what, bool alive, const char* kind, int id, bool removedSelected, int removedVenue, const char* extraClass) {
  ++g_cbSeq; cnt("callbacks");
  if (!g_inRun) { char key[96]; snprintf(key, sizeof key, "Server/%s-outside-run", what); fail(key, "%s(%s%d) while run() is not executing", what, kind, id); }
  if (!alive) {
    char key[160]; snprintf(key, sizeof key, "Server.remove(%s)/%s/%s/%s-after-remove", kind, extraClass ? extraClass : (removedSelected ? "event-selected" : "no-event-selected"), VN[removedVenue], what);
    fail(key, "%s delivered to %s%d after remove() had returned (removed %s%s)", what, kind, id, VN[removedVenue], removedSelected ? ", while an event for it was selected but undelivered" : "");
  }
  for (size_t i = 0; i < g_cl.n; ++i) { ClientM* o = g_cl[i]; if (o->alive && o->pendingOnWrite && !(!strcmp(what, "onWrite") && !strcmp(kind, "Client") && o->id == id)) fail("Server.Client.onWrite/missing-after-drain", "client %d: backlog drained but the next callback is %s(%s%d)", o->id, what, kind, id); }
  g_fp = mix(g_fp, (u64)what[2] * 131 + (u64)id);
}

void TCB::onActivated() {
  enterCallback("onActivated", m->alive, "Timer", m->id, false, m->removedVenue, m->removedInEqualRun ? "equal-due-times" : "unique-due-time");
  ++m->k; ++g_activations; cnt("timer_activations");
  int64_t due = m->created + m->k * m->interval, now = ns::monotonicMs();
  hist.addf("  t=%lld onActivated(timer%d) #%ld due t=%lld\n", (long long)ns::vnow(), m->id, m->k, (long long)(due - ns::originMs()));
  if (now < due) fail("Server.Timer/activated-early", "timer %d (interval %lld, created t=%lld): activation %ld at t=%lld, due t=%lld", m->id, (long long)m->interval, (long long)(m->created - ns::originMs()), m->k, (long long)(now - ns::originMs()), (long long)(due - ns::originMs()));
  if (due < g_roundLastDue) fail("Server.Timer/order-within-round", "timer %d activation %ld (due t=%lld) delivered after an activation due t=%lld in the same dispatch round", m->id, m->k, (long long)(due - ns::originMs()), (long long)(g_roundLastDue - ns::originMs()));
  if (now > due) cnt("timer_catchup_activations");
  g_roundLastDue = due;
  int sv = g_venue; TimerM* ss = g_selfTimer; g_venue = V_TIMER; g_selfTimer = m;
  if (g_script && !g_script->done && m->id == g_script->i && m->k == 1) {
    g_script->done = true;
    if (g_tm[(size_t)g_script->j]->alive) removeTimer(g_tm[(size_t)g_script->j]);
    if (g_script->variant) newTimer(m->interval);
  }
  react();
  g_venue = sv; g_selfTimer = ss;
}

static void readFrom(ClientM* m, long maxTotal) {
  long total = 0;
  for (;;) {
    if (!m->alive) return;
    size_t want = 1 + (size_t)g_rng->below(4096); if (maxTotal >= 0) { if (total >= maxTotal) return; if ((size_t)(maxTotal - total) < want) want = (size_t)(maxTotal - total); }
    u8* b = (u8*)malloc(want); usize got = 777; m->lastRecvRet = -99;
    setctx("Server.Client.read");
    bool ok = m->c->read((byte*)b, want, got);
    setctx("Server.run"); cnt("client_reads");
    if (ok) {
      if (got == 0 || got > want) fail("Server.Client.read/size", "client %d: read(max=%zu) returned true with size %llu", m->id, want, (unsigned long long)got);
      long d = su::firstDiff(m->inSalt, m->inRead, b, (size_t)got);
      if (d >= 0 || m->inRead + got > m->inSent) fail("Server.Client.read/content", "client %d: inbound bytes differ at offset %llu", m->id, (unsigned long long)(m->inRead + (u64)(d < 0 ? 0 : d)));
      m->inRead += got; total += (long)got; cnt("inbound_bytes_verified", (long)got); free(b); continue;
    }
    free(b);
    if (m->lastRecvRet == -99) harnessBug("read() did not call recv");
    if (m->lastRecvRet < 0 && (m->lastRecvErr == EAGAIN || m->lastRecvErr == EWOULDBLOCK)) return;
    m->expectClosed = true; cnt("client_read_failures"); hist.addf("    client%d.read failed (recv=%ld)\n", m->id, m->lastRecvRet);
    return;
  }
}

void CCB::onRead() {
  enterCallback("onRead", m->alive, "Client", m->id, m->removedSelected, m->removedVenue, 0);
  cnt("onRead"); m->inBatch = false;
  hist.addf("  t=%lld onRead(client%d)\n", (long long)ns::vnow(), m->id);
  if (m->suspended) fail("Server.Client.onRead/while-suspended", "onRead delivered to suspended client %d", m->id);
  int sv = g_venue; ClientM* ss = g_selfClient; g_venue = V_READ; g_selfClient = m;
  react();
  if (m->alive && !m->suspended) {
    if (m->skipReads > 0 && !m->peerClosed) { --m->skipReads; cnt("onRead_left_data_unread"); }
    else if (g_rng->chance(1, 8)) readFrom(m, 1 + (long)g_rng->below(50));
    else readFrom(m, -1);
  }
  g_venue = sv; g_selfClient = ss;
}
void CCB::onWrite() {
  enterCallback("onWrite", m->alive, "Client", m->id, m->removedSelected, m->removedVenue, 0);
  cnt("onWrite"); m->inBatch = false; ++m->onWriteCount;
  hist.addf("  t=%lld onWrite(client%d)\n", (long long)ns::vnow(), m->id);
  if (!m->pendingOnWrite || m->backlog() != 0) fail(m->backlog() ? "Server.Client.onWrite/before-drained" : "Server.Client.onWrite/spurious", "onWrite(client %d) without a completed drain (model backlog %llu)", m->id, (unsigned long long)m->backlog());
  m->pendingOnWrite = false;
  int sv = g_venue; ClientM* ss = g_selfClient; g_venue = V_WRITE; g_selfClient = m;
  react();
  g_venue = sv; g_selfClient = ss;
}
void CCB::onClosed() {
  enterCallback("onClosed", m->alive, "Client", m->id, m->removedSelected, m->removedVenue, 0);
  cnt("onClosed"); m->inBatch = false;
  hist.addf("  t=%lld onClosed(client%d)\n", (long long)ns::vnow(), m->id);
  if (!m->expectClosed) fail("Server.Client.onClosed/unexpected", "onClosed(client %d) although no send or recv on it failed", m->id);
  m->closedSeen = true;
  int sv = g_venue; ClientM* ss = g_selfClient; g_venue = V_CLOSED; g_selfClient = m;
  react();
  {
    // session teardown: the handler also drops another client whose own close notification is still queued in the loop (it must never arrive)
    Vec<ClientM*> pc; for (size_t i = 0; i < g_cl.n; ++i) { ClientM* o = g_cl[i]; if (o != m && o->alive && o->expectClosed && !o->closedSeen) pc.push(o); }
    if (pc.n) { cnt("onClosed_while_other_close_notifications_pending"); if (g_rng->chance(1, 2)) { cnt("clients_removed_with_close_notification_pending"); removeClient(pc[g_rng->below(pc.n)]); } }
  }
  if (m->alive) removeClient(m);
  g_venue = sv; g_selfClient = ss;
}

Server::Client::ICallback* LCB::onAccepted(Server::Client& client, uint32 ip, uint16 port) {
  enterCallback("onAccepted", m->alive, "Listener", m->id, m->removedSelected, m->removedVenue, 0);
  cnt("onAccepted"); m->inBatch = false; ++m->accepted;
  hist.addf("  t=%lld onAccepted(listener%d) peer port %u\n", (long long)ns::vnow(), m->id, (unsigned)port);
  int pfd = -1;
  for (size_t i = 0; i < m->pendFd.n; ++i) if (m->pendPort[i] == (int)port) { pfd = m->pendFd[i]; m->pendFd.removeAt(i); m->pendPort.removeAt(i); break; }
  if (pfd < 0 || ip != 0x7f000001u) fail("Server.Listener.onAccepted/peer-address", "listener %d: accepted a connection reported as %08x:%u, which no raw peer made", m->id, (unsigned)ip, (unsigned)port);
  int sv = g_venue; ListenerM* ss = g_selfListener; g_venue = V_ACCEPT; g_selfListener = m;
  react();
  g_venue = sv; g_selfListener = ss;
  u32 x = (u32)g_rng->below(10);
  if (x == 0) { cnt("accept_rejected"); g_garbageFds.push(pfd); hist.add("    -> rejected (null callback)\n"); return 0; }
  if (x == 1) { cnt("accept_removed_then_rejected"); setctx("Server.remove(Client)/in-onAccepted-before-callback"); g_srv->remove(client); setctx("Server.run"); g_garbageFds.push(pfd); hist.add("    -> remove(client) then null callback\n"); return 0; }
  ClientM* c = makeClientModel(client, pfd, 1);
  cnt("clients_accepted"); hist.addf("    -> client%d\n", c->id);
  freshClientActs(c, V_ACCEPT);
  return &c->cb;
}
Server::Client::ICallback* ECB::onConnected(Server::Client& client) {
  enterCallback("onConnected", m->alive, "Establisher", m->id, m->removedSelected, m->removedVenue, m->removedClass);
  cnt("onConnected"); m->inBatch = false;
  hist.addf("  t=%lld onConnected(establisher%d)\n", (long long)ns::vnow(), m->id);
  if (m->done) fail("Server.Establisher/second-callback", "establisher %d got onConnected after it had already finished", m->id);
  if (m->byName && !m->released) fail("Server.Establisher/by-name/callback-before-resolution", "establisher %d got onConnected although the resolution of its host name has not completed", m->id);
  if (m->kind == EK_NAME_FAIL) fail("Server.Establisher.onConnected/unresolvable-name", "establisher %d connected although its host name does not resolve", m->id);
  if (!m->openTarget) fail("Server.Establisher.onConnected/closed-port", "establisher %d connected to a port nobody listens on", m->id);
  m->done = true;
  if (m->byName) { cnt("onConnected_by_name"); if (!m->sockKnown) { m->lport = localPort((int)client.getSocket().getFileDescriptor()); m->sockKnown = true; } }
  int pfd = rawAcceptFor(m->lport);
  if (pfd < 0) harnessBug("raw listener has no connection from port %u", (unsigned)m->lport);
  int sv = g_venue; EstabM* ss = g_selfEstab; g_venue = V_CONNECT; g_selfEstab = m;
  react();
  bool rmSelf = g_rng->chance(1, 2);
  if (rmSelf) removeEstab(m);
  g_venue = sv; g_selfEstab = ss;
  if (g_rng->chance(1, 8)) { cnt("connect_rejected"); g_garbageFds.push(pfd); return 0; }
  ClientM* c = makeClientModel(client, pfd, 2);
  cnt("clients_connected"); hist.addf("    -> client%d\n", c->id);
  freshClientActs(c, V_CONNECT);
  return &c->cb;
}
void ECB::onAbolished() {
  enterCallback("onAbolished", m->alive, "Establisher", m->id, m->removedSelected, m->removedVenue, m->removedClass);
  cnt("onAbolished"); m->inBatch = false;
  hist.addf("  t=%lld onAbolished(establisher%d)\n", (long long)ns::vnow(), m->id);
  if (m->done) fail("Server.Establisher/second-callback", "establisher %d got onAbolished after it had already finished", m->id);
  if (m->byName && !m->released) fail("Server.Establisher/by-name/callback-before-resolution", "establisher %d got onAbolished although the resolution of its host name has not completed", m->id);
  if (m->openTarget) cnt("abolished_although_port_open");
  if (m->byName) cnt(m->kind == EK_NAME_FAIL ? "onAbolished_unresolvable_name" : "onAbolished_by_name_connect_failed");
  m->done = true;
  int sv = g_venue; EstabM* ss = g_selfEstab; g_venue = V_ABOLISH; g_selfEstab = m;
  react();
  void* slot = (void*)m->e;
  if (g_rng->chance(1, 2)) removeEstab(m);
  // retry / fallback host from inside the callback: a new connect by name right after the failed establisher was removed takes over its pool slot
  if (g_rng->chance(1, 2) && aliveN(g_es) < 4 && g_es.n < 16 && g_cl.n < 60) {
    static const int RK[] = { EK_NAME_OPEN, EK_NAME_FAIL, EK_NAME_OPEN, EK_NAME_CLOSED };
    EstabM* n = newEstab(RK[g_rng->below(4)]);
    if (n) { cnt("reconnects_by_name_in_onAbolished"); if (!m->alive && (void*)n->e == slot) cnt("reconnects_by_name_reusing_the_removed_slot"); }
  }
  g_venue = sv; g_selfEstab = ss;
}

// ---------------------------------------------------------------- shim hooks: the loop
static void hWaitEnter(int epfd, int timeout) {
  (void)epfd;
  if (!g_virtual) return;
  if (!g_inRun) fail("Server/poll-outside-run", "epoll_wait called while run() is not executing");
  ++g_rounds; cnt("loop_rounds");
  if (g_rounds > 400000) harnessBug("hard round cap exceeded");
  if ((g_rounds > 6000 || g_cbSeq > 12000) && g_stepsLeft > 0) { g_stepsLeft = 0; cnt("scenarios_cut_by_round_cap"); }
  if (g_intrReq && ++g_waitsSinceIntr > 1) { char key[96]; snprintf(key, sizeof key, "Server.interrupt/%s/run-did-not-return", VN[g_intrVenue]); fail(key, "interrupt() was requested %s, the poll set woke up once, but run() polls again instead of returning", VN[g_intrVenue]); }
  g_roundLastDue = INT64_MIN;
  int64_t now = ns::monotonicMs(), minDue = INT64_MAX; TimerM* first = 0;
  for (size_t i = 0; i < g_tm.n; ++i) { TimerM* t = g_tm[i]; if (!t->alive) continue; int64_t d = nextDue(t); if (d < minDue) { minDue = d; first = t; }
    if (d <= now) fail("Server.Timer/missed-activation", "timer %d (interval %lld): activation %ld was due at t=%lld, the loop polls at t=%lld without having delivered it", t->id, (long long)t->interval, t->k + 1, (long long)(d - ns::originMs()), (long long)(now - ns::originMs())); }
  cnt("timer_due_checks");
  if (timeout < 0) fail("Server.run/poll-timeout-infinite", "the loop polls without a timeout");
  if (first && (int64_t)timeout > minDue - now) {
    char key[128]; snprintf(key, sizeof key, "Server.time/%s/poll-timeout-beyond-due-time", first->k == 0 ? VN[first->createdVenue] : "running-timer");
    fail(key, "the loop polls with timeout %d ms at t=%lld but timer %d (interval %lld, created %s) is due at t=%lld", timeout, (long long)(now - ns::originMs()), first->id, (long long)first->interval, VN[first->createdVenue], (long long)(minDue - ns::originMs()));
  }
  for (size_t i = 0; i < g_cl.n; ++i) { ClientM* c = g_cl[i]; c->inBatch = false; if (c->alive && c->pendingOnWrite) fail("Server.Client.onWrite/missing-after-drain", "client %d: backlog drained, loop polls again without onWrite", c->id); }
  for (size_t i = 0; i < g_ls.n; ++i) g_ls[i]->inBatch = false;
  for (size_t i = 0; i < g_es.n; ++i) g_es[i]->inBatch = false;
}
static void hWaitLeave(int epfd, int n, struct epoll_event* ev) {
  (void)epfd; if (!g_virtual) return;
  int k = 0;
  for (int i = 0; i < n; ++i) {
    void* p = ev[i].data.ptr; if (!p) continue;
    void* sock = *(void**)p;   // Poll::Private::SocketInfo::socket - only steers the generator towards "event selected" removals and feeds counters
    for (size_t j = 0; j < g_cl.n; ++j) if (g_cl[j]->alive && (void*)g_cl[j]->c == sock) { g_cl[j]->inBatch = true; ++k; }
    for (size_t j = 0; j < g_ls.n; ++j) if (g_ls[j]->alive && (void*)g_ls[j]->l == sock) { g_ls[j]->inBatch = true; ++k; }
    for (size_t j = 0; j < g_es.n; ++j) if (g_es[j]->alive && (void*)g_es[j]->e == sock) { g_es[j]->inBatch = true; ++k; }
  }
  if (k >= 2) cnt("batches_with_2plus_sockets");
  statMax("max_events_in_batch", n);
}

// a registered fd is ready according to an independent poll() although the loop's epoll_wait(0) just reported nothing
// An independent poll() reports `re` on a registered fd although the loop's epoll_wait(0) just returned nothing.
//  * the library has NOT requested the needed readiness (epoll_ctl log): lost registration -> violation, no timing involved
//  * the registration is in place: the wake-up is still in flight inside the kernel (loopback softirq on another, possibly descheduled, vCPU: the data is
//    already visible to poll() but the epoll callback has not run yet) -> ask again after a short real-time nap; only if this persists for 10 s the run is
//    declared inconclusive (never a violation)
static int64_t g_strikeT0 = 0;
static int strike(const char* key, const char* fmt, int id, int re, int fd, unsigned needMask) {
  if (fd < 0 || fd >= 8000) harnessBug("fd %d outside the epoll_ctl observation table", fd);
  unsigned mask = ns::epollMask(fd);
  if (mask == 0xffffffffu || !(mask & needMask)) {
    hist.addf("  epoll registration of fd %d: %s mask 0x%x, needed 0x%x\n", fd, mask == 0xffffffffu ? "ABSENT" : "present", mask, needMask);
    fail(key, fmt, id, re);
  }
  if (g_strikeSeq != g_cbSeq) { g_strikeSeq = g_cbSeq; g_strikes = 0; g_strikeT0 = ns::realMonotonicMs(); }
  ++g_strikes; cnt("idle_repolls");
  if (g_strikes > 3) su::sleepUs(g_strikes < 50 ? 100 : 2000);
  if (ns::realMonotonicMs() - g_strikeT0 > 10000)
    harnessBug("poll() reports 0x%x on fd %d (object %d, %s) which is registered in the epoll set with mask 0x%x, yet epoll_wait(0) kept returning nothing for 10 s", re, fd, id, key, mask);
  return 1;
}
static int idleLiveness() {
  for (size_t i = 0; i < g_cl.n; ++i) {
    ClientM* m = g_cl[i]; if (!m->alive) continue;
    if (m->pendingOnWrite) fail("Server.Client.onWrite/missing-after-drain", "client %d: backlog drained but no onWrite before the loop blocks", m->id);
    if (m->expectClosed && !m->closedSeen) fail("Server.Client.onClosed/missing-after-failure", "client %d: a read or write failed but the loop is about to block without onClosed", m->id);
    if (m->closedSeen) continue;
    cnt("independent_poll_checks");
    if (!m->backlogDropped && (u64)m->c->getSendBufferSize() != m->backlog()) fail("Server.Client.getSendBufferSize/idle/value", "client %d: getSendBufferSize %llu, model %llu", m->id, (unsigned long long)m->c->getSendBufferSize(), (unsigned long long)m->backlog());
    if (!m->suspended) {
      int re = su::pollNow(m->fd, POLLIN | POLLRDHUP | POLLHUP);
      if (re) return strike("Server.Client.onRead/readable-not-dispatched", "client %d is registered, not suspended, poll() reports 0x%x, but read readiness is not requested from the poll set and the loop is about to block", m->id, re, m->fd, EPOLLIN);
      if (m->origin != 0 && (m->inSent > m->inRead || m->peerClosed)) { if (!su::waitReady(m->fd, POLLIN | POLLRDHUP | POLLHUP)) harnessBug("loopback data never arrived"); cnt("tcp_inflight_waits"); return 1; }
    }
    if (!m->backlogDropped && m->backlog() > 0) {
      int re = su::pollNow(m->fd, POLLOUT);
      if (re) return strike("Server.Client.write/backlog-stalled", "client %d has queued bytes and poll() reports its socket writable (0x%x), but the loop's poll set reports nothing and is about to block", m->id, re, m->fd, EPOLLOUT);
      drainPeer(m); cnt("idle_peer_drains"); return 1;
    }
  }
  for (size_t i = 0; i < g_ls.n; ++i) {
    ListenerM* m = g_ls[i]; if (!m->alive) continue;
    cnt("independent_poll_checks");
    int re = su::pollNow(m->fd, POLLIN);
    if (re) return strike("Server.Listener.onAccepted/acceptable-not-dispatched", "listener %d has a connection to accept (poll() 0x%x) but the loop's poll set reports nothing and is about to block", m->id, re, m->fd, EPOLLIN);
    if (m->pendFd.n) { if (!su::waitReady(m->fd, POLLIN)) harnessBug("loopback connection never arrived at the listener"); cnt("tcp_inflight_waits"); return 1; }
  }
  for (size_t i = 0; i < g_es.n; ++i) {
    EstabM* m = g_es[i]; if (!m->alive || m->done) continue;
    if (m->byName) {
      if (!m->released) { cnt("idle_points_with_resolution_pending"); continue; }   // nothing to expect before getaddrinfo has returned
      refreshEstab(m);
      // the resolver thread had written the loop's wake-up descriptor before the scenario went on: the loop has been woken since and is idle again
      // The wake-up the scenario waited for may have come from another source (a scripted interrupt(), another resolver) while this resolver's own thread
      // is still between getaddrinfo() and its interrupt(): give it time (bounded progress, 10 s) before calling it a violation.
      if (!m->sockKnown && ++m->notProcessedRechecks < 10000) { struct timespec ts = { 0, 1000000 }; nanosleep(&ts, 0); cnt("resolution_not_yet_processed_rechecks"); return 1; }
      if (!m->sockKnown) fail("Server.Establisher/by-name/resolution-result-not-processed", "establisher %d: the resolution of its host name completed and the loop was woken, but the loop is about to block again without having started the connect or called onAbolished", m->id);
    }
    cnt("independent_poll_checks");
    int re = su::pollNow(m->fd, POLLOUT | POLLERR | POLLHUP);
    if (re) return strike("Server.Establisher/connect-result-not-dispatched", "establisher %d: connect finished (poll() 0x%x) but the loop's poll set reports nothing and is about to block", m->id, re, m->fd, EPOLLOUT);
    if (!su::waitReady(m->fd, POLLOUT | POLLERR | POLLHUP)) harnessBug("loopback connect never finished");
    cnt("tcp_inflight_waits"); return 1;
  }
  return 0;
}

static long pickDelay() {
  Rng& r = *g_rng; u32 x = (u32)r.below(100); long d;
  if (x < 30) d = 0; else if (x < 55) d = 1; else if (x < 85) d = 2 + (long)r.below(9); else if (x < 95) d = 11 + (long)r.below(40); else if (x < 99) d = 1000 + (long)r.below(2000); else d = 300000 + (long)r.below(1000);
  // bound the number of timer activations this delay implies
  for (;;) { long acts = 0; for (size_t i = 0; i < g_tm.n; ++i) if (g_tm[i]->alive) acts += d / (long)g_tm[i]->interval; if (acts <= 600 || d <= 1) break; d /= 4; }
  if (d >= 300000) cnt("delays_beyond_default_timeout");
  return d;
}

static int hIdle(int epfd, int timeout, long elapsed, long* adv) {
  (void)epfd; (void)elapsed;
  cnt("idle_points");
  if (g_intrReq) { char key[96]; snprintf(key, sizeof key, "Server.interrupt/%s/no-wakeup", VN[g_intrVenue]); fail(key, "interrupt() was requested %s and has returned, but the loop's poll set reports nothing ready", VN[g_intrVenue]); }
  if (idleLiveness()) return ns::IDLE_AGAIN;
  if (timeout < 0) fail("Server.run/poll-timeout-infinite", "the loop polls without a timeout");
  int sv = g_venue; g_venue = V_IDLE;
  int result;
  EstabM* waiting = 0;
  if (g_stepsLeft <= 0) for (size_t i = 0; i < g_es.n && !waiting; ++i) if (g_es[i]->byName && !g_es[i]->released) waiting = g_es[i];
  if (waiting) {   // every resolution is seen by the loop before the scenario ends
    // A wake-up that arrived after the loop's poll and before this hook (a resolver thread's late eventfd write) is legal: poll again, the loop drains it.
    static long pendingRetries = 0;
    if (releaseGate(waiting)) { cnt("resolutions_completed_in_final_phase"); pendingRetries = 0; }
    else { cnt("final_phase_wakeup_pending_repolls"); if (++pendingRetries > 10000) harnessBug("idle loop with a wake-up descriptor that stays readable over 10000 polls"); }
    result = ns::IDLE_AGAIN; }
  else if (g_stepsLeft <= 0) { g_final = true; doInterrupt(1); result = ns::IDLE_AGAIN; }
  else {
    long remaining = (long)(g_nextStepAt - ns::vnow()), tleft = *adv;
    if (remaining > 0 && tleft <= remaining) {
      u32 x = (u32)g_rng->below(100);
      if (x < 6 && tleft > 1) { *adv = (long)g_rng->below((u64)tleft); cnt("eintr_injected"); result = ns::IDLE_EINTR; }
      else {
        if (x < 18) { long minIv = 1000; for (size_t i = 0; i < g_tm.n; ++i) if (g_tm[i]->alive && g_tm[i]->interval < minIv) minIv = (long)g_tm[i]->interval; *adv = tleft + (g_rng->chance(1, 2) ? 1 + (long)g_rng->below(3) : minIv * (1 + (long)g_rng->below(5))); cnt("oversleep_injected"); }
        result = ns::IDLE_TIMEOUT;
      }
      cnt("virtual_timeouts");
    } else {
      if (remaining > 0) ns::advance(remaining);
      --g_stepsLeft; cnt("external_steps");
      hist.addf("t=%lld external step\n", (long long)ns::vnow());
      if (g_rng->chance(1, 3)) { doInterrupt(g_rng->chance(1, 5) ? 2 : 1); }   // leave run(): Server API calls from outside follow
      else randomActs(4, true);
      g_nextStepAt = ns::vnow() + pickDelay();
      result = ns::IDLE_AGAIN;
    }
  }
  g_venue = sv;
  return result;
}

// ---------------------------------------------------------------- scenario driver
static void beginWorld(Rng& r) {
  rawInfra();
  ns::reset(); ns::mode = ns::VIRTUAL; g_virtual = true;
  g_inRun = g_intrReq = g_final = false; g_venue = V_OUT; g_waitsSinceIntr = 0; g_rounds = 0; g_cbSeq = 0; g_strikeSeq = -1; g_strikes = 0; g_fp = 0; g_removals = 0; g_activations = 0; g_rawConnects = 0;
  g_selfTimer = 0; g_selfClient = 0; g_selfListener = 0; g_selfEstab = 0;
  g_rng = &r;
  g_srv = new Server;
  g_eventFd = ns::lastEventFd();   // the wake-up descriptor of the server's poll set
  pthread_mutex_lock(&g_gateMx); memset(g_gate, 0, sizeof g_gate); pthread_mutex_unlock(&g_gateMx);
}
static void endWorld(Rng& r) {
  int variant = (int)r.below(3);
  g_venue = V_OUT;
  openAllGates();   // none is waiting any more (final phase of the loop); the destructor joins the resolver threads
  // end-to-end check of everything still alive
  for (size_t i = 0; i < g_cl.n; ++i) {
    ClientM* m = g_cl[i]; if (!m->alive) continue;
    if (m->origin != 0 && !m->peerEof) for (int w = 0; w < 40000 && m->peerGot < m->S; ++w) { drainPeer(m); if (m->peerGot < m->S) su::sleepUs(250); }
    drainPeer(m);
    if (!m->peerEof && m->peerGot != m->S) fail("Server.Client/peer-stream/incomplete", "client %d: %llu byte(s) handed to the OS, peer received %llu", m->id, (unsigned long long)m->S, (unsigned long long)m->peerGot);
    if (m->transitions != m->onWriteCount) fail("Server.Client.onWrite/count", "client %d: %ld drains, %ld onWrite", m->id, m->transitions, m->onWriteCount);
    // the scenario ends at an idle point of the loop: nothing that was accepted may still be queued
    if (!m->backlogDropped && !m->expectClosed && m->S != m->out.accepted) fail("Server.Client/peer-stream/backlog-never-sent", "client %d: accepted %llu byte(s), only %llu handed to the OS when the loop went idle for the last time", m->id, (unsigned long long)m->out.accepted, (unsigned long long)m->S);
    cnt("streams_verified_end_to_end");
  }
  if (variant == 0) {
    hist.add("teardown: remove everything, random order\n");
    for (int guard = 0; guard < 200; ++guard) {
      int kinds[4] = { (int)aliveN(g_tm), (int)aliveN(g_cl), (int)aliveN(g_ls), (int)aliveN(g_es) };
      if (!(kinds[0] + kinds[1] + kinds[2] + kinds[3])) break;
      int k = (int)r.below(4); if (!kinds[k]) continue;
      if (k == 0) { Vec<TimerM*> al; for (size_t i = 0; i < g_tm.n; ++i) if (g_tm[i]->alive) al.push(g_tm[i]); removeTimer(al[r.below(al.n)]); }
      else if (k == 1) removeClient(pickAlive(g_cl, false));
      else if (k == 2) removeListener(pickAlive(g_ls, false));
      else removeEstab(pickAlive(g_es, false));
    }
    cnt("teardown_remove_all");
  } else if (variant == 1) { hist.add("teardown: clear()\n"); setctx("Server.clear"); g_srv->clear(); cnt("teardown_clear"); }
  else { hist.add("teardown: destructor\n"); cnt("teardown_destructor"); }
  setctx("Server.~Server");
  delete g_srv; g_srv = 0; setctx("driver");
  for (size_t i = 0; i < g_tm.n; ++i) delete g_tm[i];
  for (size_t i = 0; i < g_cl.n; ++i) { if (g_cl[i]->pfd >= 0) close(g_cl[i]->pfd); ns::unregisterFd(g_cl[i]->fd); delete g_cl[i]; }
  for (size_t i = 0; i < g_ls.n; ++i) { for (size_t k = 0; k < g_ls[i]->pendFd.n; ++k) close(g_ls[i]->pendFd[k]); delete g_ls[i]; }
  for (size_t i = 0; i < g_es.n; ++i) delete g_es[i];
  g_tm.clear(); g_cl.clear(); g_ls.clear(); g_es.clear();
  rawCleanup();
}

static void runLoopUntilFinal() {
  int guard = 0;
  while (!g_final) {
    if (++guard > 100000) harnessBug("too many run() returns");
    if (guard == 1000) { g_w[A_INTERRUPT] = 0; g_stepsLeft = 0; cnt("scenarios_cut_by_return_cap"); }   // interrupt-happy scenario: wind it down
    g_inRun = true; setctx("Server.run"); hist.addf("t=%lld run()\n", (long long)ns::vnow());
    g_srv->run();
    g_inRun = false; setctx("driver"); cnt("run_returns");
    if (!g_intrReq) fail("Server.run/returned-without-interrupt", "run() returned at t=%lld although interrupt() was not requested since the last return", (long long)ns::vnow());
    { char it[48]; snprintf(it, sizeof it, "%s", VN[g_intrVenue]); setItem("run_returns_by_interrupt_venue", it); }
    g_intrReq = false; g_waitsSinceIntr = 0;
    if (g_final) break;
    // outside the loop: Server API calls
    g_venue = V_OUT;
    hist.add("outside run():\n");
    randomActs(4, false);
  }
}

static void worldCase(long idx) {
  Rng r(opts.seed, 1401, (u64)idx);
  beginWorld(r);
  // swarm configuration
  for (int i = 0; i < NACT; ++i) g_w[i] = r.chance(1, 4) ? 0 : 1 + (u32)r.below(8);
  int focus = (int)r.below(4);
  if (focus == 0) { g_w[A_TIMER_NEW] = 10; g_w[A_TIMER_DEL] = 10; }
  if (focus == 1) { g_w[A_PAIR_NEW] += 4; g_w[A_PEER_SEND] = 10; g_w[A_CLIENT_DEL] = 8; }
  if (focus == 2) { g_w[A_LISTEN_NEW] += 4; g_w[A_RAW_CONNECT] = 8; g_w[A_ESTAB_NEW] = 6; }
  if (!g_w[A_INTERRUPT]) g_w[A_INTERRUPT] = r.chance(1, 2) ? 1 : 0;
  if (g_w[A_ESTAB_NEW] && g_w[A_RESOLVE] < 3) g_w[A_RESOLVE] = 3;
  if (g_w[A_BROADCAST_DEAD] > 2) g_w[A_BROADCAST_DEAD] = g_w[A_BROADCAST_DEAD] & 1;   // rare: it takes two or three clients out of the scenario at once
  g_reactPermille = 100 + (u32)r.below(600);
  g_recvFaults = r.chance(1, 3);
  g_stepsLeft = 5 + (long)r.below(21);
  g_nextStepAt = ns::vnow();
  hist.addf("scenario: steps=%ld react=%u/1000 recvFaults=%d focus=%d\n", g_stepsLeft, g_reactPermille, (int)g_recvFaults, focus);
  // initial population, from outside
  hist.add("outside run():\n");
  randomActs(6, false); randomActs(4, false);
  if (r.chance(1, 6)) { doInterrupt(r.chance(1, 3) ? 2 : 1); cnt("interrupt_before_run"); }
  runLoopUntilFinal();
  u64 fp = g_fp; bool nontrivial = g_removals > 0 && g_cbSeq >= 3;
  endWorld(r);
  if (idx % 331 == 0) sample("%s", hist.n > 1900 ? "(long scenario omitted)" : hist.c());
  endCase(fp, nontrivial);
}

// enumerated: n timers with the same interval created in the same tick; at its first activation timer i removes timer j (every i, j incl. i == j);
// variant 1 additionally creates a fresh timer right after the removal (pool slot reuse)
static void equalDueCase(long idx) {
  Rng r(opts.seed, 1402, (u64)idx);
  long v = idx; int variant = (int)(v % 2); v /= 2; int n = 2; while (v >= (long)n * n) { v -= (long)n * n; ++n; }
  int i = (int)(v / n), j = (int)(v % n);
  beginWorld(r);
  for (int a = 0; a < NACT; ++a) g_w[a] = 0;
  g_reactPermille = 0; g_recvFaults = false; g_stepsLeft = 0;
  int64_t iv = INTERVALS[r.below(5)];
  hist.addf("equal-due: %d timers of interval %lld, timer%d removes timer%d at its first activation%s\n", n, (long long)iv, i, j, variant ? ", then creates a timer" : "");
  for (int a = 0; a < n; ++a) newTimer(iv);
  Script sc; sc.i = i; sc.j = j; sc.variant = variant; sc.done = false; g_script = &sc;
  g_stepsLeft = 3; g_nextStepAt = ns::vnow() + iv * 3 + 1;   // the loop runs ~3 periods before the first external step
  runLoopUntilFinal();
  g_script = 0;
  if (!sc.done) harnessBug("scripted removal did not happen");
  u64 fp = mix(g_fp, (u64)idx);
  endWorld(r);
  endCase(fp, true);
}

// ---------------------------------------------------------------- threaded interrupt scenarios (real time, REAL mode of the shims)
static Server* t_srv = 0;
static long t_returns = 0, t_started = 0, t_completed = 0, t_unacked = 0;
static int t_active = 0, t_done = 0;
static int t_pfd = -1; static u64 t_inSent = 0;
struct TArg { int id; int n; u64 seed; long maxDelayUs; bool sender; };

static int t_loopTid = 0;
// true when the thread that runs Server::run is sleeping inside an epoll_wait system call; *ctxsw = its context switches so far
static bool loopThreadParked(long* ctxsw) {
  char path[96], buf[2048]; *ctxsw = -1;
  snprintf(path, sizeof path, "/proc/self/task/%d/syscall", t_loopTid);
  int fd = open(path, O_RDONLY); if (fd < 0) return false; long n = read(fd, buf, sizeof buf - 1); close(fd); if (n <= 0) return false; buf[n] = 0;
  long nr = strtol(buf, 0, 10); if (!(nr == 232 || nr == 281 || nr == 441)) return false;   // epoll_wait, epoll_pwait, epoll_pwait2 (x86-64)
  snprintf(path, sizeof path, "/proc/self/task/%d/status", t_loopTid);
  fd = open(path, O_RDONLY); if (fd < 0) return false; n = read(fd, buf, sizeof buf - 1); close(fd); if (n <= 0) return false; buf[n] = 0;
  const char* st = strstr(buf, "State:"); if (!st || !strstr(st, "S (sleeping)") || strstr(st, "S (sleeping)") > st + 12) return false;
  const char* v = strstr(buf, "voluntary_ctxt_switches:"); const char* nv = strstr(buf, "nonvoluntary_ctxt_switches:"); if (!v || !nv) return false;
  *ctxsw = strtol(v + 24, 0, 10) + strtol(nv + 27, 0, 10); return true;
}

static void* interrupter(void* p) {
  TArg* a = (TArg*)p; Rng r(a->seed, 1499, (u64)a->id);
  u8 buf[64];
  for (int i = 0; i < a->n; ++i) {
    long d = (long)r.below((u64)a->maxDelayUs + 1); if (d) su::sleepUs(d); else sched_yield();
    if (a->sender && r.chance(1, 2)) { size_t n = 1 + (size_t)r.below(64); su::fill(77, t_inSent, buf, n); long w = ns::realSend(t_pfd, buf, n, MSG_NOSIGNAL); if (w > 0) t_inSent += (u64)w; }
    long r0 = __atomic_load_n(&t_returns, __ATOMIC_SEQ_CST);
    __atomic_fetch_add(&t_started, 1, __ATOMIC_SEQ_CST);
    t_srv->interrupt();
    __atomic_fetch_add(&t_completed, 1, __ATOMIC_SEQ_CST);
    if (i + 1 < a->n && r.chance(1, 3)) { __atomic_fetch_add(&t_unacked, 1, __ATOMIC_RELAXED); continue; }   // fire the next one without waiting ("twice in a row")
    int64_t w0 = ns::realMonotonicMs(); long nap = 20;
    while (__atomic_load_n(&t_returns, __ATOMIC_SEQ_CST) <= r0) {
      su::sleepUs(nap); if (nap < 1000) nap *= 2;
      if (ns::realMonotonicMs() - w0 > 30000) {
        // Bounded progress, decided on the loop thread's scheduler state and not on the clock alone: interrupt() returned more than 30 s ago; if the loop thread
        // has been parked inside epoll_wait without a single context switch for a further 5 s, the wake-up was lost (or consumed without run() returning).
        // A loop thread that is runnable, starved or anywhere else leaves the verdict inconclusive.
        long c0 = 0, c1 = 0; bool p0 = loopThreadParked(&c0); su::sleepUs(5000000); bool p1 = loopThreadParked(&c1);
        if (p0 && p1 && c0 == c1 && __atomic_load_n(&t_returns, __ATOMIC_SEQ_CST) <= r0)
          fail("Server.interrupt/threaded/run-did-not-return", "interrupt() from thread %d returned more than 30 s ago, run() has not returned and its thread sits in epoll_wait without having been scheduled once in the last 5 s", a->id);
        harnessBug("threads: run() did not return within 30 s after interrupt() from thread %d (inconclusive: wall-clock bound, loop thread not parked)", a->id);
      }
    }
  }
  if (__atomic_sub_fetch(&t_active, 1, __ATOMIC_SEQ_CST) == 0) {
    __atomic_store_n(&t_done, 1, __ATOMIC_SEQ_CST);
    __atomic_fetch_add(&t_started, 1, __ATOMIC_SEQ_CST);
    t_srv->interrupt();
  }
  return 0;
}

struct RTimerCB : public Server::Timer::ICallback {
  int64_t t0, interval; long k; bool alive;
  void onActivated() {
    if (!alive) fail("Server.remove(Timer)/threaded/onActivated-after-remove", "real-time timer called back after remove()");
    ++k; int64_t now = Time::ticks();
    if (now < t0 + k * interval) fail("Server.Timer/threaded/activated-early", "real-time timer (interval %lld): activation %ld at +%lld ms", (long long)interval, k, (long long)(now - t0));
  }
};
struct RClientCB : public Server::Client::ICallback {
  Server::Client* c; u64 inRead; long reads;
  void onRead() {
    byte b[256]; usize got = 0;
    while (c->read(b, sizeof b, got)) {
      long d = su::firstDiff(77, inRead, (const u8*)b, (size_t)got);
      if (d >= 0) fail("Server.Client.read/threaded/content", "inbound bytes differ at offset %llu", (unsigned long long)(inRead + (u64)d));
      inRead += got; ++reads;
    }
  }
  void onWrite() {}
  void onClosed() {}
};

static void threadCase(long idx) {
  Rng r(opts.seed, 1403, (u64)idx);
  ns::reset(); ns::mode = ns::REAL; g_virtual = false;
  int nthreads = 1 + (int)r.below(3);
  static const long DELAYS[] = { 0, 50, 300, 2000 };
  long maxDelay = DELAYS[r.below(4)];
  t_loopTid = (int)syscall(SYS_gettid);
  t_srv = new Server; t_returns = t_started = t_completed = t_unacked = 0; t_active = nthreads; t_done = 0; t_inSent = 0;
  RTimerCB tcb[2]; Server::Timer* tm[2] = { 0, 0 }; int ntimers = (int)r.below(3);
  for (int i = 0; i < ntimers; ++i) { tcb[i].interval = 1 + (int64_t)r.below(5); tcb[i].k = 0; tcb[i].alive = true; tcb[i].t0 = Time::ticks(); tm[i] = t_srv->time(tcb[i].interval, tcb[i]); }
  RClientCB ccb; ccb.inRead = 0; ccb.reads = 0; Socket peer; ccb.c = t_srv->pair(ccb, peer);
  if (!ccb.c) harnessBug("pair failed");
  SOCK_TAKE_FD(peer, t_pfd);
  pthread_t th[3]; TArg args[3];
  int total = 0;
  for (int i = 0; i < nthreads; ++i) { args[i].id = i; args[i].n = 3 + (int)r.below(28); args[i].seed = opts.seed * 1000003ULL + (u64)idx; args[i].maxDelayUs = maxDelay; args[i].sender = i == 0; total += args[i].n; }
  hist.addf("threads: %d interrupter thread(s), %d interrupt() calls, delays up to %ld us, %d real-time timer(s)\n", nthreads, total, maxDelay, ntimers);
  bool preRun = r.chance(1, 4);
  if (preRun) { __atomic_fetch_add(&t_started, 1, __ATOMIC_SEQ_CST); t_srv->interrupt(); }   // requested before run()
  for (int i = 0; i < nthreads; ++i) if (pthread_create(&th[i], 0, interrupter, &args[i]) != 0) harnessBug("pthread_create failed");
  setctx("Server.run/threaded");
  for (;;) {
    t_srv->run();
    long ret = __atomic_add_fetch(&t_returns, 1, __ATOMIC_SEQ_CST);
    long st = __atomic_load_n(&t_started, __ATOMIC_SEQ_CST);
    if (ret > st) fail("Server.run/threaded/returned-without-interrupt", "run() has returned %ld time(s) but only %ld interrupt() call(s) were started", ret, st);
    if (__atomic_load_n(&t_done, __ATOMIC_SEQ_CST)) break;
  }
  for (int i = 0; i < nthreads; ++i) pthread_join(th[i], 0);
  setctx("driver");
  cnt("threaded_interrupt_calls", t_started); cnt("threaded_run_returns", t_returns); cnt("threaded_interrupts_not_awaited", t_unacked); cnt("threaded_inbound_reads", ccb.reads);
  if (t_returns < t_started) cnt("threaded_coalesced_interrupts", t_started - t_returns);
  for (int i = 0; i < ntimers; ++i) { cnt("threaded_timer_activations", tcb[i].k); t_srv->remove(*tm[i]); tcb[i].alive = false; }
  t_srv->remove(*ccb.c);
  close(t_pfd); t_pfd = -1;
  delete t_srv; t_srv = 0;
  u64 fp = mix(mix((u64)nthreads, (u64)total), (u64)t_returns * 7 + (u64)maxDelay);
  endCase(fp, t_returns >= 2);
}

// Observation (not a verdict of C13/C14, see SPEC assumptions): a suspended client without backlog is registered with an empty event mask, but epoll always
// reports EPOLLHUP; when its peer closes, the loop wakes up for an event with no flags over and over. Prints the number of poll rounds during 30 ms.
static int observeHupSpin() {
  struct Cb : public Server::Client::ICallback { void onRead() {} void onWrite() {} void onClosed() {} } cb;
  struct Tm : public Server::Timer::ICallback { Server* s; void onActivated() { s->interrupt(); } } tm;
  ns::reset(); ns::mode = ns::REAL; g_virtual = false;
  Server srv; tm.s = &srv; Socket peer;
  Server::Client* c = srv.pair(cb, peer); if (!c) harnessBug("pair failed");
  c->suspend(); peer.close();
  Server::Timer* t = srv.time(30, tm);
  long w0 = ns::nWait(); srv.run(); long rounds = ns::nWait() - w0;
  srv.remove(*t); srv.remove(*c);
  printf("@STAT observed_poll_rounds_in_30ms_with_suspended_client_whose_peer_closed %ld\n", rounds);
  return 0;
}

static int probe(const char* key) {
  if (!strcmp(key, "observation:suspended-client-hup-spin")) return observeHupSpin();
  harnessBug("unknown probe %s", key);
  return 2;
}

int main(int argc, char** argv) {
  init(argc, argv, "h_server_loop");
  signal(SIGPIPE, SIG_IGN);
  g_tmp = (u8*)malloc(TMPSZ);
  if (opts.probe) { int rc = probe(opts.probe); finish(); return rc; }
  const char* md = opts.mode;
  if (!strcmp(md, "threads")) {
    for (long idx = opts.start; idx < opts.start + opts.cases; ++idx) { if (!mine(idx)) continue; beginCase(idx); threadCase(idx); }
  } else {
    ns::hooks.sendPlan = hSendPlan; ns::hooks.sendDone = hSendDone; ns::hooks.drain = hDrain; ns::hooks.recvPlan = hRecvPlan; ns::hooks.recvDone = hRecvDone;
    ns::hooks.waitEnter = hWaitEnter; ns::hooks.waitLeave = hWaitLeave; ns::hooks.idle = hIdle;
    ns::resolveHook = resolveHook;
    if (!strcmp(md, "world")) {
      for (long idx = opts.start; idx < opts.start + opts.cases; ++idx) { if (!mine(idx)) continue; beginCase(idx); worldCase(idx); }
    } else if (!strcmp(md, "equal-due")) {
      int N = opts.scale >= 2 ? (int)opts.scale : 8;
      long total = 0; for (int n = 2; n <= N; ++n) total += 2L * n * n;
      long lo = opts.cases < 0 ? 0 : opts.start, hi = opts.cases < 0 ? total : opts.start + opts.cases;   // an explicit range (replay) is not clamped: the decoding is total-independent
      for (long idx = lo; idx < hi; ++idx) { if (!mine(idx)) continue; beginCase(idx); equalDueCase(idx); }
    } else harnessBug("unknown mode %s", md);
    if (g_rawListen >= 0) { rawCleanup(); close(g_rawListen); close(g_closedSock); }
  }
  free(g_tmp);
  leakCheck("Server/leak");
  finish();
  return 0;
}
