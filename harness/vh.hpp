// vh.hpp - common harness support for the libnstd runtime monitors.
// No STL: nstd/Base.hpp defines placement operator new, which collides with <new>.
// Protocol (stdout, parsed by vlib/runner.py):
//   @STAT name value      summed over processes
//   @MAX name value       max over processes
//   @SET name item        union over processes
//   @SAMPLE text          example case
//   @VIOL key=<key> replay=<path> msg=<text>   then exit(3)
//   @CTX <ctx>            printed by the death callback when a sanitizer / signal kills us
// Fingerprints of non-trivial cases are appended (8 bytes each) to <out>/fp.<pid>.bin
#pragma once
#include <stdio.h>
#include <stdlib.h>
#include <string.h>
#include <stdint.h>
#include <stdarg.h>
#include <unistd.h>
#include <signal.h>
#include <fcntl.h>
#include <nstd/Base.hpp>   // placement operator new (and the reason <new> must never be included)

namespace vh {

typedef uint64_t u64;
typedef uint32_t u32;
typedef uint8_t u8;

// ---------------------------------------------------------------- PRNG
struct Rng {
  u64 s[4];
  static u64 splitmix(u64& x) { u64 z = (x += 0x9e3779b97f4a7c15ULL); z = (z ^ (z >> 30)) * 0xbf58476d1ce4e5b9ULL; z = (z ^ (z >> 27)) * 0x94d049bb133111ebULL; return z ^ (z >> 31); }
  static u64 rotl(u64 x, int k) { return (x << k) | (x >> (64 - k)); }
  void seed(u64 a, u64 b = 0, u64 c = 0) { u64 x = a * 0x9e3779b97f4a7c15ULL ^ (b + 0x1234567) * 0xc2b2ae3d27d4eb4fULL ^ (c + 77) * 0x165667b19e3779f9ULL; for (int i = 0; i < 4; ++i) s[i] = splitmix(x); }
  Rng() { seed(1); }
  Rng(u64 a, u64 b = 0, u64 c = 0) { seed(a, b, c); }
  u64 next() { u64 r = rotl(s[1] * 5, 7) * 9, t = s[1] << 17; s[2] ^= s[0]; s[3] ^= s[1]; s[1] ^= s[2]; s[0] ^= s[3]; s[2] ^= t; s[3] = rotl(s[3], 45); return r; }
  // uniform in [0, n)
  u64 below(u64 n) { return n ? next() % n : 0; }
  // uniform in [lo, hi]
  long range(long lo, long hi) { return lo + (long)below((u64)(hi - lo + 1)); }
  bool chance(u32 num, u32 den) { return below(den) < num; }
  double unit() { return (next() >> 11) * (1.0 / 9007199254740992.0); }
};

// ---------------------------------------------------------------- tiny vector (any T with copy ctor/assign)
template <typename T> struct Vec {
  T* d; size_t n, cap;
  Vec() : d(0), n(0), cap(0) {}
  Vec(const Vec& o) : d(0), n(0), cap(0) { for (size_t i = 0; i < o.n; ++i) push(o.d[i]); }
  Vec& operator=(const Vec& o) { if (this != &o) { clear(); for (size_t i = 0; i < o.n; ++i) push(o.d[i]); } return *this; }
  ~Vec() { clear(); free(d); }
  void grow(size_t want) { if (want <= cap) return; size_t nc = cap ? cap * 2 : 8; if (nc < want) nc = want; T* nd = (T*)malloc(nc * sizeof(T)); for (size_t i = 0; i < n; ++i) { new ((void*)&nd[i]) T(d[i]); d[i].~T(); } free(d); d = nd; cap = nc; }
  void push(const T& v) { if (n == cap) { T tmp(v); grow(n + 1); new ((void*)&d[n++]) T(tmp); } else new ((void*)&d[n++]) T(v); }
  void insert(size_t at, const T& v) { T tmp(v); grow(n + 1); new ((void*)&d[n]) T(tmp); for (size_t i = n; i > at; --i) d[i] = d[i - 1]; d[at] = tmp; ++n; }
  void removeAt(size_t at) { for (size_t i = at; i + 1 < n; ++i) d[i] = d[i + 1]; d[--n].~T(); }
  void pop() { d[--n].~T(); }
  void clear() { while (n) d[--n].~T(); }
  void resize(size_t k, const T& v = T()) { while (n > k) pop(); while (n < k) push(v); }
  T& operator[](size_t i) { return d[i]; }
  const T& operator[](size_t i) const { return d[i]; }
  size_t size() const { return n; }
  bool empty() const { return n == 0; }
  T& back() { return d[n - 1]; }
  void swap(Vec& o) { T* td = d; d = o.d; o.d = td; size_t t = n; n = o.n; o.n = t; t = cap; cap = o.cap; o.cap = t; }
};

// ---------------------------------------------------------------- growable text buffer (history of the current case)
struct Text {
  char* d; size_t n, cap;
  Text() : d(0), n(0), cap(0) {}
  ~Text() { free(d); }
  void clear() { n = 0; if (d) d[0] = 0; }
  void reserve(size_t k) { if (k + 1 > cap) { cap = (k + 1) * 2; d = (char*)realloc(d, cap); } }
  void add(const char* s, size_t k) { reserve(n + k); memcpy(d + n, s, k); n += k; d[n] = 0; }
  void add(const char* s) { add(s, strlen(s)); }
  void addf(const char* fmt, ...) __attribute__((format(printf, 2, 3))) { va_list ap; va_start(ap, fmt); char tmp[1024]; int k = vsnprintf(tmp, sizeof tmp, fmt, ap); va_end(ap); if (k < 0) return; if ((size_t)k >= sizeof tmp) k = sizeof tmp - 1; add(tmp, (size_t)k); }
  // append bytes escaped as a C-like literal
  void addEsc(const void* p, size_t k) { const u8* b = (const u8*)p; for (size_t i = 0; i < k; ++i) { u8 c = b[i]; if (c == '\\') add("\\\\"); else if (c == '"') add("\\\""); else if (c >= 32 && c < 127) { char ch = (char)c; add(&ch, 1); } else addf("\\x%02x", c); } }
  const char* c() const { return d ? d : ""; }
};

// ---------------------------------------------------------------- global state
struct Opts {
  u64 seed; long cases; long start; const char* mode; const char* out; const char* exclude; const char* replay; const char* probe; long scale; long shard; long nshards; const char* rec;
};
extern Opts opts;
extern Text hist;              // history of the current case (dumped into the replay file)
extern volatile const char* ctx;  // API entry currently executing ("Map.insert/hint=end")
extern char ctxbuf[256];
extern long curCase;

void init(int argc, char** argv, const char* harnessName);
void finish();                  // prints stats; call at the end of main
bool excluded(const char* key); // --exclude a,b,c
inline void setctx(const char* c) { ctx = c; }
void setctxf(const char* fmt, ...) __attribute__((format(printf, 1, 2)));

// violation: prints @VIOL, writes the replay file, exits 3 (never returns)
void fail(const char* key, const char* fmt, ...) __attribute__((noreturn, format(printf, 2, 3)));
// harness-internal inconsistency (exit 2)
void harnessBug(const char* fmt, ...) __attribute__((noreturn, format(printf, 1, 2)));

// counters
void cnt(const char* name, long add = 1);   // name must be a literal or otherwise stable pointer content
void statMax(const char* name, long v);
void setItem(const char* set, const char* item);
void sample(const char* fmt, ...) __attribute__((format(printf, 1, 2)));  // limited to a few per process
inline bool mine(long idx) { return opts.nshards <= 1 || idx % opts.nshards == opts.shard; }
void rec(const char* fmt, ...) __attribute__((format(printf, 1, 2)));   // record line for the offline (python) checker, --rec file
void recRaw(const void* p, size_t n);
void cpuBudget(int seconds, const char* key);   // arm (seconds>0) / disarm (0) a CPU-time budget; firing = fail(key)
void leakCheck(const char* key);
size_t allocSize(const void* p);                // exact size of the heap block p (ASan builds), 0 when unknown                // LeakSanitizer recoverable check (no-op without ASan)
void beginCase(long idx);       // clears history, records case index
void endCase(u64 fingerprint, bool nontrivial);

inline u64 mix(u64 h, u64 v) { h ^= v + 0x9e3779b97f4a7c15ULL + (h << 6) + (h >> 2); return h * 0xff51afd7ed558ccdULL; }

#define VH_CHECK(cond, key, ...) do { if (!(cond)) ::vh::fail(key, __VA_ARGS__); } while (0)

// ---------------------------------------------------------------- tracked element type (exactly-once monitor)
// Registry keyed by object address: states live / destroyed. Each live Elem owns a heap block.
struct ElemReg {
  static void onCtor(const void* self, long id);
  static void onDtor(const void* self, long id);
  static void onUse(const void* self, long id, const char* what);
  static long liveCount();
  static long ctorCount();
  static long dtorCount();
  static long copyCount();
  static void noteCopy();
  static void reset();      // forget destroyed tombstones (at case start, when nothing is live)
  static void checkBalanced(const char* keyPrefix);
};

extern long elemCmpCount;      // comparison counter (C01)
extern long elemHashMode;      // 0 identity, 1 constant, 2 mod 2, 3 mod 3, 4 scrambled (C02)

struct Elem {
  long id; int* blk;
  Elem() : id(0), blk(new int(0x5a5a)) { ElemReg::onCtor(this, id); }
  Elem(long i) : id(i), blk(new int(0x5a5a)) { ElemReg::onCtor(this, id); }
  Elem(const Elem& o) : id(o.id), blk(new int(0x5a5a)) { ElemReg::onUse(&o, o.id, "copy-from"); ElemReg::onCtor(this, id); ElemReg::noteCopy(); }
  ~Elem() { ElemReg::onDtor(this, id); delete blk; blk = 0; }
  Elem& operator=(const Elem& o) { ElemReg::onUse(&o, o.id, "assign-from"); ElemReg::onUse(this, id, "assign-to"); id = o.id; ElemReg::noteCopy(); return *this; }
  bool operator==(const Elem& o) const { ElemReg::onUse(this, id, "=="); ElemReg::onUse(&o, o.id, "=="); ++elemCmpCount; return id == o.id; }
  bool operator!=(const Elem& o) const { return !(*this == o); }
  bool operator<(const Elem& o) const { ElemReg::onUse(this, id, "<"); ElemReg::onUse(&o, o.id, "<"); ++elemCmpCount; return id < o.id; }
  bool operator>(const Elem& o) const { ElemReg::onUse(this, id, ">"); ElemReg::onUse(&o, o.id, ">"); ++elemCmpCount; return id > o.id; }
  bool operator<=(const Elem& o) const { return !(*this > o); }
  bool operator>=(const Elem& o) const { return !(*this < o); }
};

} // namespace vh

// hash for vh::Elem used by HashMap/HashSet/PoolMap (found by ADL at instantiation)
namespace vh {
inline unsigned long hash(const Elem& e) {
  ElemReg::onUse(&e, e.id, "hash");
  switch (elemHashMode) { case 1: return 7; case 2: return (unsigned long)e.id % 2; case 3: return (unsigned long)e.id % 3; case 4: return (unsigned long)((u64)e.id * 0x9e3779b97f4a7c15ULL >> 20); default: return (unsigned long)e.id; }
}
}
