// h_xml.cpp - C16: Xml::parse total + safe + error position inside the text; comments wherever white space is allowed; toString -> parse identity;
//             copies of Xml::Variant values independent of their source
// modes: exh-c (all strings over a 16-symbol alphabet), exh-t (all token strings over 14 markup tokens), gen (generated valid documents with comments,
//        processing instructions, references: value oracle + every prefix), mut (mutations), deep (nesting 1000), roundtrip (random element trees), variant (handle histories),
//        wide (documents and trees with 4,000-20,000 elements: flat / tabular / moderately nested empty elements, repeated siblings with content, generated valid documents with
//        many children, a long flat document after a deep one on the same Parser object: accepted, same tree, toString -> parse identity),
//        exh-p / prolog (things a tolerant parser might step over - document type declarations with literals and an internal subset, XML declaration, processing instructions,
//        comments, CDATA sections - with LF / CR / CRLF inside every kind of token, in front of and inside documents that then fail or succeed: every reported position inside the text),
//        alias (the text argument of parse lives inside the tree of the output element: attribute value / text child of the output element or of a descendant, a String sharing
//        such a payload, output element = child of the owner; result compared with parsing an independent copy of the text into an identically built element)
// Build flavours: the only private state used is the reference count of an Xml::Variant payload (state class shared / unshared of toElement() in the variant mode, and the
// diagnosis in the probe of the operator= finding). With -DVERIF_NO_PRIVATE the class comes from the harness's own record of which handles were copied from one another
// (Handle::pid / hidden / kidsShared); all parse / round-trip / independence oracles are public API in both flavours.
#include "h_doc_common.hpp"
#include <nstd/Document/Xml.hpp>
#include <nstd/Error.hpp>

using namespace vh;
using namespace doc;

DOC_DEFINE_MALLOC_HOOK

// ================================================================================================ model tree
struct XNode {
  bool isText; Bytes text; Bytes name; Vec<Bytes> an, av; Vec<XNode*> kids;
  XNode(bool t) : isText(t) {}
  ~XNode() { for (size_t j = 0; j < kids.n; ++j) delete kids[j]; }
  XNode* clone() const { XNode* c = new XNode(isText); c->text = text; c->name = name; c->an = an; c->av = av; for (size_t j = 0; j < kids.n; ++j) c->kids.push(kids[j]->clone()); return c; }
private:
  XNode(const XNode&); XNode& operator=(const XNode&);
};
static long countNodes(const XNode* m) { long n = 1; for (size_t j = 0; j < m->kids.n; ++j) n += countNodes(m->kids[j]); return n; }
static u64 hashBytes(u64 h, const Bytes& b) { for (size_t j = 0; j < b.size(); ++j) h = mix(h, (u8)b[j]); return mix(h, b.size()); }
static u64 hashModel(const XNode* m) {
  u64 h = mix(23, m->isText); h = hashBytes(h, m->text); h = hashBytes(h, m->name);
  for (size_t j = 0; j < m->an.n; ++j) { h = hashBytes(h, m->an[j]); h = hashBytes(h, m->av[j]); }
  for (size_t j = 0; j < m->kids.n; ++j) h = mix(h, hashModel(m->kids[j]));
  return h;
}
static String S(const Bytes& b) { return String(b.p(), b.size()); }
static bool isBlankByte(char c) { return (c >= 9 && c <= 13) || c == 32; }
static bool isBlank(const Bytes& b) { for (size_t i = 0; i < b.size(); ++i) if (!isBlankByte(b[i])) return false; return true; }

static void buildElement(const XNode* m, Xml::Element& e, Rng& r) {
  e.line = 0; e.column = 0;
  e.type = S(m->name);
  for (size_t j = 0; j < m->an.n; ++j) e.attributes.append(S(m->an[j]), S(m->av[j]));
  for (size_t j = 0; j < m->kids.n; ++j) {
    const XNode* k = m->kids[j];
    if (k->isText) { if (r.chance(1, 2)) e.content.append(Xml::Variant(S(k->text))); else { Xml::Variant& v = e.content.append(Xml::Variant()); v = S(k->text); } }
    else if (r.chance(1, 2)) { Xml::Variant& v = e.content.append(Xml::Variant()); buildElement(k, v.toElement(), r); }
    else { Xml::Element c; buildElement(k, c, r); e.content.append(Xml::Variant(c)); }
  }
}

struct Cmp {
  const char* prefix; bool mergeText; bool fixedKey; long nodes, bytes; char key[220];
  // fixedKey: every divergence is reported under the key `prefix` itself (used for the independence checks, where what differs is incidental)
  Cmp(const char* p, bool merge, bool fixed = false) : prefix(p), mergeText(merge), fixedKey(fixed), nodes(0), bytes(0) {}
  void fail2(const char* k, const char* fmt, ...) __attribute__((noreturn, format(printf, 3, 4))) { char msg[1000]; va_list ap; va_start(ap, fmt); vsnprintf(msg, sizeof msg, fmt, ap); va_end(ap); vh::fail(fixedKey ? prefix : k, "%s", msg); }
  void bytesMismatch(const char* kind, const char* what, const Bytes& exp, const char* got, size_t gn, const char* path) {
    size_t at; const char* cls = diffClass(exp.p(), exp.size(), got, gn, at);
    // leading white space lost: got is a proper suffix of exp and the missing prefix is blank
    if (gn < exp.size() && !memcmp(exp.p() + (exp.size() - gn), got, gn)) { bool blank = true; for (size_t i = 0; i < exp.size() - gn; ++i) if (!isBlankByte(exp[i])) blank = false; if (blank) cls = "leading-whitespace"; }
    snprintf(key, sizeof key, "%s/%s:%s/content", prefix, kind, cls);
    Text m; m.addf("%s at %s differs at byte %lu: expected (%lu bytes) \"", what, path, (unsigned long)at, (unsigned long)exp.size()); m.addEsc(exp.p(), exp.size() > 60 ? 60 : exp.size());
    m.addf("\" got (%lu bytes) \"", (unsigned long)gn); m.addEsc(got, gn > 60 ? 60 : gn); m.add("\"");
    fail2(key, "%s", m.c());
  }
  void go(const Xml::Element& e, const XNode* m, Text& path) {
    ++nodes;
    size_t save = path.n; if (path.n < 400) { path.add("/"); path.add(m->name.p(), m->name.size() > 20 ? 20 : m->name.size()); }
    bytes += (long)m->name.size();
    if (!m->name.eq((const char*)e.type, e.type.length())) bytesMismatch("name", "element name", m->name, (const char*)e.type, e.type.length(), path.c());
    if (e.attributes.size() != m->an.n) { snprintf(key, sizeof key, "%s/attributes/count", prefix); fail2(key, "element %s has %lu attributes, expected %lu", path.c(), (unsigned long)e.attributes.size(), (unsigned long)m->an.n); }
    size_t j = 0;
    for (HashMap<String, String>::Iterator it = e.attributes.begin(), end = e.attributes.end(); it != end; ++it, ++j) {
      const String& k = it.key(); const String& v = *it; bytes += (long)(m->an[j].size() + m->av[j].size());
      if (!m->an[j].eq((const char*)k, k.length())) bytesMismatch("attribute-name", "attribute name", m->an[j], (const char*)k, k.length(), path.c());
      if (!m->av[j].eq((const char*)v, v.length())) bytesMismatch("attribute-value", "attribute value", m->av[j], (const char*)v, v.length(), path.c());
    }
    // content
    j = 0; List<Xml::Variant>::Iterator it = e.content.begin(), end = e.content.end();
    while (it != end) {
      const Xml::Variant& v = *it;
      if (v.isText()) {
        Bytes got; String s = v.toString(); got.add((const char*)s, s.length()); ++it;
        if (mergeText) while (it != end && (*it).isText()) { String s2 = (*it).toString(); got.add((const char*)s2, s2.length()); ++it; }
        if (j >= m->kids.n || !m->kids[j]->isText) { snprintf(key, sizeof key, "%s/content/unexpected-text", prefix); Text t; t.addEsc(got.p(), got.size() > 60 ? 60 : got.size()); fail2(key, "element %s: content item %lu is the text \"%s\" where the model has %s", path.c(), (unsigned long)j, t.c(), j >= m->kids.n ? "nothing more" : "an element"); }
        bytes += (long)m->kids[j]->text.size(); ++nodes;
        if (!m->kids[j]->text.eq(got)) bytesMismatch("text", "text", m->kids[j]->text, got.p(), got.size(), path.c());
        ++j;
      } else if (v.isElement()) {
        if (j >= m->kids.n || m->kids[j]->isText) { snprintf(key, sizeof key, "%s/content/unexpected-element", prefix); fail2(key, "element %s: content item %lu is an element where the model has %s", path.c(), (unsigned long)j, j >= m->kids.n ? "nothing more" : "text"); }
        go(v.toElement(), m->kids[j], path); ++j; ++it;
      } else { snprintf(key, sizeof key, "%s/content/null-item", prefix); fail2(key, "element %s: content item %lu is a null value", path.c(), (unsigned long)j); }
    }
    if (j != m->kids.n) { snprintf(key, sizeof key, "%s/content/count", prefix); fail2(key, "element %s has %lu content items, expected %lu (first missing one is %s)", path.c(), (unsigned long)j, (unsigned long)m->kids.n, m->kids[j]->isText ? "text" : "an element"); }
    path.n = save; if (path.d) path.d[save] = 0;
  }
};

// ================================================================================================ parse under guard + oracles
static const char* K_HANG = "Xml.parse/comment/memory-growth";
static const char* K_PILB = "Xml.parse/processing-instruction/error-position-outside-text";
static const char* K_AVLB = "Xml.roundtrip/attribute-value:linebreak/serialised-text-rejected";
static const char* K_LWS = "Xml.roundtrip/text:leading-whitespace/content";
static const char* K_ASSIGN = "Xml.Variant.operator=(Variant)/double-release";
static const char* K_TOELEM = "Xml.Variant.toElement/shared/independence";
static bool xHang, xPilb, xAvlb, xLws, xAssign, xToElem;

static bool contains(const char* t, size_t n, const char* needle) { size_t k = strlen(needle); if (k > n) return false; for (size_t i = 0; i + k <= n; ++i) if (!memcmp(t + i, needle, k)) return true; return false; }
static bool containsNoCase(const char* t, size_t n, const char* needle) { size_t k = strlen(needle); for (size_t i = 0; i + k <= n; ++i) { size_t j = 0; while (j < k && (t[i + j] | (((unsigned char)(t[i + j] - 'A') < 26) ? 0x20 : 0)) == needle[j]) ++j; if (j == k) return true; } return false; }
static const char* xmlClass(const char* t, size_t n, bool* hasComment = 0, bool* hasPi = 0) {
  bool c = contains(t, n, "<!--"), p = contains(t, n, "<?"); if (hasComment) *hasComment = c; if (hasPi) *hasPi = p;
  if (containsNoCase(t, n, "<!doctype")) return "document-type-declaration";   // constructs the parser does not claim: no verdict on acceptance, only on safety and on the reported position
  if (contains(t, n, "<![CDATA[")) return "cdata-section";
  return c && p ? "comment+processing-instruction" : c ? "comment" : p ? "processing-instruction" : "plain";
}

struct PResult { bool ok; int line, col; bool havePos; bool skipped; };

static bool g_countPrologPositions = false;
static bool g_elideInput = false;   // wide mode: the text (hundreds of KiB) is described by the case's header line instead of being copied into the history
static PResult parseGuarded(const char* text, size_t n, int api, Xml::Element& out, const char* what, Xml::Parser* reuse = 0) {
  PResult r; r.ok = false; r.line = r.col = 0; r.havePos = false; r.skipped = false;
  bool hasComment, hasPi; const char* cls = xmlClass(text, n, &hasComment, &hasPi);
  if (xHang && hasComment) { cnt("skipped_excluded_inputs"); r.skipped = true; return r; }
  if (reuse) api = 1;
  if (!strcmp(what, "prefix")) hist.addf("prefix api=%d: the first %lu bytes of the document above\n", api, (unsigned long)n);
  else if (g_elideInput) hist.addf("%s api=%d len=%lu%s (text elided: regenerate it from the header line)\n", what, api, (unsigned long)n, reuse ? " [same Parser object as before]" : "");
  else { hist.addf("%s api=%d len=%lu \"", what, api, (unsigned long)n); hist.addEsc(text, n); hist.add("\"\n"); }
  Exact e(text, n);
  char keyNT[160], keyMem[160], prefix[120];
  snprintf(prefix, sizeof prefix, "Xml.parse/%s", cls);
  snprintf(keyNT, sizeof keyNT, "%s/nonterminating", prefix); snprintf(keyMem, sizeof keyMem, "%s/memory-growth", prefix);
  setctxf("Xml.parse/%s", cls);
  String errStr;
  {
    Xml::Parser local; Xml::Parser& parser = reuse ? *reuse : local;
    guardOn(5, keyNT, keyMem, n);
    switch (api % 3) {
    case 0: r.ok = Xml::parse((const char*)e.p, out); break;
    case 1: { String s; s.attach(e.p, e.n); r.ok = parser.parse(s, out); break; }
    default: { String s; s.attach(e.p, e.n); r.ok = Xml::parse(s, out); break; }
    }
    if (__sanitizer_get_current_allocated_bytes) { size_t cur = __sanitizer_get_current_allocated_bytes(); if (cur > g_memBase) statMax("max_live_heap_growth_in_one_parse_KiB", (long)((cur - g_memBase) >> 10)); }
    guardOff();
    if (!r.ok) {
      if (api % 3 == 1) { r.line = parser.getErrorLine(); r.col = parser.getErrorColumn(); r.havePos = true; errStr = parser.getErrorString(); }
      else { errStr = Error::getErrorString(); int l = 0, c = 0; if (sscanf((const char*)errStr, "Syntax error at line %d, column %d", &l, &c) == 2) { r.line = l; r.col = c; r.havePos = true; } else cnt("error_string_unparsed"); }
    }
  }
  if (memcmp(e.p, text, n) != 0 || e.p[n] != 0) { char k[160]; snprintf(k, sizeof k, "%s/input-modified", prefix); fail(k, "the parser wrote into the caller's text"); }
  cnt("parses"); cnt("ops"); cnt("parse_bytes", (long)n);
  if (r.ok) cnt("parse_accepted");
  else {
    cnt("parse_rejected");
    if (api % 3 == 1) { char item[96]; snprintf(item, sizeof item, "%.60s", (const char*)errStr); for (char* p = item; *p; ++p) if (*p == ' ' || *p == '\n') *p = '_'; if (!strncmp(item, "Expected_end_tag_of", 19)) item[19] = 0; setItem("error_messages", item); }
    if (r.havePos) {
      if (xPilb && hasPi) cnt("skipped_excluded_positions");
      else { checkPos(text, n, r.line, r.col, prefix); if (g_countPrologPositions) { cnt("prolog_positions_checked"); if (r.line > 1) cnt("prolog_positions_checked_behind_line_1"); } }
    }
  }
  return r;
}

static bool modelHasAttrLinebreak(const XNode* m) { for (size_t j = 0; j < m->av.n; ++j) if (memchr(m->av[j].p(), '\n', m->av[j].size()) || memchr(m->av[j].p(), '\r', m->av[j].size())) return true; for (size_t j = 0; j < m->kids.n; ++j) if (modelHasAttrLinebreak(m->kids[j])) return true; return false; }

static void roundTrip(const Xml::Element& e, const XNode* m, int api, Cmp& cmp, bool withHeader, const char* rejectKey = "Xml.roundtrip/serialised-text-rejected") {
  setctx(withHeader ? "Xml.toString" : "Xml.Element.toString"); hist.add(withHeader ? "Xml::toString\n" : "Element::toString\n");
  guardOn(20, "Xml.toString/nonterminating", "Xml.toString/memory-growth", 0);
  String text = withHeader ? Xml::toString(e) : e.toString();
  guardOff();
  cnt("serialised_bytes", (long)text.length()); cnt("ops");
  Xml::Element back;
  PResult r = parseGuarded((const char*)text, text.length(), api, back, "reparse");
  if (r.skipped) return;
  if (!r.ok) { fail(modelHasAttrLinebreak(m) ? K_AVLB : rejectKey, "the text produced by toString is rejected by Xml::parse at line %d column %d", r.line, r.col); }
  setctx("Xml.roundtrip/compare");
  Text path; cmp.go(back, m, path);
  cnt("roundtrips");
}

// ================================================================================================ exhaustive short strings (characters / tokens)
static const char* tokA[] = { "<", ">", "/", "=", "\"", "'", "&", ";", "#", "!", "-", "?", " ", "\n", "a", "1" };
static const char* tokB[] = { "<a", ">", "</a>", "<!--", "-->", "x", " ", "\n", "/>", "<?", "?>", "\"", "=", "&amp;" };
static void exhaustive(const char** tok, int A, int modeConst) {
  int L = (int)opts.scale; if (L < 0) L = 0; if (L > 10) L = 10;
  long total = opts.cases < 0 ? exhTotal(A, L) : opts.start + opts.cases;
  long first = opts.cases < 0 ? 0 : opts.start;
  int dg[16]; char buf[80];
  for (long idx = first; idx < total; ++idx) {
    if (!mine(idx)) continue;
    int len = exhDecode(idx, A, dg, 10); if (len < 0) break;
    beginCase(idx);
    size_t n = 0; for (int i = 0; i < len; ++i) { size_t k = strlen(tok[dg[i]]); memcpy(buf + n, tok[dg[i]], k); n += k; } buf[n] = 0;
    Xml::Element out;
    PResult r = parseGuarded(buf, n, (int)(idx % 3), out, "parse");
    if (r.ok) cnt("exh_accepted");
    cnt("exh_parses");
    if (idx % 100003 == 7) sample("%s", hist.c());
    endCase(mix(mix(0x5eed, (u64)modeConst), (u64)idx), len >= 2);
  }
  if (opts.cases < 0) cnt("exhaustive_space", opts.shard == 0 ? total : 0);
  statMax("exhaustive_max_length", L);
}

// ================================================================================================ generator of valid documents
static u32 genCodePoint(Rng& r) {
  switch (r.below(16)) {
  case 0: case 1: case 2: case 3: case 4: case 5: return (u32)r.range(0x21, 0x7e);
  case 6: { static const char sp[] = "<>&\"';#/=!-?"; return (u32)(u8)sp[r.below(sizeof sp - 1)]; }
  case 7: return ' ';
  case 8: return (u32)r.range(1, 31);
  case 9: { static const u32 c[] = { 0x7f, 0x80, 0xff, 0x7ff, 0x800, 0xd7ff, 0xe000, 0xfffd, 0xffff, 0x10000, 0x10ffff, 0x1f600, '\n', '\r', '\t' }; return c[r.below(sizeof c / sizeof *c)]; }
  case 10: return (u32)r.range(0x80, 0x7ff);
  case 11: { u32 c = (u32)r.range(0x800, 0xffff); if (c >= 0xd800 && c <= 0xdfff) c = 0x20ac; return c; }
  case 12: return (u32)r.range(0x10000, 0x10ffff);
  default: return (u32)r.range('a', 'z');
  }
}
static void genName(Rng& r, Bytes& out) {
  static const char first[] = "abcdefghijklmnopqrstuvwxyzABCXYZ_"; static const char rest[] = "abcdefghijklmnopqrstuvwxyzABCXYZ_0123456789.-:";
  int n = r.chance(1, 10) ? (int)r.range(8, 30) : (int)r.range(1, 6);
  out.add(first[r.below(sizeof first - 1)]); for (int i = 1; i < n; ++i) out.add(rest[r.below(sizeof rest - 1)]);
  // a name must not end where "/>" could be misread: fine, '/' is not a name character here
}

static bool xLwsGen = false;   // = excluded(K_LWS): text with leading white space must not start with a byte on which the tokenizer fails
struct DocGen {
  Rng& r; Bytes& out; bool comments; int maxDepth; long commentsNextToText, commentsInTag;
  DocGen(Rng& rr, Bytes& o, bool c, int d) : r(rr), out(o), comments(c), maxDepth(d), commentsNextToText(0), commentsInTag(0) {}
  int wsChars(int minimum) { int k = minimum + (r.chance(1, 3) ? (int)r.range(1, 3) : 0); static const char* w[] = { " ", "\t", "\n", "\r\n", "\r", " " }; for (int i = 0; i < k; ++i) out.adds(w[r.below(6)]); return k; }
  void comment() {
    static const char cc[] = "ab z-<>&\"'!?/=x-";
    out.adds("<!--"); int k = (int)r.below(14);
    for (int i = 0; i < k; ++i) { if (r.chance(1, 8)) { out.adds(r.chance(1, 2) ? "\n" : "\r\n"); continue; } char c = cc[r.below(sizeof cc - 1)]; if (c == '>' && out.size() >= 2 && out[out.size() - 1] == '-' && out[out.size() - 2] == '-') c = 'x'; out.add(c); }
    out.adds("-->");
  }
  // white space between tags / around the root: comments may abut the markup
  void ws(int minimum) { wsChars(minimum); if (comments) while (r.chance(1, 6)) { comment(); wsChars(0); } }
  // white space inside a tag: a comment is only placed behind at least one white-space character (a comment glued to a name is read as part of the name,
  // which is not a position where white space separates two tokens)
  void wsTag(int minimum) { int k = wsChars(minimum); if (comments && k > 0) while (r.chance(1, 6)) { comment(); wsChars(0); } }
  void ref(u32 cp) { char b[24]; snprintf(b, sizeof b, "&#%u;", cp); out.adds(b); }
  // emits one code point of an attribute value (quote = delimiter) or of text (quote = 0)
  void emitChar(u32 cp, char quote) {
    bool must = cp == '<' || cp == '&' || (quote && (cp == (u32)quote || cp == '\n' || cp == '\r'));
    if (!must && !r.chance(1, 10)) { utf8(cp, out); return; }
    const char* named = 0;
    switch (cp) { case '<': named = "&lt;"; break; case '>': named = "&gt;"; break; case '&': named = "&amp;"; break; case '"': named = "&quot;"; break; case '\'': named = "&apos;"; break; default: break; }
    if (named && !r.chance(1, 4)) out.adds(named); else ref(cp);
  }
  void genValue(Bytes& model, char quote) { int n = r.chance(1, 10) ? (int)r.range(15, 80) : (int)r.below(9); for (int i = 0; i < n; ++i) { u32 cp = genCodePoint(r); utf8(cp, model); emitChar(cp, quote); } }
  // text: non-blank; may carry leading / trailing white space; comments are woven in only between two non-blank characters
  void genText(Bytes& model) {
    Vec<u32> cps; int n = r.chance(1, 10) ? (int)r.range(15, 80) : (int)r.range(1, 9);
    for (int i = 0; i < n; ++i) cps.push(genCodePoint(r));
    bool nonblank = false; for (size_t i = 0; i < cps.n; ++i) if (!(cps[i] < 128 && isBlankByte((char)cps[i]))) nonblank = true;
    if (!nonblank) cps.push('t');
    if (r.chance(1, 4)) {
      if (xLwsGen) { size_t i0 = 0; while (i0 < cps.n && cps[i0] < 128 && isBlankByte((char)cps[i0])) ++i0; if (i0 < cps.n && (cps[i0] == '/' || cps[i0] == '"' || cps[i0] == '\'')) cps[i0] = '.'; }
      cps.insert(0, r.chance(1, 2) ? ' ' : '\n');
    } else if (xLwsGen && cps.n && cps[0] < 128 && isBlankByte((char)cps[0])) { size_t i0 = 0; while (i0 < cps.n && cps[i0] < 128 && isBlankByte((char)cps[i0])) ++i0; if (i0 < cps.n && (cps[i0] == '/' || cps[i0] == '"' || cps[i0] == '\'')) cps[i0] = '.'; }
    if (r.chance(1, 4)) cps.push(r.chance(1, 2) ? ' ' : '\t');
    for (size_t i = 0; i < cps.n; ++i) {
      utf8(cps[i], model); emitChar(cps[i], 0);
      bool nb1 = !(cps[i] < 128 && isBlankByte((char)cps[i])), nb2 = i + 1 < cps.n && !(cps[i + 1] < 128 && isBlankByte((char)cps[i + 1]));
      if (comments && nb1 && nb2 && r.chance(1, 8)) { comment(); ++commentsNextToText; }
    }
  }
  XNode* element(int depth) {
    XNode* m = new XNode(false); genName(r, m->name);
    out.add('<'); out.add(m->name);
    int na = r.chance(1, 3) ? 0 : (int)r.range(1, 4);
    for (int i = 0; i < na; ++i) {
      size_t before = out.size(); wsTag(1); if (contains(out.p() + before, out.size() - before, "<!--")) ++commentsInTag;
      Bytes an; for (int attempt = 0;; ++attempt) { an.clear(); genName(r, an); bool dup = false; for (size_t j = 0; j < m->an.n; ++j) if (m->an[j].eq(an)) dup = true; if (!dup) break; if (attempt > 10) { char b[16]; snprintf(b, sizeof b, "_%d", i); an.adds(b); break; } }
      out.add(an); if (r.chance(1, 4)) wsTag(0); out.add('='); if (r.chance(1, 4)) wsTag(0);
      char q = r.chance(1, 2) ? '"' : '\''; out.add(q); Bytes av; genValue(av, q); out.add(q);
      m->an.push(an); m->av.push(av);
    }
    if (r.chance(1, 4)) wsTag(0);
    int nk = depth >= maxDepth ? (r.chance(1, 2) ? 0 : 1) : (r.chance(1, 5) ? 0 : (int)r.range(1, 5));
    if (nk == 0) { if (r.chance(1, 2)) { out.adds("/>"); return m; } out.add('>'); }
    else {
      out.add('>');
      bool lastText = false;
      for (int i = 0; i < nk; ++i) {
        bool text = !lastText && (depth >= maxDepth || r.chance(1, 3));
        if (text) { XNode* t = new XNode(true); genText(t->text); m->kids.push(t); lastText = true; }
        else {
          if (!lastText && r.chance(1, 3)) ws(0);            // formatting white space only between tags
          else if (comments && r.chance(1, 6)) { comment(); if (lastText) ++commentsNextToText; }
          m->kids.push(element(depth + 1)); lastText = false;
          if (r.chance(1, 3) && !(i + 1 < nk)) ws(0);        // before the end tag
        }
      }
      if (lastText && comments && r.chance(1, 8)) { comment(); ++commentsNextToText; }
    }
    out.adds("</"); out.add(m->name); if (r.chance(1, 5)) wsChars(1); out.add('>');
    return m;
  }
  void pi() { out.adds("<?"); static const char* body[] = { "xml version=\"1.0\" encoding=\"UTF-8\"", "foo", "a b\nc", "x\r\ny ? z", "p >?", "", "q\r", "php echo '<a>'; " }; out.adds(body[r.below(8)]); out.adds("?>"); }
  XNode* document() {
    ws(0);
    int np = r.chance(1, 2) ? (int)r.range(1, 3) : 0; for (int i = 0; i < np; ++i) { pi(); ws(0); }
    XNode* m = element(0);
    ws(0);
    return m;
  }
};

static const char* corpus[] = {
  "<?xml version=\"1.0\" encoding=\"UTF-8\"?>\n<root a=\"1\" b='2'>\n  <item id=\"&lt;&amp;&gt;&quot;&apos;\">text &#65;&#228;&#8364;&#128512; more</item>\n  <empty/>\n  <!-- comment -->\n</root>\n",
  "<a>x<!--c-->y</a>",
  "<a> <!--c-->y</a>",
  "<a><!--c-->y<!--d--></a>",
  "<a>x<!--c--><b/><!--d-->z</a>",
  "<?a\n?><",
  "<?a\r?>\n<b></c>",
  "<a b=\"&#0;&#1114112;&#-1;&#4294967296;&#x41;&#;&;&unknown;&amp\" c='&#65'>&#10;&lt</a>",
  "<a b=\"x\ny\"/>",
  "<a b=\"x",
  "<a b='x'",
  "<a b=c/>",
  "<a b/>",
  "<a =\"x\" \"y\" />",
  "<a><b></a></b>",
  "<a></b>",
  "<a>text",
  "<a>  /x</a>",
  "<a>\"q</a>",
  "<!-- only a comment -->",
  "<!--",
  "<!---->",
  "<!-->",
  "<?xml",
  "<?xml?",
  "<?" "?><a/>",
  "<a",
  "<",
  "</a>",
  "<a/><b/>",
  "<a/>trailing",
  "\xef\xbb\xbf<a/>",
  "<a\xff=\"\xfe\">\x01\x7f\xc3\x28</a\xff>",
  "<a>\r\n\r\r\n\n<b>\r</b>\n\r</a>",
};
static const int NCORPUS = (int)(sizeof corpus / sizeof *corpus);

static void everyPrefix(const char* t, size_t n, int api0) {
  for (size_t k = 0; k <= n; ++k) { Xml::Element out; parseGuarded(t, k, (int)((api0 + k) % 3), out, "prefix"); cnt("prefix_parses"); }
}

static void genMode() {
  for (long idx = opts.start; idx < opts.start + opts.cases; ++idx) {
    if (!mine(idx)) continue;
    beginCase(idx);
    Rng r(opts.seed, 1601, (u64)idx);
    if (idx < NCORPUS) {
      const char* t = corpus[idx]; size_t n = strlen(t);
      hist.addf("# corpus document %ld\n", idx);
      for (int api = 0; api < 3; ++api) { Xml::Element out; parseGuarded(t, n, api, out, "parse"); }
      everyPrefix(t, n, (int)idx);
      endCase(mix(mix(0x5eed, 1601), (u64)idx), true);
      continue;
    }
    bool comments = r.chance(2, 3);
    Bytes text; DocGen g(r, text, comments, (int)r.range(0, 5));
    XNode* m = g.document();
    hist.addf("# generated valid document, %lu bytes, %ld nodes, comments=%d\n", (unsigned long)text.size(), countNodes(m), (int)comments);
    int api = (int)r.below(3);
    Xml::Element out; PResult pr = parseGuarded(text.p(), text.size(), api, out, "parse");
    if (!pr.skipped) {
      if (!pr.ok) { const char* cls = xmlClass(text.p(), text.size()); char k[120]; snprintf(k, sizeof k, "Xml.parse/valid-document:%s/rejected", cls); fail(k, "a valid XML document was rejected at line %d column %d", pr.line, pr.col); }
      setctx("Xml.parse/valid-document/compare");
      Cmp cmp(comments ? "Xml.parse/valid-document:comment" : "Xml.parse/valid-document", true); Text path; cmp.go(out, m, path);
      cnt("value_nodes_compared", cmp.nodes); cnt("value_bytes_compared", cmp.bytes); cnt("valid_documents_compared");
      cnt("comments_next_to_text", g.commentsNextToText); cnt("comments_inside_tags", g.commentsInTag); if (contains(text.p(), text.size(), "<?")) cnt("documents_with_processing_instruction");
    }
    if (text.size() <= 400) everyPrefix(text.p(), text.size(), (int)r.below(3));
    else for (int k = 0; k < 200; ++k) { size_t cut = r.below(text.size() + 1); Xml::Element o3; parseGuarded(text.p(), cut, (int)r.below(3), o3, "prefix"); cnt("prefix_parses"); }
    statMax("max_document_bytes", (long)text.size());
    if (idx % 211 == 0) sample("%.900s", hist.c());
    u64 fp = hashModel(m); long nn = countNodes(m);
    delete m;
    endCase(fp, nn >= 3);
  }
}

// ================================================================================================ mutations
static void mutMode() {
  static const char* interesting[] = { "<", ">", "/", "=", "\"", "'", "&", ";", "#", "!", "-", "?", " ", "\n", "\r", "<!--", "-->", "<?", "?>", "</", "/>", "&#", "&amp;", "a", "0", "\t", "--", "&#10;" };
  const int NI = (int)(sizeof interesting / sizeof *interesting);
  for (long idx = opts.start; idx < opts.start + opts.cases; ++idx) {
    if (!mine(idx)) continue;
    beginCase(idx);
    Rng r(opts.seed, 1602, (u64)idx);
    Bytes base;
    if (r.chance(1, 5)) base.adds(corpus[r.below(NCORPUS)]);
    else { DocGen g(r, base, r.chance(1, 2), (int)r.range(0, 4)); delete g.document(); }
    Bytes other; if (r.chance(1, 3)) { DocGen g2(r, other, true, 3); delete g2.document(); }
    int nm = (int)r.range(1, 4); u64 fp = 1602;
    for (int k = 0; k < nm; ++k) {
      Bytes t; size_t n = base.size(); int kind = (int)r.below(6); fp = mix(fp, (u64)kind);
      size_t at = n ? r.below(n) : 0;
      Bytes ins; if (r.chance(1, 8)) ins.add((char)r.range(1, 255)); else ins.adds(interesting[r.below(NI)]);
      switch (kind) {
      case 0: t.add(base.p(), at); t.add(ins); if (n) t.add(base.p() + at + 1, n - at - 1); break;                                                     // replace a byte
      case 1: t.add(base.p(), at); t.add(ins); t.add(base.p() + at, n - at); break;                                                                     // insert
      case 2: { size_t len = n ? r.range(1, 5) : 0; if (at + len > n) len = n - at; t.add(base.p(), at); t.add(base.p() + at + len, n - at - len); break; }  // delete a range
      case 3: { size_t len = n ? r.range(1, 10) : 0; if (at + len > n) len = n - at; t.add(base.p(), at + len); t.add(base.p() + at, n - at); break; }       // duplicate a range
      case 4: t.add(base.p(), at); if (other.size()) { size_t o = r.below(other.size()); t.add(other.p() + o, other.size() - o); } break;                     // splice
      default: { t.add(base.p(), n); for (size_t j = 0; j < t.size(); ++j) if (t.v[j] == '>' && r.chance(1, 4)) { t.v[j] = r.chance(1, 2) ? '\n' : ' '; } break; }
      }
      base = t; fp = mix(fp, (u64)at);
    }
    size_t n = base.size(); for (size_t j = 0; j < n; ++j) if (base[j] == 0) { n = j; break; }
    Xml::Element out; PResult pr = parseGuarded(base.p(), n, (int)r.below(3), out, "parse-mutant");
    if (pr.ok) cnt("mutants_accepted");
    cnt("mutation_parses");
    if (idx % 997 == 0) sample("%.500s", hist.c());
    endCase(fp, n >= 2);
  }
}

// ================================================================================================ deep nesting
static int depthOf(const Xml::Element& e) { int d = 1; const Xml::Element* p = &e; for (;;) { const Xml::Element* next = 0; for (List<Xml::Variant>::Iterator it = p->content.begin(), end = p->content.end(); it != end; ++it) if ((*it).isElement()) { next = &(*it).toElement(); break; } if (!next) return d; p = next; ++d; } }
static void deepMode() {
  for (long idx = opts.start; idx < opts.start + opts.cases; ++idx) {
    if (!mine(idx)) continue;
    beginCase(idx);
    Rng r(opts.seed, 1603, (u64)idx);
    int pattern = (int)(idx % 6); int d = (idx / 6) % 2 == 0 ? 1000 : (int)r.range(1, 1000);
    Bytes t; XNode* root = 0; XNode* cur = 0; bool valid = true; int closes = d;
    if (pattern == 3) { closes = 0; valid = false; } else if (pattern == 4) { closes = (int)r.below((u64)d); valid = false; }
    Vec<Bytes> names;
    for (int i = 0; i < d; ++i) {
      Bytes nm; if (pattern == 0) nm.adds("a"); else genName(r, nm);
      names.push(nm);
      XNode* e = new XNode(false); e->name = nm;
      t.add('<'); t.add(nm);
      if (pattern == 2 || pattern == 5) { t.adds(" k=\"v\""); Bytes k, v; k.adds("k"); v.adds("v"); e->an.push(k); e->av.push(v); }
      t.add('>');
      if (pattern == 5) t.adds(i & 1 ? "\n" : "\r\n  ");
      if (pattern == 2) { t.adds("t"); XNode* tx = new XNode(true); tx->text.adds("t"); e->kids.push(tx); }
      if (cur) cur->kids.push(e); else root = e; cur = e;
    }
    for (int i = 0; i < closes; ++i) { t.adds("</"); t.add(names[(size_t)(d - 1 - i)]); t.add('>'); if (pattern == 5) t.add('\n'); }
    hist.addf("# deep nesting pattern=%d depth=%d closes=%d bytes=%lu\n", pattern, d, closes, (unsigned long)t.size());
    size_t keep = hist.n;
    int api = (int)r.below(3);
    Xml::Element out; PResult pr = parseGuarded(t.p(), t.size(), api, out, "parse-deep");
    hist.n = keep; hist.d[keep] = 0; hist.add("(input elided: regenerate from the header line)\n");
    if (valid && !pr.skipped) {
      if (!pr.ok) fail("Xml.parse/valid-document:deep/rejected", "a valid document nested %d deep was rejected at line %d column %d", d, pr.line, pr.col);
      int got = depthOf(out); if (got != d) fail("Xml.parse/valid-document:deep/content/count", "document nested %d deep parsed to a tree nested %d deep", d, got);
      setctx("Xml.parse/valid-document/compare");
      Cmp cmp("Xml.parse/valid-document:deep", true); Text path; cmp.go(out, root, path); cnt("value_nodes_compared", cmp.nodes);
      Cmp cmp2("Xml.roundtrip", false); size_t keep2 = hist.n; roundTrip(out, root, api, cmp2, r.chance(1, 2)); hist.n = keep2; hist.d[keep2] = 0;
      cnt("deep_roundtrips"); cnt("rt_nodes_compared", cmp2.nodes);
    }
    statMax("max_nesting_depth", d); cnt("deep_parses");
    setctx("Xml.Element.destructor/deep");
    delete root;
    endCase(mix(mix(1603, (u64)pattern), (u64)d), true);
  }
}

// ================================================================================================ wide documents: thousands of (empty) elements and siblings
static XNode* wElem(const char* name) { XNode* e = new XNode(false); e->name.adds(name); return e; }
static void wAttr(XNode* e, const char* k, const char* v) { Bytes kb, vb; kb.adds(k); vb.adds(v); e->an.push(kb); e->av.push(vb); }
static XNode* wText(const char* t) { XNode* e = new XNode(true); e->text.adds(t); return e; }
static void wValue(Rng& r, long i, char* buf, size_t cap) {
  switch (r.below(6)) { case 0: snprintf(buf, cap, "%ld", i); break; case 1: snprintf(buf, cap, "x"); break; case 2: snprintf(buf, cap, "a&b<%ld>", i); break; case 3: snprintf(buf, cap, "\"q'%ld", i); break; case 4: snprintf(buf, cap, "v %ld w", i); break; default: snprintf(buf, cap, "%s", r.chance(1, 2) ? "" : "\xc3\xa4"); break; }
}
static void wCount(const XNode* m, long& elements, long& empties, long& maxSiblings) {
  if (m->isText) return; ++elements; if (!m->kids.n) ++empties; if ((long)m->kids.n > maxSiblings) maxSiblings = (long)m->kids.n;
  for (size_t j = 0; j < m->kids.n; ++j) wCount(m->kids[j], elements, empties, maxSiblings);
}
// moderately nested random tree: `budget` elements in total, nesting at most maxDepth, most leaves without content
static void wNested(Rng& r, XNode* parent, int depth, int maxDepth, long& budget, long& serial) {
  static const char* nm[] = { "n", "node", "e", "group", "x-y", "a.b", "leaf", "_u" };
  long fan = depth == 0 ? budget : (long)r.range(1, depth + 1 >= maxDepth ? 60 : 12);
  for (long k = 0; k < fan && budget > 0; ++k) {
    XNode* c = wElem(nm[r.below(8)]); --budget; ++serial;
    if (r.chance(1, 3)) { char b[40]; wValue(r, serial, b, sizeof b); wAttr(c, "i", b); if (r.chance(1, 4)) wAttr(c, "j", "2"); }
    parent->kids.push(c);
    if (depth + 1 < maxDepth && r.chance(1, 4)) wNested(r, c, depth + 1, maxDepth, budget, serial);
    else if (r.chance(1, 6)) { char b[40]; snprintf(b, sizeof b, "t%ld", serial); c->kids.push(wText(b)); }
  }
}
struct WStyle { int empties; int breaks; };   // empties: 0 "/>", 1 " />", 2 "></n>", 3 mixed; breaks: 0 none, 1 LF, 2 CR LF + indentation between the children of elements without text
static void wEsc(const Bytes& v, Bytes& out, bool attr) {
  for (size_t i = 0; i < v.size(); ++i) { char c = v[i];
    if (c == '&') out.adds("&amp;"); else if (c == '<') out.adds("&lt;"); else if (c == '>') out.adds("&gt;"); else if (attr && c == '"') out.adds("&quot;"); else if (attr && c == '\'') out.adds("&apos;"); else if (attr && c == '\n') out.adds("&#10;"); else if (attr && c == '\r') out.adds("&#13;"); else out.add(c); }
}
static void wEmit(const XNode* m, Bytes& out, Rng& r, const WStyle& st, int depth) {
  if (m->isText) { wEsc(m->text, out, false); return; }
  out.add('<'); out.add(m->name);
  for (size_t j = 0; j < m->an.n; ++j) { out.add(' '); out.add(m->an[j]); out.adds("=\""); wEsc(m->av[j], out, true); out.add('"'); }
  if (!m->kids.n) { int e = st.empties == 3 ? (int)r.below(3) : st.empties; if (e == 0) out.adds("/>"); else if (e == 1) out.adds(" />"); else { out.adds("></"); out.add(m->name); out.add('>'); } return; }
  out.add('>');
  bool hasText = false; for (size_t j = 0; j < m->kids.n; ++j) if (m->kids[j]->isText) hasText = true;
  bool fmt = st.breaks && !hasText;
  for (size_t j = 0; j < m->kids.n; ++j) { if (fmt) { out.adds(st.breaks == 1 ? "\n" : "\r\n"); for (int k = 0; k <= depth && k < 8; ++k) out.add(' '); } wEmit(m->kids[j], out, r, st, depth + 1); }
  if (fmt) { out.adds(st.breaks == 1 ? "\n" : "\r\n"); for (int k = 0; k < depth && k < 8; ++k) out.add(' '); }
  out.adds("</"); out.add(m->name); out.add('>');
}
static const char* K_WIDE_REJ = "Xml.parse/valid-document:many-elements/rejected";
static const char* K_WIDE_RT_REJ = "Xml.roundtrip/many-elements/serialised-text-rejected";
static const char* K_REUSE_REJ = "Xml.Parser.parse/reused-parser/valid-document/rejected";
// parse a valid document (optionally on a Parser object that has parsed other documents before) and compare the result with the model
static bool wParseCompare(const Bytes& text, const XNode* m, int api, Xml::Element& out, const char* what, Xml::Parser* reuse, long elements, long empties) {
  PResult pr = parseGuarded(text.p(), text.size(), api, out, what, reuse);
  if (pr.skipped) return false;
  if (!pr.ok && reuse) { // does a fresh parser accept it?
    Xml::Element o2; size_t keep = hist.n; PResult p2 = parseGuarded(text.p(), text.size(), 1, o2, "parse-fresh-parser"); hist.n = keep; hist.d[keep] = 0;
    if (p2.ok) fail(K_REUSE_REJ, "a valid document (%ld elements, %ld without content) is rejected at line %d column %d by a Parser object that parsed other documents before, and accepted by a fresh one", elements, empties, pr.line, pr.col);
  }
  if (!pr.ok) fail(K_WIDE_REJ, "a valid document with %ld elements (%ld of them without content) was rejected at line %d column %d", elements, empties, pr.line, pr.col);
  setctx("Xml.parse/valid-document/compare");
  Cmp cmp("Xml.parse/valid-document:many-elements", true); Text path; cmp.go(out, m, path);
  cnt("value_nodes_compared", cmp.nodes); cnt("wide_nodes_compared", cmp.nodes); cnt("wide_documents_compared");
  return true;
}
static void wideMode() {
  static const char* pname[] = { "flat-empty", "table-of-empty-cells", "built-tree", "flat-start-end-pairs", "siblings-with-content", "nested", "deep-then-flat-same-parser", "generated-valid-document" };
  g_elideInput = true;
  const size_t baseCap = g_memCap;
  for (long idx = opts.start; idx < opts.start + opts.cases; ++idx) {
    if (!mine(idx)) continue;
    beginCase(idx);
    Rng r(opts.seed, 1606, (u64)idx);
    int pattern = (int)(idx % 8);
    long N = (idx / 8) % 4 == 3 ? (long)r.range(12000, 20000) : (long)r.range(4200, 9000);   // a function of (seed, idx) only: a replay does not pass --scale
    WStyle st; st.empties = (int)r.below(4); st.breaks = (int)r.below(3);
    int api = (int)r.below(3); bool header = r.chance(1, 2);
    XNode* root = wElem(pattern == 1 ? "table" : "root"); Bytes text; bool fromText = true, comments = false, roundtrip = true;
    if (r.chance(1, 3)) wAttr(root, "version", "1");
    switch (pattern) {
    case 0: case 2: case 3: case 6: {   // flat: N children without content
      if (pattern == 3) st.empties = 2;
      bool oneName = r.chance(1, 2);
      for (long i = 0; i < N; ++i) { XNode* c = wElem(oneName ? "c" : (i % 3 == 0 ? "cell" : i % 3 == 1 ? "b" : "item-x")); if (i % 3 == 1 || r.chance(1, 8)) { char b[40]; wValue(r, i, b, sizeof b); wAttr(c, "v", b); } root->kids.push(c); }
      if (pattern == 2) { fromText = false; if (r.chance(1, 2)) { delete root; root = wElem("root"); long budget = N, serial = 0; wNested(r, root, 0, (int)r.range(2, 6), budget, serial); } }
      break; }
    case 1: {   // rows x cells
      long cells = (long)r.range(20, 100), rows = (N + cells - 1) / cells;
      for (long i = 0; i < rows; ++i) { XNode* row = wElem("row"); char b[24]; snprintf(b, sizeof b, "%ld", i); wAttr(row, "n", b); for (long c = 0; c < cells; ++c) { XNode* cell = wElem("cell"); if (c & 1) wAttr(cell, "v", "x"); row->kids.push(cell); } root->kids.push(row); }
      break; }
    case 4: {   // N siblings with content
      for (long i = 0; i < N; ++i) { XNode* it = wElem("item"); char b[40]; snprintf(b, sizeof b, "%ld", i); wAttr(it, "id", b);
        if (i % 5 == 4) { XNode* sub = wElem("sub"); snprintf(b, sizeof b, "s%ld", i); sub->kids.push(wText(b)); it->kids.push(sub); if (r.chance(1, 2)) { snprintf(b, sizeof b, "tail %ld", i); it->kids.push(wText(b)); } }
        else { wValue(r, i, b, sizeof b); if (isBlankByte(b[0]) || !b[0]) snprintf(b, sizeof b, "text %ld", i); it->kids.push(wText(b)); }
        root->kids.push(it); }
      break; }
    case 5: { long budget = N, serial = 0; wNested(r, root, 0, (int)r.range(2, 7), budget, serial); break; }
    default: {  // many generated elements (the grammar of the gen mode: comments, references, both quote kinds, white space) below one root
      comments = r.chance(1, 2); roundtrip = !comments;
      DocGen g(r, text, comments, (int)r.range(1, 3));
      delete root; root = wElem("root");
      g.ws(0); if (r.chance(1, 2)) { g.pi(); g.ws(0); }
      text.adds("<root>"); long total = 1;
      while (total < N) { if (r.chance(1, 3)) g.ws(0); XNode* c = g.element(1); total += countNodes(c); root->kids.push(c); }
      text.adds("</root>"); g.ws(0);
      if (xAvlb && modelHasAttrLinebreak(root)) roundtrip = false;   // excluded trigger: line break inside an attribute value that toString has to write
      break; }
    }
    long elements = 0, empties = 0, sib = 0; wCount(root, elements, empties, sib);
    hist.addf("# wide document pattern=%d (%s) target=%ld elements=%ld without-content=%ld max-siblings=%ld empties-style=%d breaks=%d\n", pattern, pname[pattern], N, elements, empties, sib, st.empties, st.breaks);
    setItem("wide_patterns", pname[pattern]);
    // live-heap cap proportional to the document: the parsed tree takes about 4.5 KiB per element (measured), allow 16 KiB per element on top of the 64 MiB base
    g_memCap = baseCap + (size_t)elements * 16384;
    Xml::Element out; bool have = false;
    if (pattern == 6) {
      // one Parser object: a document nested 1000 deep, (sometimes) a truncated one that fails half-way down, then the flat document with N empty elements, then the deep one again
      wEmit(root, text, r, st, 0);
      Xml::Parser parser; int d = 1000;
      Bytes deep; XNode* droot = 0; XNode* cur = 0;
      for (int i = 0; i < d; ++i) { deep.adds("<a>"); XNode* e = wElem("a"); if (cur) cur->kids.push(e); else droot = e; cur = e; }
      Bytes trunc = deep; { int closes = (int)r.below((u64)d); for (int i = 0; i < closes; ++i) trunc.adds("</a>"); }
      for (int i = 0; i < d; ++i) deep.adds("</a>");
      hist.addf("# same Parser object: <a> nested %d deep; truncated variant; the flat document; the deep document again\n", d);
      { Xml::Element o; wParseCompare(deep, droot, 1, o, "parse-deep", &parser, d, 1); }
      if (r.chance(1, 2)) { Xml::Element o; PResult pt = parseGuarded(trunc.p(), trunc.size(), 1, o, "parse-truncated", &parser); if (pt.ok) cnt("truncated_accepted"); }
      have = wParseCompare(text, root, 1, out, "parse-wide", &parser, elements, empties);
      { Xml::Element o; wParseCompare(deep, droot, 1, o, "parse-deep-again", &parser, d, 1); }
      setctx("Xml.Element.destructor/deep"); delete droot;
      cnt("reused_parser_sequences");
    } else if (fromText) {
      if (pattern != 7) { if (r.chance(1, 3)) text.adds("<?xml version=\"1.0\" encoding=\"UTF-8\"?>\n"); wEmit(root, text, r, st, 0); if (r.chance(1, 2)) text.adds("\n"); }
      have = wParseCompare(text, root, api, out, "parse-wide", 0, elements, empties);
    } else {
      setctx("Xml.Element.build"); hist.add("build the tree through the Element/Variant interface\n");
      buildElement(root, out, r); have = true; cnt("wide_trees_built");
    }
    if (have && roundtrip) {
      Cmp cmp2("Xml.roundtrip", false); roundTrip(out, root, api, cmp2, header, K_WIDE_RT_REJ);
      cnt("wide_roundtrips"); cnt("rt_nodes_compared", cmp2.nodes); cnt("wide_nodes_compared", cmp2.nodes);
      if (!fromText) { setctx("Xml.roundtrip/source-unchanged"); Cmp c2("Xml.toString/source-modified", false, true); Text path; c2.go(out, root, path); }
    }
    if (fromText) for (int k = 0; k < 3; ++k) { size_t cut = r.below(text.size() + 1); Xml::Element o3; parseGuarded(text.p(), cut, (int)r.below(3), o3, "prefix"); cnt("prefix_parses"); }
    cnt("wide_cases"); cnt("wide_elements", elements); cnt("wide_elements_without_content", empties);
    statMax("max_elements_in_one_document", elements); statMax("max_elements_without_content_in_one_document", empties); statMax("max_siblings_in_one_element", sib); statMax("max_document_bytes", (long)text.size());
    if (idx % 8 == (idx / 8) % 8) sample("%.900s", hist.c());
    u64 fp = mix(hashModel(root), (u64)pattern);
    setctx("Xml.Element.destructor/wide");
    delete root;
    endCase(fp, elements >= 4000);
  }
  g_elideInput = false; g_memCap = baseCap;
}

// ================================================================================================ random element trees -> toString -> parse
static void genRtBytes(Rng& r, Bytes& s, bool attr, u64& classes) {
  int n = r.chance(1, 12) ? (int)r.range(30, 200) : (int)r.below(12);
  for (int i = 0; i < n; ++i) {
    int c = (int)r.below(14); char ch = 'a';
    switch (c) {
    case 0: ch = '"'; break; case 1: ch = '\''; break; case 2: ch = '&'; break; case 3: ch = r.chance(1, 2) ? '<' : '>'; break;
    case 4: ch = (char)r.range(1, 31); break;
    case 5: ch = r.chance(1, 2) ? '\n' : '\r'; break;
    case 6: ch = (char)r.range(0x7f, 0xff); break;
    case 7: { Bytes u; utf8(genCodePoint(r) | 0x80, u); s.add(u); continue; }
    case 8: { static const char* lit[] = { "&amp;", "&#10;", "&lt", "&#", ";", "<!--", "-->", "]]>", "<?", "/>", "&#x41;", "&quot;" }; s.adds(lit[r.below(12)]); continue; }
    case 9: ch = ' '; break;
    case 10: { static const char p[] = "/=!-?#;"; ch = p[r.below(sizeof p - 1)]; break; }
    default: ch = (char)r.range(0x21, 0x7e); break;
    }
    if (attr && xAvlb && (ch == '\n' || ch == '\r')) ch = ' ';
    s.add(ch);
  }
  (void)attr;
  for (size_t i = 0; i < s.size(); ++i) { unsigned char c = (unsigned char)s[i]; int b = c == '\n' ? 0 : c == '\r' ? 1 : c < 32 ? 2 : c == '"' ? 3 : c == '\'' ? 4 : c == '&' ? 5 : c == '<' ? 6 : c == '>' ? 7 : c == 127 ? 8 : c >= 128 ? 9 : 10; classes |= 1u << b; }
  static bool seen[256]; for (size_t i = 0; i < s.size(); ++i) { unsigned char c = (unsigned char)s[i]; if (!seen[c]) { seen[c] = true; char it[8]; snprintf(it, sizeof it, "%02x", c); setItem("rt_byte_values", it); } }
}
static XNode* genTree(Rng& r, int depth, int maxDepth, u64& classes, long& textsWithLeadingWs) {
  XNode* m = new XNode(false); genName(r, m->name);
  int na = r.chance(1, 3) ? 0 : (int)r.range(1, 5);
  for (int i = 0; i < na; ++i) { Bytes an; for (int attempt = 0;; ++attempt) { an.clear(); genName(r, an); bool dup = false; for (size_t j = 0; j < m->an.n; ++j) if (m->an[j].eq(an)) dup = true; if (!dup) break; if (attempt > 10) { char b[16]; snprintf(b, sizeof b, "_%d", i); an.adds(b); break; } } Bytes av; genRtBytes(r, av, true, classes); m->an.push(an); m->av.push(av); }
  int nk = r.chance(1, 4) ? 0 : (int)r.range(1, depth >= maxDepth ? 1 : 5);
  bool lastText = false;
  for (int i = 0; i < nk; ++i) {
    bool text = !lastText && (depth >= maxDepth || r.chance(1, 3));
    if (text) {
      XNode* t = new XNode(true); genRtBytes(r, t->text, false, classes);
      if (isBlank(t->text)) t->text.adds("t");
      bool lead = false;
      if (r.chance(1, 3)) { Bytes b; static const char* w[] = { " ", "  ", "\n", "\t ", "\r\n", " \n " }; b.adds(w[r.below(6)]); b.add(t->text); t->text = b; lead = true; }
      if (r.chance(1, 3)) { static const char* w[] = { " ", "  ", "\n", "\t", "\r\n" }; t->text.adds(w[r.below(5)]); }
      if (!lead && isBlankByte(t->text[0])) lead = true;
      if (lead && xLws) { // excluded trigger: text whose first non-blank byte makes the tokenizer fail ('/' not followed by '>')
        size_t i0 = 0; while (i0 < t->text.size() && isBlankByte(t->text[i0])) ++i0; if (i0 < t->text.size() && t->text[i0] == '/') t->text.v[i0] = '.'; }
      if (lead) ++textsWithLeadingWs;
      m->kids.push(t); lastText = true;
    } else { m->kids.push(genTree(r, depth + 1, maxDepth, classes, textsWithLeadingWs)); lastText = false; }
  }
  return m;
}
static void describe(const XNode* m, Text& t) {
  if (t.n > 3000) return;
  if (m->isText) { t.add("\""); t.addEsc(m->text.p(), m->text.size()); t.add("\""); return; }
  t.add("<"); t.add(m->name.p(), m->name.size());
  for (size_t j = 0; j < m->an.n; ++j) { t.add(" "); t.add(m->an[j].p(), m->an[j].size()); t.add("=\""); t.addEsc(m->av[j].p(), m->av[j].size()); t.add("\""); }
  t.add(">"); for (size_t j = 0; j < m->kids.n; ++j) describe(m->kids[j], t); t.add("</>");
}
static void roundtripMode() {
  for (long idx = opts.start; idx < opts.start + opts.cases; ++idx) {
    if (!mine(idx)) continue;
    beginCase(idx);
    Rng r(opts.seed, 1604, (u64)idx);
    u64 classes = 0; long lead = 0;
    XNode* m = genTree(r, 0, (int)r.range(0, 5), classes, lead);
    hist.add("# tree: "); describe(m, hist); hist.add("\n");
    setctx("Xml.Element.build");
    Xml::Element e; buildElement(m, e, r);
    Cmp cmp("Xml.roundtrip", false);
    roundTrip(e, m, (int)r.below(3), cmp, r.chance(2, 3));
    // the tree that was serialised is itself unchanged
    setctx("Xml.roundtrip/source-unchanged");
    { Cmp c2("Xml.toString/source-modified", false, true); Text path; c2.go(e, m, path); }
    cnt("rt_nodes_compared", cmp.nodes); cnt("rt_bytes_compared", cmp.bytes); cnt("rt_texts_with_leading_whitespace", lead);
    static const char* cn[] = { "lf", "cr", "control", "quote", "apostrophe", "ampersand", "lt", "gt", "del", "high", "ascii" };
    for (int b = 0; b < 11; ++b) if (classes & (1u << b)) setItem("rt_char_classes", cn[b]);
    long nn = countNodes(m); statMax("max_tree_nodes", nn);
    if (idx % 307 == 0) sample("%.600s", hist.c());
    u64 fp = hashModel(m);
    delete m;
    endCase(fp, nn >= 3 && (classes & 0x3ff) != 0);
  }
}

// ================================================================================================ Xml::Variant handle histories: copies are independent of their source
struct Handle { Xml::Variant* v; int kind; Bytes text; XNode* elem; u64 pid; bool hidden, kidsShared; };   // kind 0 null, 1 text, 2 element
// pid / hidden: the harness's own record of which handles got their payload from one another (copy-construct / copy-assign share it, every other way of giving a value
// makes a new one); hidden = the payload is (also) held by a value nested inside another handle's element (assignment of an own child while the parent was shared).
// kidsShared = the element was cloned from / is the source of a clone of a shared payload, so the values nested in it are held by both payloads.
// It is what the VERIF_NO_PRIVATE flavour derives the toElement state class (shared / unshared) from; with access to private state it is only compared with the reference count.
static u64 g_pid = 0;
static bool sharedByRecord(const Vec<Handle>& hs, size_t a) { if (hs[a].hidden) return true; for (size_t i = 0; i < hs.n; ++i) if (i != a && hs[i].pid == hs[a].pid) return true; return false; }
static bool isSharedElement(const Vec<Handle>& hs, size_t a) {
  bool rec = sharedByRecord(hs, a);
#ifndef VERIF_NO_PRIVATE
  bool real = hs[a].v->data->ref > 1;
  cnt(real == rec ? "share_record_agrees_with_refcount" : "share_record_differs_from_refcount");
  return real;
#else
  return rec;
#endif
}
static void checkHandle(const Handle& h, size_t i, const char* after) {
  const Xml::Variant& v = *h.v;
  char key[200];
  int t = v.isNull() ? 0 : v.isText() ? 1 : v.isElement() ? 2 : 3;
  if (t != h.kind) { snprintf(key, sizeof key, "%s/other-handle/type", after); fail(key, "handle %lu has type %d, model %d", (unsigned long)i, t, h.kind); }
  if ((int)v.getType() != (h.kind == 0 ? Xml::Variant::nullType : h.kind == 1 ? Xml::Variant::textType : Xml::Variant::elementType)) { snprintf(key, sizeof key, "%s/other-handle/type", after); fail(key, "getType of handle %lu disagrees with the model", (unsigned long)i); }
  if (h.kind == 1) { String s = v.toString(); if (!h.text.eq((const char*)s, s.length())) { snprintf(key, sizeof key, "%s/independence", after); Text m; m.addEsc((const char*)s, s.length() > 60 ? 60 : s.length()); fail(key, "text of handle %lu is \"%s\", which is not what its model holds: a copy was changed through another handle", (unsigned long)i, m.c()); } }
  else if (v.toString().length() != 0) { snprintf(key, sizeof key, "%s/toString-of-non-text", after); fail(key, "toString() of a non-text value is not empty"); }
  if (h.kind == 2) { char pre[160]; snprintf(pre, sizeof pre, "%s/independence", after); Cmp c(pre, false, true); Text path; c.go(((const Xml::Variant&)v).toElement(), h.elem, path); cnt("variant_nodes_compared", c.nodes); }
  else { const Xml::Element& e = ((const Xml::Variant&)v).toElement(); if (e.type.length() || e.attributes.size() || e.content.size()) { snprintf(key, sizeof key, "%s/toElement-of-non-element", after); fail(key, "const toElement() of a non-element value is not the empty element"); } }
}
static void setModel(Handle& h, int kind, const Bytes* text, const XNode* elem) { delete h.elem; h.elem = 0; h.text.clear(); h.kind = kind; if (kind == 1) h.text = *text; if (kind == 2) h.elem = elem->clone(); }
static void variantMode() {
  for (long idx = opts.start; idx < opts.start + opts.cases; ++idx) {
    if (!mine(idx)) continue;
    beginCase(idx);
    Rng r(opts.seed, 1605, (u64)idx);
    Vec<Handle> hs; int nops = (int)r.range(10, 120); u64 fp = 1605; long shared = 0; bool mutatedShared = false;
    int w[10]; int tot = 0; for (int i = 0; i < 10; ++i) { w[i] = r.chance(1, 4) ? 0 : (int)r.range(1, 8); } w[0] += 2; w[1] += 2; for (int i = 0; i < 10; ++i) tot += w[i];
    char after[120] = "Xml.Variant";
    for (int o = 0; o < nops; ++o) {
      int pick = (int)r.below((u64)tot), kind = 0; while (pick >= w[kind]) pick -= w[kind++];
      size_t a = hs.n ? r.below(hs.n) : 0, b = hs.n ? r.below(hs.n) : 0;
      fp = mix(fp, (u64)kind);
      if (hs.n == 0 && kind != 0) kind = 0;
      if (hs.n >= 12 && (kind == 0 || kind == 1)) kind = 9;
      switch (kind) {
      case 0: { // new value: null / text / element
        Handle h; h.elem = 0; h.pid = ++g_pid; h.hidden = h.kidsShared = false; h.kind = (int)r.below(3); u64 cl = 0; long lw = 0;
        if (h.kind == 0) { setctx("Xml.Variant()"); hist.addf("h%lu = Variant()\n", (unsigned long)hs.n); h.v = new Xml::Variant(); }
        else if (h.kind == 1) { genRtBytes(r, h.text, false, cl); setctx("Xml.Variant(String)"); hist.addf("h%lu = Variant(text %lu bytes)\n", (unsigned long)hs.n, (unsigned long)h.text.size()); h.v = new Xml::Variant(S(h.text)); }
        else { h.elem = genTree(r, 0, 2, cl, lw); setctx("Xml.Variant(Element)"); hist.addf("h%lu = Variant(element %ld nodes)\n", (unsigned long)hs.n, countNodes(h.elem)); Xml::Element e; buildElement(h.elem, e, r); h.v = new Xml::Variant(e); }
        hs.push(h); snprintf(after, sizeof after, "Xml.Variant.construct"); cnt("op_new"); break; }
      case 1: { // copy-construct
        setctx("Xml.Variant(Variant)"); hist.addf("h%lu = Variant(h%lu)\n", (unsigned long)hs.n, (unsigned long)a);
        Handle h; h.elem = 0; h.kind = 0; h.pid = hs[a].pid; h.hidden = hs[a].hidden; h.kidsShared = hs[a].kidsShared; h.v = new Xml::Variant(*hs[a].v); setModel(h, hs[a].kind, &hs[a].text, hs[a].elem); hs.push(h); ++shared;
        snprintf(after, sizeof after, "Xml.Variant.copy-construct"); cnt("op_copy_construct"); break; }
      case 2: { // copy-assign (incl. self)
        if (xAssign) break;
        setctxf("Xml.Variant.operator=(Variant)%s", a == b ? "/self" : ""); hist.addf("h%lu = h%lu\n", (unsigned long)a, (unsigned long)b);
        *hs[a].v = *hs[b].v; hs[a].pid = hs[b].pid; hs[a].hidden = hs[b].hidden; hs[a].kidsShared = hs[b].kidsShared; if (a != b) { Bytes tx = hs[b].text; XNode* el = hs[b].elem ? hs[b].elem->clone() : 0; setModel(hs[a], hs[b].kind, &tx, el); delete el; } ++shared;
        snprintf(after, sizeof after, "Xml.Variant.operator=(Variant)"); cnt("op_copy_assign"); if (a == b) cnt("op_self_assign"); break; }
      case 3: { // assign text
        Bytes tx; u64 cl = 0; genRtBytes(r, tx, false, cl);
        setctx("Xml.Variant.operator=(String)"); hist.addf("h%lu = text(%lu bytes)\n", (unsigned long)a, (unsigned long)tx.size());
        *hs[a].v = S(tx); hs[a].pid = ++g_pid; hs[a].hidden = hs[a].kidsShared = false; setModel(hs[a], 1, &tx, 0); mutatedShared = mutatedShared || shared > 0;
        snprintf(after, sizeof after, "Xml.Variant.operator=(String)"); cnt("op_assign_text"); break; }
      case 4: case 5: { // mutate through toElement()
        bool wasElem = hs[a].kind == 2; bool sharedNow = wasElem && isSharedElement(hs, a);
        if (sharedNow && xToElem) break;
        setctxf("Xml.Variant.toElement/%s", !wasElem ? "non-element" : sharedNow ? "shared" : "unshared"); hist.addf("h%lu.toElement() mutate (%s)\n", (unsigned long)a, !wasElem ? "non-element" : sharedNow ? "shared" : "unshared");
        Xml::Element& e = hs[a].v->toElement();
        if (sharedNow) for (size_t q = 0; q < hs.n; ++q) if (hs[q].pid == hs[a].pid) hs[q].kidsShared = true;   // the clone's nested values are copies that share with the source's
        if (!wasElem || sharedNow) { hs[a].pid = ++g_pid; hs[a].hidden = false; if (!wasElem) hs[a].kidsShared = false; }   // a new payload of its own
        if (!wasElem) { XNode* fresh = new XNode(false); setModel(hs[a], 2, 0, fresh); delete fresh; if (e.type.length() || e.attributes.size() || e.content.size()) fail("Xml.Variant.toElement/non-element/fresh-element-not-empty", "toElement() of a non-element value did not yield an empty element"); }
        XNode* m = hs[a].elem;
        int what = (int)r.below(4);
        if (what == 0) { Bytes nm; genName(r, nm); e.type = S(nm); m->name = nm; }
        else if (what == 1) { Bytes an, av; u64 cl = 0; genName(r, an); genRtBytes(r, av, true, cl); bool dup = false; for (size_t j = 0; j < m->an.n; ++j) if (m->an[j].eq(an)) { m->av[j] = av; dup = true; } if (!dup) { m->an.push(an); m->av.push(av); } e.attributes.append(S(an), S(av)); }
        else if (what == 2) { Bytes tx; tx.adds("appended"); e.content.append(Xml::Variant(S(tx))); XNode* t = new XNode(true); t->text = tx; m->kids.push(t); }
        else { XNode* c = new XNode(false); genName(r, c->name); Xml::Element ce; ce.line = ce.column = 0; ce.type = S(c->name); e.content.append(Xml::Variant(ce)); m->kids.push(c); }
        if (sharedNow) { mutatedShared = true; cnt("op_mutate_shared_element"); setItem("toElement_states", "shared"); } else setItem("toElement_states", wasElem ? "unshared" : "non-element");
        snprintf(after, sizeof after, "Xml.Variant.toElement/%s", !wasElem ? "non-element" : sharedNow ? "shared" : "unshared"); cnt("op_mutate_element"); break; }
      case 6: { // assign from a value nested inside the target's own element (aliasing)
        if (xAssign || hs[a].kind != 2 || hs[a].elem->kids.n == 0) break;
        setctx("Xml.Variant.operator=(Variant)/own-child"); hist.addf("h%lu = h%lu.content[0]\n", (unsigned long)a, (unsigned long)a);
        const Xml::Variant& child = *((const Xml::Variant&)*hs[a].v).toElement().content.begin();
        XNode* k = hs[a].elem->kids[0]->clone();
        { bool parentShared = sharedByRecord(hs, a) || hs[a].kidsShared; *hs[a].v = child; hs[a].pid = ++g_pid; hs[a].hidden = parentShared; hs[a].kidsShared = false; }   // the child's payload; the old parent keeps holding it when another handle keeps the parent alive
        if (k->isText) setModel(hs[a], 1, &k->text, 0); else setModel(hs[a], 2, 0, k); delete k;
        snprintf(after, sizeof after, "Xml.Variant.operator=(Variant)/own-child"); cnt("op_assign_own_child"); break; }
      case 7: { // copy a whole element holding values (List<Variant> copy) and mutate the copy
        if (hs[a].kind != 2) break;
        setctx("Xml.Element.copy"); hist.addf("Element copy of h%lu, mutate the copy\n", (unsigned long)a);
        { Xml::Element cp(((const Xml::Variant&)*hs[a].v).toElement());
          for (List<Xml::Variant>::Iterator it = cp.content.begin(), end = cp.content.end(); it != end; ++it) { Xml::Variant& cv = *it; if (cv.isElement()) { if (!xToElem) cv.toElement().type = String("changed"); } else cv = String("changed"); }
          cp.content.append(Xml::Variant(String("more"))); }
        snprintf(after, sizeof after, "Xml.Element.copy"); cnt("op_element_copy"); mutatedShared = true; break; }
      case 8: { // read-only access
        setctx("Xml.Variant.read"); (void)hs[a].v->isNull(); cnt("op_read"); break; }
      default: { // destroy
        setctx("Xml.Variant.destructor"); hist.addf("destroy h%lu\n", (unsigned long)a);
        delete hs[a].v; delete hs[a].elem; hs[a].elem = 0; hs.removeAt(a); hist.addf("(handles renumbered: %lu left)\n", (unsigned long)hs.n);
        snprintf(after, sizeof after, "Xml.Variant.destructor"); cnt("op_destroy"); break; }
      }
      const char* saved = (const char*)ctx; (void)saved;
      setctxf("%s/check-all-handles", after);
      for (size_t i = 0; i < hs.n; ++i) checkHandle(hs[i], i, after);
      cnt("variant_ops"); cnt("ops"); cnt("variant_handle_checks", (long)hs.n);
    }
    setctx("Xml.Variant.destructor");
    while (hs.n) { delete hs[hs.n - 1].v; delete hs[hs.n - 1].elem; hs.pop(); }
    if (idx % 4096 == 4095) leakCheck("Xml.Variant/leak");
    if (idx % 307 == 0) sample("%.600s", hist.c());
    endCase(fp, shared > 0 && mutatedShared);
  }
}

// ================================================================================================ prolog constructs and multi-line tokens in front of / around the failing position
// The parser claims the XML declaration / processing instructions before the root and comments; it does not claim document type declarations and CDATA sections.
// Whatever it does with them (reject at some byte, step over them), it must stay inside the text and every position it reports must lie inside the text:
// no verdict on accepted / rejected here. Line breaks (LF, CR, CRLF) are placed inside every kind of token the generator knows.
static const char* tokP[] = { "<!DOCTYPE a", "\n", "\r", ">", "<a>", "</a>", "<a", " [", "]", "<?p", "?>", "<!--", "-->", "<![CDATA[", "]]>", "\"" };
struct ProGen {
  enum { kBetween, kXmlDecl, kPi, kComment, kDoctype, kDoctypeLiteral, kDoctypeSubset, kCdata, kStartTag, kEndTag, kAttrValue, kText, kCharRef, NKIND };
  Rng& r; Bytes& out; long lbDoctype, lbOther; bool doctype, subset, cdata, xmlDecl, pis, comments, unterminated, messy;
  ProGen(Rng& rr, Bytes& o) : r(rr), out(o), lbDoctype(0), lbOther(0), doctype(false), subset(false), cdata(false), xmlDecl(false), pis(false), comments(false), unterminated(false), messy(false) {}
  void lb(int kind) {
    static const char* kn[NKIND] = { "between-constructs", "xml-declaration", "processing-instruction", "comment", "doctype", "doctype-literal", "doctype-internal-subset", "cdata", "start-tag", "end-tag", "attribute-value", "text", "character-reference" };
    static const char* s[] = { "\n", "\r", "\r\n" }; static const char* nm[] = { "LF", "CR", "CRLF" }; static bool seen[NKIND][3];
    int k = (int)r.below(3); out.adds(s[k]);
    if (kind == kDoctype || kind == kDoctypeLiteral || kind == kDoctypeSubset) ++lbDoctype; else ++lbOther;
    if (!seen[kind][k]) { seen[kind][k] = true; char it[64]; snprintf(it, sizeof it, "%s:%s", kn[kind], nm[k]); setItem("linebreaks_inside_tokens", it); }
  }
  void sp(int kind, int minimum) { int k = minimum + (r.chance(1, 3) ? (int)r.range(1, 2) : 0); for (int i = 0; i < k; ++i) { if (r.chance(1, 3)) lb(kind); else out.add(r.chance(1, 6) ? '\t' : ' '); } }
  // up to maxLen characters of `alphabet` with line breaks in between; never completes the terminator `stop` (2 or 3 bytes)
  void filler(int kind, const char* alphabet, int maxLen, const char* stop) {
    size_t na = strlen(alphabet), ns = stop ? strlen(stop) : 0; int k = (int)r.below((u64)maxLen + 1);
    for (int i = 0; i < k; ++i) {
      if (r.chance(1, 6)) { lb(kind); continue; }
      char c = alphabet[r.below(na)];
      if (ns && c == stop[ns - 1] && out.size() >= ns - 1 && !memcmp(out.p() + out.size() - (ns - 1), stop, ns - 1)) c = 'x';
      out.add(c);
    }
  }
  void name() { static const char* nm[] = { "a", "b", "html", "root", "x-y", "n:s" }; if (r.chance(1, 4)) { Bytes b; genName(r, b); out.add(b); } else out.adds(nm[r.below(6)]); }
  void xmlDeclaration() { xmlDecl = true; out.adds("<?xml"); sp(kXmlDecl, 1); out.adds("version=\"1.0\""); if (r.chance(1, 2)) { sp(kXmlDecl, 1); out.adds("encoding='UTF-8'"); } if (r.chance(1, 4)) { sp(kXmlDecl, 1); out.adds("standalone=\"yes\""); } sp(kXmlDecl, 0); out.adds("?>"); }
  void pi() { pis = true; out.adds("<?"); name(); if (r.chance(2, 3)) { sp(kPi, 1); filler(kPi, "ab =\"'<>!-?x[]", 14, "?>"); } if (out[out.size() - 1] == '?') out.add(' '); out.adds("?>"); }
  void comment() { comments = true; out.adds("<!--"); filler(kComment, "ab z-<>&\"'!?/=x-[]", 16, "-->"); out.adds("-->"); }
  void cdataSection() { cdata = true; out.adds("<![CDATA["); filler(kCdata, "ab<>&]\"' x/=", 14, "]]>"); out.adds("]]>"); }
  void literal() { char q = r.chance(1, 2) ? '"' : '\''; out.add(q); filler(kDoctypeLiteral, q == '"' ? "abc/.:-//EN >[<]&' " : "abc/.:-//EN >[<]&\" ", 24, 0); out.add(q); }
  void doctypeDecl() {
    doctype = true;
    out.adds(r.chance(1, 10) ? "<!doctype" : "<!DOCTYPE"); sp(kDoctype, 1); name();
    switch (r.below(4)) { case 1: sp(kDoctype, 1); out.adds("SYSTEM"); sp(kDoctype, 1); literal(); break; case 2: sp(kDoctype, 1); out.adds("PUBLIC"); sp(kDoctype, 1); literal(); sp(kDoctype, 1); literal(); break; default: break; }
    if (r.chance(1, 2)) {
      subset = true; sp(kDoctype, 0); out.add('[');
      for (int n = (int)r.below(5); n > 0; --n) {
        sp(kDoctypeSubset, 0);
        switch (r.below(7)) {
        case 0: out.adds("<!ELEMENT"); sp(kDoctypeSubset, 1); name(); sp(kDoctypeSubset, 1); out.adds(r.chance(1, 2) ? "(#PCDATA)" : "EMPTY"); sp(kDoctypeSubset, 0); out.add('>'); break;
        case 1: out.adds("<!ATTLIST"); sp(kDoctypeSubset, 1); name(); sp(kDoctypeSubset, 1); name(); sp(kDoctypeSubset, 1); out.adds("CDATA"); sp(kDoctypeSubset, 1); out.adds("#IMPLIED"); sp(kDoctypeSubset, 0); out.add('>'); break;
        case 2: out.adds("<!ENTITY"); sp(kDoctypeSubset, 1); name(); sp(kDoctypeSubset, 1); literal(); sp(kDoctypeSubset, 0); out.add('>'); break;
        case 3: comment(); break;
        case 4: pi(); break;
        case 5: out.adds("%pe;"); break;
        default: break;
        }
      }
      sp(kDoctypeSubset, 0); out.add(']');
    }
    sp(kDoctype, 0);
    if (r.chance(1, 16)) unterminated = true; else out.add('>');
  }
  void misc() { if (r.chance(1, 2)) comment(); else pi(); }
  void text() {
    int k = (int)r.range(1, 8);
    for (int i = 0; i < k; ++i) {
      switch (r.below(messy ? 12 : 10)) {
      case 0: lb(kText); break;
      case 1: out.adds(r.chance(1, 2) ? "&lt;" : "&#65;"); break;
      case 2: out.add(' '); break;
      case 10: out.adds("&#1"); lb(kCharRef); out.adds("0;"); break;        // a reference torn apart by a line break
      case 11: out.adds(r.chance(1, 2) ? "&" : "]]>"); break;
      default: out.add((char)r.range('a', 'z')); break;
      }
    }
  }
  void element(int depth) {
    Bytes nm; { size_t b = out.size(); out.add('<'); name(); nm.add(out.p() + b + 1, out.size() - b - 1); }
    for (int na = (int)r.below(3); na > 0; --na) {
      sp(kStartTag, 1); name(); if (r.chance(1, 3)) sp(kStartTag, 0); out.add('='); if (r.chance(1, 3)) sp(kStartTag, 0);
      char q = r.chance(1, 2) ? '"' : '\''; out.add(q);
      for (int k = (int)r.below(7); k > 0; --k) { if (messy && r.chance(1, 6)) lb(kAttrValue); else if (r.chance(1, 6)) out.adds("&#10;"); else out.add((char)r.range('a', 'z')); }
      out.add(q);
    }
    if (r.chance(1, 3)) sp(kStartTag, 0);
    if (r.chance(1, 5)) { out.adds("/>"); return; }
    out.add('>');
    for (int nk = (int)r.below(depth >= 3 ? 2 : 5); nk > 0; --nk) {
      switch (r.below(messy ? 8 : 6)) {
      case 0: case 1: text(); break;
      case 2: comment(); break;
      case 3: sp(kBetween, 1); break;
      case 6: cdataSection(); break;
      case 7: pi(); break;
      default: element(depth + 1); break;
      }
    }
    out.adds("</"); if (messy && r.chance(1, 8)) out.adds("other"); else out.add(nm); if (r.chance(1, 3)) sp(kEndTag, 0); out.add('>');
  }
  // returns the offset at which the body (root element) starts
  size_t document() {
    messy = r.chance(1, 2);
    if (r.chance(1, 4)) sp(kBetween, 0);
    if (r.chance(1, 2)) { xmlDeclaration(); if (r.chance(1, 2)) sp(kBetween, 0); }
    while (r.chance(1, 3)) { misc(); if (r.chance(1, 2)) sp(kBetween, 0); }
    int where = (int)r.below(12);    // 0-7: declaration in the prolog; 8-9: none; 10: inside the root; 11: behind the root
    if (where < 8) { doctypeDecl(); if (r.chance(1, 2)) sp(kBetween, 0); while (r.chance(1, 3)) { misc(); if (r.chance(1, 2)) sp(kBetween, 0); } }
    size_t body = out.size();
    switch (r.below(10)) {
    case 0: break;                                                              // no root element at all
    case 1: { static const char* bad[] = { "<a>", "<a></b>", "<a b=\"x", "<", "</a>", "<a><b></a>", "<a b=c/>", "text" }; out.adds(bad[r.below(8)]); break; }
    default:
      if (where == 10) { out.adds("<r>"); doctypeDecl(); element(1); out.adds("</r>"); } else element(0);
      break;
    }
    if (where == 11) { sp(kBetween, 0); doctypeDecl(); }
    if (r.chance(1, 3)) sp(kBetween, 0);
    while (r.chance(1, 5)) { misc(); if (r.chance(1, 2)) sp(kBetween, 0); }
    return body;
  }
};

static void prologMode() {
  static const char* offending[] = { "<", ">", "\"", "'", "&", "</x>", "=", "/", "\n", "\r", "<!DOCTYPE b\n>", "]]>", "<a", "<?", "<!--", "\x01" };
  g_countPrologPositions = true;
  for (long idx = opts.start; idx < opts.start + opts.cases; ++idx) {
    if (!mine(idx)) continue;
    beginCase(idx);
    Rng r(opts.seed, 1607, (u64)idx);
    Bytes text; ProGen g(r, text);
    size_t body = g.document();
    size_t n = text.size();
    hist.addf("# document with prolog constructs, %lu bytes, body at offset %lu, doctype=%d subset=%d line-breaks-inside-doctype=%ld other-line-breaks-inside-tokens=%ld cdata=%d\n",
              (unsigned long)n, (unsigned long)body, (int)g.doctype, (int)g.subset, g.lbDoctype, g.lbOther, (int)g.cdata);
    long accepted = 0;
    for (int api = 0; api < 3; ++api) { Xml::Element out; PResult pr = parseGuarded(text.p(), n, api, out, "parse"); if (pr.ok) ++accepted; }
    if (n <= 240) everyPrefix(text.p(), n, (int)r.below(3));
    else for (int k = 0; k < 120; ++k) { size_t cut = r.below(n + 1); Xml::Element o; parseGuarded(text.p(), cut, (int)r.below(3), o, "prefix"); cnt("prefix_parses"); }
    // damage behind the prolog: the failing position then lies behind everything the parser stepped over
    for (int k = 0; k < 6; ++k) {
      Bytes t; size_t at = body + r.below(n - body + 1); const char* ins = offending[r.below(16)];
      t.add(text.p(), at); t.adds(ins); if (r.chance(1, 2) && at < n) ++at; t.add(text.p() + at, n - at);
      Xml::Element o; PResult pr = parseGuarded(t.p(), t.size(), (int)r.below(3), o, "parse-damaged"); if (pr.ok) cnt("prolog_damaged_accepted");
      cnt("prolog_damaged_parses");
    }
    cnt("prolog_cases");
    if (accepted) cnt("prolog_documents_accepted"); else cnt("prolog_documents_rejected");
    if (g.doctype) { cnt("doctype_documents"); if (g.lbDoctype) cnt("doctype_documents_with_line_break_inside"); if (g.subset) cnt("doctype_documents_with_internal_subset"); if (accepted) cnt("doctype_documents_accepted"); if (g.unterminated) cnt("doctype_unterminated"); }
    if (g.cdata) cnt("cdata_documents");
    if (g.lbOther) cnt("documents_with_line_break_inside_another_token");
    if (g.xmlDecl) setItem("prolog_constructs", "xml-declaration"); if (g.pis) setItem("prolog_constructs", "processing-instruction"); if (g.comments) setItem("prolog_constructs", "comment");
    if (g.doctype) setItem("prolog_constructs", "doctype"); if (g.subset) setItem("prolog_constructs", "doctype-internal-subset"); if (g.cdata) setItem("prolog_constructs", "cdata-section");
    if (idx % 211 == 0) sample("%.900s", hist.c());
    u64 fp = hashBytes(1607, text);
    endCase(fp, n >= 2);
  }
  g_countPrologPositions = false;
}

// ================================================================================================ aliasing between the text argument and the output element
// The text handed to parse is owned by the tree of the element that is also the output argument (an embedded document kept in an attribute value or a text child).
// Reference = the same library parsing an independent exactly-sized copy of the text into an element built from the same model: outcome, reported position and the
// whole resulting tree (prior attributes / content included, whatever the library does with them) must be the same, and the sanitizer must stay silent.
// Not generated: text = the output element's own `type` string, text = value of an attribute whose name also occurs in the document (both are locations parse has to write).
static XNode* toModel(const Xml::Element& e, bool& hasNull) {
  XNode* m = new XNode(false); m->name.add((const char*)e.type, e.type.length());
  for (HashMap<String, String>::Iterator it = e.attributes.begin(), end = e.attributes.end(); it != end; ++it) { Bytes k, v; k.add((const char*)it.key(), it.key().length()); v.add((const char*)*it, (*it).length()); m->an.push(k); m->av.push(v); }
  for (List<Xml::Variant>::Iterator it = e.content.begin(), end = e.content.end(); it != end; ++it) {
    const Xml::Variant& v = *it;
    if (v.isElement()) m->kids.push(toModel(v.toElement(), hasNull));
    else { XNode* t = new XNode(true); if (v.isText()) { String s = v.toString(); t->text.add((const char*)s, s.length()); } else hasNull = true; m->kids.push(t); }
  }
  return m;
}
static const char* HOLDER = "embedded:doc";
// the element reached from `root` by following `path` (indices into the content lists); in place (every value on the way holds its element alone)
static Xml::Element& descend(Xml::Element& root, const Vec<int>& path) {
  Xml::Element* e = &root;
  for (size_t d = 0; d < path.n; ++d) { List<Xml::Variant>::Iterator it = e->content.begin(); for (int i = 0; i < path[d]; ++i) ++it; Xml::Variant& v = *it; if (!v.isElement()) harnessBug("alias: path does not lead to an element"); e = &v.toElement(); }
  return *e;
}
static PResult rawParse(const char* p, const String* s, const Bytes& text, int api, Xml::Element& out, const char* prefix) {
  PResult r; r.ok = false; r.line = r.col = 0; r.havePos = false; r.skipped = false;
  char keyNT[200], keyMem[200]; snprintf(keyNT, sizeof keyNT, "%s/nonterminating", prefix); snprintf(keyMem, sizeof keyMem, "%s/memory-growth", prefix);
  String errStr;
  {
    Xml::Parser parser;
    guardOn(5, keyNT, keyMem, text.size());
    switch (api % 3) {
    case 0: r.ok = Xml::parse(s ? (const char*)*s : p, out); break;
    case 1: if (s) r.ok = parser.parse(*s, out); else { String a; a.attach(p, text.size()); r.ok = parser.parse(a, out); } break;
    default: if (s) r.ok = Xml::parse(*s, out); else { String a; a.attach(p, text.size()); r.ok = Xml::parse(a, out); } break;
    }
    guardOff();
    if (!r.ok) {
      if (api % 3 == 1) { r.line = parser.getErrorLine(); r.col = parser.getErrorColumn(); r.havePos = true; }
      else { errStr = Error::getErrorString(); int l = 0, c = 0; if (sscanf((const char*)errStr, "Syntax error at line %d, column %d", &l, &c) == 2) { r.line = l; r.col = c; r.havePos = true; } else cnt("error_string_unparsed"); }
    }
  }
  cnt("parses"); cnt("ops"); cnt("parse_bytes", (long)text.size());
  if (!r.ok && r.havePos) { char pk[120]; snprintf(pk, sizeof pk, "Xml.parse/%s", xmlClass(text.p(), text.size())); checkPos(text.p(), text.size(), r.line, r.col, pk); }   // same key as in every other mode: not an aliasing effect
  return r;
}
static void aliasMode() {
  static const char* cls[] = { "text=attribute-value-of-output", "text=attribute-value-of-descendant", "text=text-child-of-output", "text=text-child-of-descendant",
                               "text=string-sharing-attribute-value", "text=string-sharing-text-child", "output=child-of-owner" };
  static const char* tkn[] = { "valid-document", "valid-document", "valid-document", "mutated-document", "corpus-document", "prolog-document", "truncated-document", "short" };
  for (long idx = opts.start; idx < opts.start + opts.cases; ++idx) {
    if (!mine(idx)) continue;
    beginCase(idx);
    Rng r(opts.seed, 1608, (u64)idx);
    int c = (int)(idx % 7);
    // ---- the text
    Bytes text; int tk = (int)r.below(8);
    switch (tk) {
    case 0: case 1: case 2: case 3: case 6: {
      DocGen g(r, text, r.chance(1, 2), (int)r.range(0, 3)); delete g.document();
      if (tk == 3) { static const char* ins[] = { "<", ">", "\"", "&", "/", "=", "\n", "</x>", "<!--" }; size_t at = r.below(text.size() + 1); Bytes t; t.add(text.p(), at); t.adds(ins[r.below(9)]); t.add(text.p() + at, text.size() - at); text = t; }
      if (tk == 6) { size_t cut = r.below(text.size() + 1); Bytes t; t.add(text.p(), cut); text = t; }
      break; }
    case 4: text.adds(corpus[r.below(NCORPUS)]); break;
    case 5: { ProGen g(r, text); g.document(); break; }
    default: { static const char* sh[] = { "", "<", "<a/>", "x", " ", "<a>t</a>", "<?p?>", "<!---->" }; text.adds(sh[r.below(8)]); break; }
    }
    { size_t n = text.size(); for (size_t j = 0; j < n; ++j) if (text[j] == 0) { Bytes t; t.add(text.p(), j); text = t; break; } }
    if (contains(text.p(), text.size(), HOLDER)) { cnt("alias_skipped_holder_name_in_text"); endCase(mix(1608, (u64)idx), false); continue; }
    // ---- the model of the tree that owns the text and contains (or is) the output element
    u64 cl = 0; long lw = 0;
    XNode* prior = r.chance(1, 4) ? new XNode(false) : genTree(r, 0, 2, cl, lw);
    Vec<int> path;   // from the root to the owner of the text (classes 1, 3) or to the output element (class 6)
    XNode* owner = prior;
    if (c == 1 || c == 3 || c == 6) {
      int depth = (int)r.range(1, 2);
      for (int d = 0; d < depth; ++d) {
        Vec<int> el; for (size_t j = 0; j < owner->kids.n; ++j) if (!owner->kids[j]->isText) el.push((int)j);
        int pick; if (el.n && !r.chance(1, 4)) pick = el[r.below(el.n)]; else { XNode* ch = new XNode(false); genName(r, ch->name); owner->kids.push(ch); pick = (int)owner->kids.n - 1; }
        path.push(pick); owner = owner->kids[(size_t)pick];
      }
    }
    XNode* holderEl = c == 6 ? prior : owner;      // the element whose attribute / text child is the text
    bool asText = c == 2 || c == 3 || c == 5; int holderIdx = -1;
    if (asText) { XNode* t = new XNode(true); t->text = text; size_t at = r.below(holderEl->kids.n + 1); holderEl->kids.insert(at, t); holderIdx = (int)at; }   // (classes 2, 3, 5: the path, if any, ends at holderEl, so no index on it moves)
    else {
      Bytes k; k.adds(HOLDER); bool found = false; for (size_t j = 0; j < holderEl->an.n; ++j) if (holderEl->an[j].eq(k)) { holderEl->av[j] = text; found = true; }
      if (!found) { size_t at = r.below(holderEl->an.n + 1); holderEl->an.insert(at, k); holderEl->av.insert(at, text); }
    }
    int api = (int)r.below(3);
    hist.addf("# %s; api=%d; text (%s, %lu bytes) \"", cls[c], api, tkn[tk], (unsigned long)text.size()); hist.addEsc(text.p(), text.size()); hist.add("\"\n# tree before the call: "); describe(prior, hist); hist.add("\n");
    char prefix[120]; snprintf(prefix, sizeof prefix, "Xml.parse/aliasing:%s", cls[c]);
    // ---- reference: independent copy of the text, identically built tree
    Vec<int> outPath; if (c == 6) outPath = path;
    Vec<int> holderPath; if (c == 1 || c == 3) holderPath = path;
    Xml::Element expRoot; PResult pe;
    { setctx("Xml.Element.build"); buildElement(prior, expRoot, r);
      Exact e(text.p(), text.size());
      setctxf("%s/reference-parse-of-independent-copy", prefix); hist.add("parse an independent copy of the text into an identically built element\n");
      pe = rawParse(e.p, 0, text, api, descend(expRoot, outPath), prefix); }
    bool hasNull = false; XNode* expModel = toModel(expRoot, hasNull);
    // ---- the aliasing call
    Xml::Element actRoot; PResult pa;
    { setctx("Xml.Element.build"); buildElement(prior, actRoot, r);
      Xml::Element& outEl = descend(actRoot, outPath);
      const Xml::Element& hEl = descend(actRoot, holderPath);
      const char* p = 0; const String* s = 0; String share;
      if (asText) {
        List<Xml::Variant>::Iterator it = hEl.content.begin(); for (int i = 0; i < holderIdx; ++i) ++it;
        const Xml::Variant& hv = *it; if (!hv.isText()) harnessBug("alias: holder is not a text item");
        if (c == 5) { share = hv.toString(); s = &share; }
        else { String tmp = hv.toString(); p = (const char*)tmp; }      // the buffer stays owned by the text item alone once tmp is gone
      } else {
        HashMap<String, String>::Iterator it = hEl.attributes.find(String(HOLDER, strlen(HOLDER))); if (it == hEl.attributes.end()) harnessBug("alias: holder attribute missing");
        if (c == 4) { share = *it; s = &share; } else s = &*it;
      }
      { const char* q = s ? (const char*)*s : p; size_t qn = s ? s->length() : strlen(p); if (!text.eq(q, qn)) harnessBug("alias: holder does not hold the text"); }
      setctx(prefix); hist.addf("parse(text owned by the tree, output element)  [%s]\n", cls[c]);
      pa = rawParse(p, s, text, api, outEl, prefix);
    }
    setctxf("%s/compare", prefix);
    char key[200];
    if (pa.ok != pe.ok) { snprintf(key, sizeof key, "%s/outcome-differs-from-independent-copy", prefix); fail(key, "parse of a text owned by the output element's tree %s, parse of an independent copy of the same text into an identically built element %s", pa.ok ? "succeeded" : "failed", pe.ok ? "succeeded" : "failed"); }
    if (!pa.ok && pa.havePos && pe.havePos && (pa.line != pe.line || pa.col != pe.col)) { snprintf(key, sizeof key, "%s/error-position-differs-from-independent-copy", prefix); fail(key, "failure reported at line %d column %d, for an independent copy of the same text at line %d column %d", pa.line, pa.col, pe.line, pe.col); }
    if (!hasNull) { snprintf(key, sizeof key, "%s/result-differs-from-independent-copy", prefix); Cmp cmp(key, false, true); Text pth; cmp.go(actRoot, expModel, pth); cnt("alias_nodes_compared", cmp.nodes); cnt("alias_results_compared"); }
    else cnt("alias_reference_with_null_item");
    cnt("alias_cases"); if (pa.ok) cnt("alias_accepted"); else cnt("alias_rejected");
    if (prior->an.n + prior->kids.n > 1 || prior->name.size()) cnt("alias_output_tree_with_prior_state");
    setItem("alias_classes", cls[c]); setItem("alias_text_kinds", tkn[tk]);
    if (idx % 307 == 0) sample("%.700s", hist.c());
    u64 fp = mix(hashBytes(hashModel(prior), text), (u64)c);
    setctx("Xml.Element.destructor/alias");
    delete expModel; delete prior;
    endCase(fp, text.size() >= 2);
  }
}

// ================================================================================================ probes of the listed findings
static int probe(const char* key) {
  beginCase(0);
  Rng r(1, 1, 1);
  if (!strcmp(key, K_HANG)) { Xml::Element out; const char* t = "<a>x<!--c-->y</a>"; parseGuarded(t, strlen(t), 0, out, "probe"); return 0; }
  if (!strcmp(key, K_PILB)) { Xml::Element out; const char* t = "<?a\n?><"; parseGuarded(t, strlen(t), 1, out, "probe"); return 0; }
  if (!strcmp(key, K_AVLB)) { XNode m(false); m.name.adds("a"); Bytes k, v; k.adds("b"); v.adds("x\ny"); m.an.push(k); m.av.push(v); Xml::Element e; buildElement(&m, e, r); Cmp cmp("Xml.roundtrip", false); roundTrip(e, &m, 0, cmp, true); return 0; }
  if (!strcmp(key, K_LWS)) { XNode m(false); m.name.adds("a"); XNode* t = new XNode(true); t->text.adds("  /x"); m.kids.push(t); Xml::Element e; buildElement(&m, e, r); Cmp cmp("Xml.roundtrip", false); roundTrip(e, &m, 0, cmp, true); return 0; }
  if (!strcmp(key, K_ASSIGN)) {
    setctx("Xml.Variant.operator=(Variant)");
    Xml::Variant* a = new Xml::Variant(String("one")); Xml::Variant* b = new Xml::Variant(String("two"));
    *a = *b;
#ifndef VERIF_NO_PRIVATE   // diagnosis through the reference count; without it the double release shows as a heap-use-after-free in toString() below / a leak of "one"
    long ref = (long)b->data->ref;
#endif
    delete a;
#ifndef VERIF_NO_PRIVATE
    if (ref != 2) fail(K_ASSIGN, "after a = b the shared payload has reference count %ld instead of 2: it is released twice and the old payload of a leaks", ref);
#endif
    String s = b->toString(); delete b; return 0; }
  if (!strcmp(key, K_TOELEM)) {
    setctx("Xml.Variant.toElement/shared");
    Xml::Element e; e.line = e.column = 0; e.type = String("orig"); Xml::Variant a(e); Xml::Variant b(a);
    Xml::Element& m = a.toElement(); m.type = String("changed");
    if (!(((const Xml::Variant&)b).toElement().type == String("orig"))) fail(K_TOELEM, "changing a copy through toElement() changed the source (type is now '%s')", (const char*)((const Xml::Variant&)b).toElement().type);
    return 0; }
  harnessBug("unknown probe %s", key);
}

int main(int argc, char** argv) {
  init(argc, argv, "h_xml");
  if (opts.probe) { int rc = probe(opts.probe); leakCheck("Xml/leak"); finish(); return rc; }
  xHang = excluded(K_HANG); xPilb = excluded(K_PILB); xAvlb = excluded(K_AVLB); xLws = excluded(K_LWS); xAssign = excluded(K_ASSIGN); xToElem = excluded(K_TOELEM); xLwsGen = xLws;
  const char* m = opts.mode;
  if (!strcmp(m, "exh-c")) exhaustive(tokA, 16, 1610);
  else if (!strcmp(m, "exh-t")) exhaustive(tokB, 14, 1611);
  else if (!strcmp(m, "gen")) genMode();
  else if (!strcmp(m, "mut")) mutMode();
  else if (!strcmp(m, "deep")) deepMode();
  else if (!strcmp(m, "roundtrip")) roundtripMode();
  else if (!strcmp(m, "variant")) variantMode();
  else if (!strcmp(m, "wide")) wideMode();
  else if (!strcmp(m, "exh-p")) exhaustive(tokP, 16, 1612);
  else if (!strcmp(m, "prolog")) prologMode();
  else if (!strcmp(m, "alias")) aliasMode();
  else harnessBug("unknown mode %s", m);
  cnt("malloc_hook_calls", g_hookCalls);
  leakCheck("Xml/leak");
  finish();
  return 0;
}
