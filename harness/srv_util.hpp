// srv_util.hpp - helpers shared by the Server harnesses (h_server_write.cpp = C13, h_server_loop.cpp = C14).
// Byte streams: every connection direction carries slices of one deterministic stream (salt, offset) -> byte, so loss, duplication and reordering
// are pinpointed to an offset. Raw fd helpers for the peer side, which is owned by the harness and never goes through the scripted shims.
#pragma once
#include "vh.hpp"
#include "../interpose/net_shims.hpp"
#include <errno.h>
#include <poll.h>
#include <sys/socket.h>
#include <sys/epoll.h>
#include <netinet/in.h>
#include <arpa/inet.h>
#include <netinet/tcp.h>
#include <time.h>

namespace su {
using vh::u8; using vh::u32; using vh::u64;

inline u8 sbyte(u32 salt, u64 off) {
  u64 x = (off + 1) * 0x9E3779B97F4A7C15ULL + (u64)(salt + 1) * 0xD1B54A32D192ED03ULL;
  x ^= x >> 29; x *= 0xBF58476D1CE4E5B9ULL;
  return (u8)(x >> 43);
}
inline void fill(u32 salt, u64 off, u8* p, size_t n) { for (size_t i = 0; i < n; ++i) p[i] = sbyte(salt, off + i); }
// first index at which p[0..n) differs from stream[off..off+n), or -1
inline long firstDiff(u32 salt, u64 off, const u8* p, size_t n) { for (size_t i = 0; i < n; ++i) if (p[i] != sbyte(salt, off + i)) return (long)i; return -1; }
// diagnosis: which stream offset in [0, limit) do the (up to 8) bytes at p really belong to? -1 if none
inline long long locate(u32 salt, const u8* p, size_t n, u64 limit) {
  size_t k = n < 8 ? n : 8; if (k < 4) return -1;
  for (u64 o = 0; o + k <= limit; ++o) { size_t i = 0; while (i < k && p[i] == sbyte(salt, o + i)) ++i; if (i == k) return (long long)o; }
  return -1;
}

struct Slice { u64 start, len; };

// accepted-stream bookkeeping of one direction: the expected stream is the concatenation of the accepted slices of the offered stream
struct OutStream {
  u32 salt; u64 offered; vh::Vec<Slice> acc; u64 accepted; bool hasPend; Slice pend;
  OutStream() : salt(0), offered(0), accepted(0), hasPend(false) { pend.start = pend.len = 0; }
  u64 total(bool withPend) const { return accepted + (withPend && hasPend ? pend.len : 0); }
  // compare p[0..n) with expected[pos..pos+n). Returns -1 if equal, -2 if the range reaches beyond what was ever accepted/offered, else the index of the first difference;
  // *offOut = offered-stream offset expected at that index
  long compare(u64 pos, const u8* p, size_t n, bool withPend, u64* offOut) const {
    u64 cum = 0; size_t done = 0; size_t ns = acc.n + (withPend && hasPend ? 1 : 0);
    for (size_t i = 0; i < ns && done < n; ++i) {
      const Slice& s = i < acc.n ? acc.d[i] : pend;
      if (pos + done < cum + s.len) {
        u64 inoff = pos + done - cum; size_t k = (size_t)(s.len - inoff); if (k > n - done) k = n - done;
        long d = firstDiff(salt, s.start + inoff, p + done, k);
        if (d >= 0) { if (offOut) *offOut = s.start + inoff + (u64)d; return (long)done + d; }
        done += k;
      }
      cum += s.len;
    }
    if (done < n) { if (offOut) *offOut = 0; return -2; }
    return -1;
  }
};

inline void setNonBlock(int fd) { int fl = fcntl(fd, F_GETFL, 0); fcntl(fd, F_SETFL, fl | O_NONBLOCK); }
// independent readiness oracle: what does the kernel say about this fd right now (no epoll involved)
inline int pollNow(int fd, short ev) { struct pollfd p; p.fd = fd; p.events = ev; p.revents = 0; int r = ::poll(&p, 1, 0); return r > 0 ? p.revents : 0; }
inline void sleepUs(long us) { struct timespec ts; ts.tv_sec = us / 1000000; ts.tv_nsec = (us % 1000000) * 1000; nanosleep(&ts, 0); }
// wait in REAL time (bounded) until the kernel reports `ev` on fd; only used for in-flight loopback TCP traffic. false = never became ready
inline bool waitReady(int fd, short ev, int maxMs = 10000) {
  for (int i = 0; i < maxMs * 4; ++i) { if (pollNow(fd, ev)) return true; sleepUs(250); }
  return false;
}
// loopback TCP helpers (raw sockets owned by the harness: the far end of accepted / connected Server clients)
inline uint16_t localPort(int fd) { sockaddr_in a; socklen_t l = sizeof a; memset(&a, 0, sizeof a); getsockname(fd, (sockaddr*)&a, &l); return ntohs(a.sin_port); }
inline uint16_t peerPort(int fd) { sockaddr_in a; socklen_t l = sizeof a; memset(&a, 0, sizeof a); if (getpeername(fd, (sockaddr*)&a, &l) != 0) return 0; return ntohs(a.sin_port); }
inline void lingerReset(int fd, bool on) { struct linger lg; lg.l_onoff = on ? 1 : 0; lg.l_linger = 0; setsockopt(fd, SOL_SOCKET, SO_LINGER, &lg, sizeof lg); }   // close() sends RST: no TIME_WAIT pile-up
// harness-owned TCP end: no Nagle for what the peer sends, no delayed ACK for what it receives (TCP_QUICKACK is not sticky: re-arm after every recv) -
// otherwise every small segment costs a 40 ms real-time timer. Nothing here changes what the library's socket may or must do.
inline void tcpFast(int fd) { int v = 1; setsockopt(fd, IPPROTO_TCP, TCP_NODELAY, &v, sizeof v); setsockopt(fd, IPPROTO_TCP, TCP_QUICKACK, &v, sizeof v); }
inline void quickAck(int fd) { int v = 1; setsockopt(fd, IPPROTO_TCP, TCP_QUICKACK, &v, sizeof v); }
// listening socket on an ephemeral loopback port (retry: bind(0)+listen can collide with another process that is between bind and listen); -1 on failure
inline int rawListener(uint16_t* port) {
  sockaddr_in a; memset(&a, 0, sizeof a); a.sin_family = AF_INET; a.sin_addr.s_addr = htonl(INADDR_LOOPBACK);
  for (int attempt = 0; attempt < 200; ++attempt) {
    int fd = socket(AF_INET, SOCK_STREAM | SOCK_CLOEXEC, 0);
    if (fd >= 0 && bind(fd, (sockaddr*)&a, sizeof a) == 0 && listen(fd, 128) == 0) { setNonBlock(fd); *port = localPort(fd); return fd; }
    if (fd >= 0) close(fd);
    sleepUs(2000);
  }
  return -1;
}
// blocking connect to a loopback port; the returned fd is non-blocking and resets on close; -1 on failure
inline int rawConnect(uint16_t port, int rcvbuf = 0) {
  int fd = socket(AF_INET, SOCK_STREAM | SOCK_CLOEXEC, 0); if (fd < 0) return -1;
  if (rcvbuf > 0) setsockopt(fd, SOL_SOCKET, SO_RCVBUF, &rcvbuf, sizeof rcvbuf);
  sockaddr_in a; memset(&a, 0, sizeof a); a.sin_family = AF_INET; a.sin_addr.s_addr = htonl(INADDR_LOOPBACK); a.sin_port = htons(port);
  if (connect(fd, (sockaddr*)&a, sizeof a) != 0) { close(fd); return -1; }
  setNonBlock(fd); lingerReset(fd, true); tcpFast(fd);
  return fd;
}

}  // namespace su
