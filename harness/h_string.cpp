// h_string.cpp - C06: String value semantics against a byte-string reference model
// mode: hist  (swarm random histories over 2..6 String variables that may share one buffer)
// Every variable is compared with its model after every operation (length, bytes, terminator of the C-string view, isEmpty),
// every literal / attached source block and every const char* input block is compared with its original after every operation.
// State classes are observed non-invasively through -fno-access-control (the C-string view of an unterminated attached String
// detaches it, so the public view of such a variable is only sampled with a per-case probability).
// Two build flavours (HARNESS_GUIDE.md, last section): with -DVERIF_NO_PRIVATE nothing private is named; the state classes then come from the harness's own record of
// what it did with every String object (section "state classes"), bytes are compared through the C-string view or, when the view is not taken, through operator==/!=,
// and pointer results are turned into offsets relative to the attached memory / the view. In the normal flavour the record is kept too and compared with the private
// state (counters state_record_agrees_with_private_state / ..._differs_...).
#include "vh.hpp"
#include <nstd/String.hpp>
#include <nstd/List.hpp>
#include <nstd/HashSet.hpp>
#include <limits.h>

using namespace vh;

// ------------------------------------------------------------------------------------------------ model byte string
struct Bytes {
  u8* d; size_t n;
  Bytes() : d((u8*)calloc(1, 1)), n(0) {}
  Bytes(const void* p, size_t k) : d(0), n(0) { assign(p, k); }
  Bytes(const Bytes& o) : d(0), n(0) { assign(o.d, o.n); }
  Bytes& operator=(const Bytes& o) { assign(o.d, o.n); return *this; }
  ~Bytes() { free(d); }
  void assign(const void* p, size_t k) { u8* nd = (u8*)malloc(k + 1); if (k) memcpy(nd, p, k); nd[k] = 0; free(d); d = nd; n = k; }
  void append(const void* p, size_t k) { u8* nd = (u8*)malloc(n + k + 1); if (n) memcpy(nd, d, n); if (k) memcpy(nd + n, p, k); nd[n + k] = 0; free(d); d = nd; n += k; }
  void push(u8 c) { append(&c, 1); }
  bool eq(const Bytes& o) const { return n == o.n && !memcmp(d, o.d, n); }
  bool hasNul() const { return n && memchr(d, 0, n) != 0; }
};

static bool inSet(u8 c, const u8* set, size_t sn) { for (size_t i = 0; i < sn; ++i) if (set[i] == c) return true; return false; }
static long mFind(const Bytes& h, size_t start, const u8* nd, size_t nn) { for (size_t i = start; i + nn <= h.n; ++i) if (!nn || !memcmp(h.d + i, nd, nn)) return (long)i; return -1; }
static long mFindLast(const Bytes& h, const u8* nd, size_t nn) { long r = -1; for (size_t i = 0; i + nn <= h.n; ++i) if (!memcmp(h.d + i, nd, nn)) r = (long)i; return r; }
static long mFindOneOf(const Bytes& h, size_t start, const u8* set, size_t sn) { for (size_t i = start; i < h.n; ++i) if (inSet(h.d[i], set, sn)) return (long)i; return -1; }
static long mFindLastOf(const Bytes& h, const u8* set, size_t sn) { long r = -1; for (size_t i = 0; i < h.n; ++i) if (inSet(h.d[i], set, sn)) r = (long)i; return r; }
static long mFindChar(const Bytes& h, size_t start, u8 c) { for (size_t i = start; i < h.n; ++i) if (h.d[i] == c) return (long)i; return -1; }
static long mFindLastChar(const Bytes& h, u8 c) { for (size_t i = h.n; i-- > 0;) if (h.d[i] == c) return (long)i; return -1; }
static u8 mLower(u8 c) { return c >= 'A' && c <= 'Z' ? (u8)(c + 32) : c; }
static u8 mUpper(u8 c) { return c >= 'a' && c <= 'z' ? (u8)(c - 32) : c; }
static void mReplace(const Bytes& h, const Bytes& nd, const Bytes& rp, Bytes& out, size_t limit, bool& tooBig) {
  // non-overlapping, left to right; nd non-empty. Result built in a raw buffer.
  size_t cap = h.n + 16, n = 0; u8* b = (u8*)malloc(cap); tooBig = false;
  for (size_t i = 0; i < h.n;) {
    size_t add; const u8* src;
    if (i + nd.n <= h.n && !memcmp(h.d + i, nd.d, nd.n)) { add = rp.n; src = rp.d; i += nd.n; } else { add = 1; src = h.d + i; ++i; }
    if (n + add > limit) { tooBig = true; break; }
    if (n + add > cap) { cap = (n + add) * 2; b = (u8*)realloc(b, cap); }
    memcpy(b + n, src, add); n += add;
  }
  out.assign(b, n); free(b);
}
static void mTrim(const Bytes& h, const u8* set, size_t sn, Bytes& out) { size_t a = 0, b = h.n; while (a < b && inSet(h.d[a], set, sn)) ++a; while (b > a && inSet(h.d[b - 1], set, sn)) --b; out.assign(h.d + a, b - a); }
static void mSubstr(const Bytes& h, long start, long length, Bytes& out) {
  size_t s;
  if (start < 0) { long t = (long)h.n + start; s = t < 0 ? 0 : (size_t)t; } else s = (size_t)start > h.n ? h.n : (size_t)start;
  size_t e = h.n;
  if (length >= 0 && (size_t)length < h.n - s) e = s + (size_t)length;
  out.assign(h.d + s, e - s);
}
// C-string comparison of NUL-free byte strings (position n reads as 0)
static int mCmp(const Bytes& a, const Bytes& b, bool ic) {
  for (size_t i = 0;; ++i) { u8 ca = i < a.n ? a.d[i] : 0, cb = i < b.n ? b.d[i] : 0; if (ic) { ca = mLower(ca); cb = mLower(cb); } if (ca != cb) return (int)ca - (int)cb; if (!ca) return 0; }
}
static int mCmpN(const Bytes& a, const Bytes& b, size_t len, bool ic) {
  for (size_t i = 0; i < len; ++i) { u8 ra = i < a.n ? a.d[i] : 0; u8 ca = ra, cb = i < b.n ? b.d[i] : 0; if (ic) { ca = mLower(ca); cb = mLower(cb); } if (ca != cb || !ra) return (int)ca - (int)cb; }
  return 0;
}
static int sgn(long v) { return v < 0 ? -1 : v > 0 ? 1 : 0; }
static void mSplit(const Bytes& h, const u8* seps, size_t sn, bool skipEmpty, Vec<Bytes>& out) {
  size_t p = 0;
  for (;;) {
    size_t e = p; while (e < h.n && !inSet(h.d[e], seps, sn)) ++e;
    if (e < h.n) { if (e > p || !skipEmpty) out.push(Bytes(h.d + p, e - p)); p = e + 1; }
    else { if (p < h.n || !skipEmpty) out.push(Bytes(h.d + p, h.n - p)); break; }
  }
}
// token: start <= n for the separator-set form (cursor produced by earlier token calls); any start for the char form
static void mToken(const Bytes& h, const u8* seps, size_t sn, size_t& start, Bytes& out) {
  long idx = start < h.n ? mFindOneOf(h, start, seps, sn) : -1;
  if (idx >= 0) { out.assign(h.d + start, (size_t)idx - start); start = (size_t)idx + 1; }
  else { size_t s = start > h.n ? h.n : start; out.assign(h.d + s, h.n - s); start = h.n; }
}

// ------------------------------------------------------------------------------------------------ globals of the running case
enum { MAXV = 6, NTMP = 3, NSLOT = MAXV + NTMP, T0 = MAXV, T1 = MAXV + 1, T2 = MAXV + 2 };
enum { ST_EMPTY, ST_LIT, ST_UNTERM, ST_EXCL, ST_SHARED, ST_N };
static const char* const stName[ST_N] = { "empty-default", "literal-attached", "attached-unterminated", "owned-exclusive", "owned-shared" };
enum { A_SELF, A_VAR, A_COPY_SELF, A_COPY_VAR, A_OWNED_TMP, A_LIT_TMP, A_UNTERM_TMP, A_N };
static const char* const argName[A_N] = { "self", "var", "copy-of-self", "copy-of-var", "owned-temp", "literal-temp", "unterminated-temp" };
static const size_t MAXLEN = 6000;     // generator keeps variables below this length
static const size_t BIGLEN = 2500;     // a receiver longer than this is shrunk before anything else

// ek / eg / ap: the harness's own record of how the String in this slot got its value (see "state classes" below)
struct Slot { String* s; Bytes m; int src; int argcls; int ek; u64 eg; const char* ap; };
static Slot S[NSLOT];
static int nvars;
static Rng* g_r;
#define R (*g_r)
static bool g_nul;                  // this case may put NUL bytes into contents (only length-based operations are used then)
static bool g_bytesMode;            // contents may use arbitrary bytes 1..255
static u8 g_alpha[8]; static int g_nalpha;
static int g_viewDen;               // the view of an unterminated attached variable is taken with probability 1/g_viewDen per check
static int g_recv = -1, g_a1 = -1, g_a2 = -1;
static bool g_sawShared, g_mutShared, g_mutAttached, g_selfArg;
static u64 g_fp;
static long g_bytesCompared = 0, g_varChecks = 0, g_viewChecks = 0, g_srcChecks = 0, g_resultChecks = 0;

static String& str(int i) { return *S[i].s; }

// ------------------------------------------------------------------------------------------------ state classes
// normal flavour: read non-invasively from the private representation.
// VERIF_NO_PRIVATE flavour: the harness's own record of what it did with each String object: ek = how the slot got its value (default-constructed / literal or terminated attach /
// unterminated attach / a buffer of its own), eg = which buffer (copies of an owning String get the same number), updated by every operation with what the operation is documented
// (or, for the hidden "takes the C-string view" step, known) to do. Holders the harness does not keep in a slot (list elements, results alive for one operation) are not counted,
// so the record can say "owned-exclusive" while a short-lived copy still shares the buffer. No verdict depends on the record: it names the class in context keys and evidence,
// decides whether the (state-changing) C-string view of an unterminated attached variable is sampled or always taken, and steers the choice of receivers.
#ifndef VERIF_NO_PRIVATE
static int stateOf(const String& s) {
  if (s.data == &String::emptyData) return ST_EMPTY;
  if (s.data == &s._data) return s.data->str[s.data->len] ? ST_UNTERM : ST_LIT;
  return s.data->ref == 1 ? ST_EXCL : ST_SHARED;
}
#endif
static u64 g_eg = 0;
static u64 g_held[16]; static int g_nHeld = 0;   // buffers held by copies that the running operation put into a List / HashSet argument
static void eHeldByContainer(int j) { if (S[j].ek == ST_EXCL && g_nHeld < 16) g_held[g_nHeld++] = S[j].eg; }
static int recordedState(int i) {
  if (S[i].ek != ST_EXCL) return S[i].ek;
  for (int j = 0; j < NSLOT; ++j) if (j != i && S[j].s && S[j].ek == ST_EXCL && S[j].eg == S[i].eg) return ST_SHARED;
  for (int j = 0; j < g_nHeld; ++j) if (g_held[j] == S[i].eg) return ST_SHARED;
  return ST_EXCL;
}
static int stateOfSlot(int i) {
#ifndef VERIF_NO_PRIVATE
  return stateOf(*S[i].s);
#else
  return recordedState(i);
#endif
}
static void eSet(int i, int kind, const char* ap = 0) { S[i].ek = kind; S[i].eg = kind == ST_EXCL ? ++g_eg : 0; if (ap) S[i].ap = ap; }
static void eOwn(int i) { eSet(i, ST_EXCL); }                                             // a fresh buffer of its own
static void eMutated(int i) { if (recordedState(i) != ST_EXCL) eOwn(i); }                 // a mutating member: afterwards the receiver owns its buffer exclusively
static void eViewed(int i) { if (S[i].ek == ST_UNTERM) eOwn(i); }                         // the C-string view of an unterminated attached String makes a terminated private copy
static void eCleared(int i) { if (recordedState(i) != ST_EXCL) eSet(i, ST_EMPTY); }       // clear(): keeps an exclusively owned buffer, lets go of anything else
static void eCopyOf(int j, int& ek, u64& eg) { if (S[j].ek == ST_EXCL) { ek = ST_EXCL; eg = S[j].eg; } else if (S[j].ek == ST_EMPTY) { ek = ST_EMPTY; eg = 0; } else { ek = ST_EXCL; eg = ++g_eg; } }   // String(const String&)
static void eAssigned(int i, int j) { if (S[j].ek == ST_EXCL) { S[i].ek = ST_EXCL; S[i].eg = S[j].eg; } else eOwn(i); }   // operator=(const String&): shares an owning source, copies anything else
static long g_recAgree = 0, g_recDiffer = 0;

static void failk(const char* what, const char* fmt, ...) __attribute__((noreturn, format(printf, 2, 3)));
static void failk(const char* what, const char* fmt, ...) {
  char key[400]; snprintf(key, sizeof key, "%s/%s", (const char*)ctx, what);
  char msg[1000]; va_list ap; va_start(ap, fmt); vsnprintf(msg, sizeof msg, fmt, ap); va_end(ap);
  fail(key, "%s", msg);
}

// ------------------------------------------------------------------------------------------------ source blocks (literal / attached memory, const char* inputs)
struct Src { u8* blk; u8* orig; size_t size; };
static Vec<Src> g_src;
static int g_opSrc[16]; static int g_nOpSrc = 0;     // input blocks of the operation in flight
static int newSrc(size_t size) { Src s; s.size = size; s.blk = (u8*)malloc(size); if (!s.blk) s.blk = (u8*)malloc(1); s.orig = (u8*)malloc(size + 1); g_src.push(s); return (int)g_src.n - 1; }
static void sealSrc(int i) { memcpy(g_src[i].orig, g_src[i].blk, g_src[i].size); }
static void checkSrc(int i, const char* what) {
  Src& s = g_src[i]; ++g_srcChecks; g_bytesCompared += (long)s.size;
  if (s.size && memcmp(s.blk, s.orig, s.size)) { size_t k = 0; while (s.blk[k] == s.orig[k]) ++k; failk(what, "byte %lu of a %lu-byte source block changed from 0x%02x to 0x%02x: the String wrote through memory it does not own", (unsigned long)k, (unsigned long)s.size, s.orig[k], s.blk[k]); }
}
static void freeAllSrc() { for (size_t i = 0; i < g_src.n; ++i) { free(g_src[i].blk); free(g_src[i].orig); } g_src.clear(); g_nOpSrc = 0; }
// exact-size input block for a const char* parameter; checked after the operation
static const char* cblock(const void* p, size_t n, bool nulTerm) {
  int i = newSrc(n + (nulTerm ? 1 : 0)); if (n) memcpy(g_src[i].blk, p, n); if (nulTerm) g_src[i].blk[n] = 0; sealSrc(i);
  if (g_nOpSrc < 16) g_opSrc[g_nOpSrc++] = i;
  return (const char*)g_src[i].blk;
}
static const char* cstrOf(const Bytes& b) { return cblock(b.d, b.n, true); }
// literal block: n bytes + NUL, exactly sized
static int literalSrc(const Bytes& b) { int i = newSrc(b.n + 1); if (b.n) memcpy(g_src[i].blk, b.d, b.n); g_src[i].blk[b.n] = 0; sealSrc(i); return i; }
// attach block: guard bytes, content, (terminator), guard bytes; returns the source index and the offset of the content
static int attachSrc(const Bytes& b, bool terminated, size_t& off) {
  size_t pre = R.below(6), post = terminated ? R.below(4) : 1 + R.below(4);
  int i = newSrc(pre + b.n + (terminated ? 1 : 0) + post); u8* p = g_src[i].blk;
  memset(p, 0xA5, pre); if (b.n) memcpy(p + pre, b.d, b.n); size_t k = pre + b.n; if (terminated) p[k++] = 0;
  bool letters = R.chance(1, 2);   // the bytes behind an unterminated text are either guard bytes or more text (an over-read then also gives wrong answers)
  for (size_t j = 0; j < post; ++j) p[k++] = letters ? g_alpha[R.below((u64)g_nalpha)] : 0xA5;
  sealSrc(i); off = pre; return i;
}

// ------------------------------------------------------------------------------------------------ literal dispatch (template<usize N> entry points need compile-time sizes)
#define LITSIZES(X) X(1) X(2) X(3) X(4) X(5) X(6) X(7) X(8) X(9) X(10) X(11) X(12) X(13) X(14) X(15) X(16) X(17) X(32) X(33) X(64) X(65) \
  X(199) X(200) X(201) X(202) X(203) X(204) X(205) X(1001)
static const int litLens[] = { 0, 1, 2, 3, 4, 5, 6, 7, 8, 9, 10, 11, 12, 13, 14, 15, 16, 31, 32, 63, 64, 198, 199, 200, 201, 202, 203, 204, 1000 };
static bool litOk(size_t len) { for (unsigned i = 0; i < sizeof litLens / sizeof *litLens; ++i) if ((size_t)litLens[i] == len) return true; return false; }
template <usize N> static const char (&asLit(const void* p))[N] { return *(const char(*)[N])p; }
static String* newLiteral(const void* p, size_t N) { switch (N) {
#define X(n) case n: return new String(asLit<n>(p));
  LITSIZES(X)
#undef X
  } harnessBug("no literal size %lu", (unsigned long)N); }
static bool litEq(const String& s, const void* p, size_t N) { switch (N) {
#define X(n) case n: return s == asLit<n>(p);
  LITSIZES(X)
#undef X
  } harnessBug("no literal size %lu", (unsigned long)N); }
static bool litNe(const String& s, const void* p, size_t N) { switch (N) {
#define X(n) case n: return s != asLit<n>(p);
  LITSIZES(X)
#undef X
  } harnessBug("no literal size %lu", (unsigned long)N); }
static String litPlus(const String& s, const void* p, size_t N) { switch (N) {
#define X(n) case n: return s + asLit<n>(p);
  LITSIZES(X)
#undef X
  } harnessBug("no literal size %lu", (unsigned long)N); }

// ------------------------------------------------------------------------------------------------ generators
static u8 genChar(bool allowNul = true) {
  if (g_nul && allowNul && R.chance(1, 5)) return 0;
  if (g_bytesMode && R.chance(1, 2)) return (u8)R.range(1, 255);
  return g_alpha[R.below((u64)g_nalpha)];
}
static size_t genLen() {
  unsigned p = (unsigned)R.below(100);
  if (p < 55) return (size_t)R.below(7);
  if (p < 80) return (size_t)R.range(7, 20);
  if (p < 90) { static const int b[] = { 3, 4, 7, 8, 11, 12, 15, 16, 31, 32, 63, 64 }; return (size_t)b[R.below(12)]; }
  if (p < 98) return (size_t)R.range(198, 204);
  return 1000;
}
static size_t genLitLen() {
  unsigned p = (unsigned)R.below(100);
  if (p < 60) return (size_t)R.below(7);
  if (p < 85) return (size_t)R.range(7, 16);
  if (p < 92) { static const int b[] = { 31, 32, 63, 64 }; return (size_t)b[R.below(4)]; }
  if (p < 99) return (size_t)R.range(198, 204);
  return 1000;
}
static void genBytes(Bytes& b, size_t n, bool allowNul = true) { u8* t = (u8*)malloc(n + 1); bool alphaOnly = !g_bytesMode || R.chance(1, 2); for (size_t i = 0; i < n; ++i) { t[i] = genChar(allowNul); if (alphaOnly && t[i]) t[i] = g_alpha[R.below((u64)g_nalpha)]; } b.assign(t, n); free(t); }
static bool g_notedPatterns[4 * 4 * 4 * 4 + 8];
// small NUL-free needle / separator set: every string over the case alphabet up to length 3 (drawn uniformly from the enumerated set), or a piece of the haystack
static void genNeedle(Bytes& b, const Bytes* hay, bool nonEmpty) {
  unsigned p = (unsigned)R.below(100);
  if (hay && hay->n && !hay->hasNul() && p < 25) { size_t a = R.below(hay->n), l = 1 + R.below(hay->n - a < 4 ? hay->n - a : 4); b.assign(hay->d + a, l); }
  else if (g_bytesMode && p < 35) { size_t l = 1 + R.below(3); genBytes(b, l, false); }
  else {
    size_t l = (size_t)R.below(4); if (nonEmpty && !l) l = 1; u8 t[4]; int idx[3]; for (size_t i = 0; i < l; ++i) { idx[i] = (int)R.below((u64)g_nalpha); t[i] = g_alpha[idx[i]]; } b.assign(t, l);
    if (g_nalpha == 4) { int code = (int)l; for (size_t i = 0; i < l; ++i) code = code * 4 + idx[i]; int slot = (l == 0 ? 0 : l == 1 ? 1 + idx[0] : l == 2 ? 5 + idx[0] * 4 + idx[1] : 21 + idx[0] * 16 + idx[1] * 4 + idx[2]); (void)code;
      if (!g_notedPatterns[slot]) { g_notedPatterns[slot] = true; char nm[8]; size_t k = 0; for (; k < l; ++k) nm[k] = (char)('0' + idx[k]); nm[k] = 0; setItem("needle_patterns_4letter", l ? nm : "(empty)"); } }
  }
  if (nonEmpty && !b.n) { u8 c = g_alpha[0]; b.assign(&c, 1); }
}

static void histVal(const Bytes& b) { hist.add("\""); hist.addEsc(b.d, b.n > 40 ? 40 : b.n); hist.add("\""); if (b.n > 40) hist.addf("..(len %lu)", (unsigned long)b.n); }
static void histSlot(int s) { if (s < MAXV) hist.addf("v%d", s); else hist.addf("<%s>", argName[S[s].argcls]); hist.addf("[%s]=", stName[stateOfSlot(s)]); histVal(S[s].m); }

// ------------------------------------------------------------------------------------------------ oracle: one String against its model
// non-invasive part (private peek) + public view. `invasiveOk`: the view may be taken even if it changes the representation.
static void checkStr(String& s, const Bytes& m, const char* role, bool takeView) {
  size_t len = s.length(); ++g_varChecks;
  if (len != m.n) failk(role, "%s: length() = %lu, model %lu", role, (unsigned long)len, (unsigned long)m.n);
  if (s.isEmpty() != (m.n == 0)) failk(role, "%s: isEmpty() = %d with model length %lu", role, (int)s.isEmpty(), (unsigned long)m.n);
#ifndef VERIF_NO_PRIVATE
  const char* raw = s.data->str;
  if (len && memcmp(raw, m.d, len)) { size_t k = 0; while ((u8)raw[k] == m.d[k]) ++k; failk(role, "%s: byte %lu of %lu is 0x%02x, model 0x%02x", role, (unsigned long)k, (unsigned long)len, (u8)raw[k], m.d[k]); }
  g_bytesCompared += (long)len;
#else
  if (!takeView) {   // the view is not taken this time (it would change the state): the bytes are compared through operator== / != with a String attached to the model's (terminated) bytes
    String ms; ms.attach((const char*)m.d, m.n);
    if (!(s == ms) || s != ms) failk(role, "%s: content differs from the model (%lu bytes, compared through operator== because the C-string view is not taken in this check)", role, (unsigned long)len);
    g_bytesCompared += (long)len;
  }
#endif
  if (takeView) {
    const char* view; if (R.chance(1, 2)) view = s; else { const String& cs = s; view = cs; }
    ++g_viewChecks;
    if (s.length() != m.n) failk(role, "%s: length() changed to %lu by taking the C-string view, model %lu", role, (unsigned long)s.length(), (unsigned long)m.n);
    if (len && memcmp(view, m.d, len)) failk(role, "%s: C-string view differs from the model (length %lu)", role, (unsigned long)len);
    if (view[len] != 0) failk("terminator", "%s: C-string view has byte 0x%02x instead of NUL at length() = %lu", role, (u8)view[len], (unsigned long)len);
    g_bytesCompared += (long)len + 1;
  }
}
static const char* roleOf(int i) { return i == g_recv ? "receiver-content" : (i == g_a1 || i == g_a2) ? "argument-changed" : "bystander-changed"; }
// growth observation: ctxOp() of a mutating operation notes the receiver's length / state class before the call; afterOp() sees whether the receiver grew and whether its
// C-string view was taken (terminator checked) in the check that directly follows the operation
static int g_preRecv = -1, g_preState = 0; static size_t g_preLen = 0; static const char* g_preOp = 0; static bool g_recvViewTaken = false;
static void checkSlot(int i) {
  String& s = str(i); int st = stateOfSlot(i);
  if (st == ST_SHARED) g_sawShared = true;
  bool view = st != ST_UNTERM || R.below((u64)g_viewDen) == 0;
  checkStr(s, S[i].m, roleOf(i), view);
  if (view) eViewed(i);
  if (i == g_recv) g_recvViewTaken = view;
}
static void checkAll() {
  for (int i = 0; i < NSLOT; ++i) if (S[i].s) checkSlot(i);
  for (int i = 0; i < NSLOT; ++i) if (S[i].s && S[i].src >= 0) checkSrc(S[i].src, "source-memory-written");
  for (int i = 0; i < g_nOpSrc; ++i) checkSrc(g_opSrc[i], "input-memory-written");
}
static void dropTemps() {
  for (int i = MAXV; i < NSLOT; ++i) if (S[i].s) { delete S[i].s; S[i].s = 0; S[i].src = -1; }
  g_nOpSrc = 0;
}
static void noteGrowth(int recv) {
  if (recv < 0 || recv != g_preRecv || !g_preOp) { g_preRecv = -1; return; }
  size_t now = S[recv].m.n; g_preRecv = -1;
  if (now <= g_preLen) return;
  char item[120]; snprintf(item, sizeof item, "%s|recv=%s%s", g_preOp, g_preLen ? "" : "EMPTY:", stName[g_preState]); setItem("growth_op_by_receiver_class", item);
  if (!g_recvViewTaken) return;
  cnt("growth_ops_view_checked_directly");
  if (!g_preLen) { static const char* const gc[ST_N] = { "growth_from_empty_default_view_checked", "growth_from_empty_literal_attached_view_checked", "growth_from_empty_attached_unterminated_view_checked",
      "growth_from_empty_owned_exclusive_view_checked", "growth_from_empty_owned_shared_view_checked" }; cnt(gc[g_preState]); cnt("growth_from_empty_view_checked"); }
}
static void afterOp(int recv, int a1 = -1, int a2 = -1, bool drop = true) {
  g_recv = recv; g_a1 = a1; g_a2 = a2; g_recvViewTaken = false;
  checkAll();
  cnt("ops");
  noteGrowth(recv);
  if (drop) dropTemps();
}

// ------------------------------------------------------------------------------------------------ context, matrix, counters
static u64 hashName(const char* s) { u64 h = 1469598103934665603ULL; for (; *s; ++s) h = (h ^ (u8)*s) * 1099511628211ULL; return h; }
static u64 g_matrixSeen[1 << 14];
static void noteMatrix(const char* op, int rs, int acls, int ast) {
  u64 h = 1469598103934665603ULL; for (const char* p = op; *p; ++p) h = (h ^ (u8)*p) * 1099511628211ULL; h = mix(h, (u64)(rs + 1) * 64 + (u64)(acls + 1) * 8 + (u64)(ast + 1)) | 1;
  size_t s = (size_t)(h >> 13) & ((1 << 14) - 1);
  for (int i = 0; i < 32; ++i) { size_t j = (s + i) & ((1 << 14) - 1); if (g_matrixSeen[j] == h) return; if (!g_matrixSeen[j]) { g_matrixSeen[j] = h; break; } }
  char item[96]; snprintf(item, sizeof item, "%s|recv=%s|arg=%s%s%s", op, rs >= 0 ? stName[rs] : "-", acls >= 0 ? argName[acls] : "-", ast >= 0 ? ":" : "", ast >= 0 ? stName[ast] : "");
  setItem("matrix_op_recv_arg", item);
}
static void ctxOp(const char* op, int recv, int a1, int a2, bool mut) {
  int rs = recv >= 0 ? stateOfSlot(recv) : -1;
#ifndef VERIF_NO_PRIVATE
  if (recv >= 0) { if (recordedState(recv) == rs) ++g_recAgree; else ++g_recDiffer; }   // how good the fallback flavour's record is (evidence only)
#endif
  char buf[240]; int k = snprintf(buf, sizeof buf, "String.%s", op);
  if (rs >= 0) k += snprintf(buf + k, sizeof buf - k, "/recv=%s", stName[rs]);
  if (a1 >= 0) k += snprintf(buf + k, sizeof buf - k, "/arg=%s", argName[S[a1].argcls]);
  if (a2 >= 0) k += snprintf(buf + k, sizeof buf - k, "+%s", argName[S[a2].argcls]);
  setctxf("%s", buf);
  noteMatrix(op, rs, a1 >= 0 ? S[a1].argcls : -1, a1 >= 0 ? stateOfSlot(a1) : -1);
  if (a2 >= 0) noteMatrix(op, rs, S[a2].argcls, stateOfSlot(a2));
  g_fp = mix(g_fp, hashName(op) ^ ((u64)(rs + 1) << 8) ^ ((u64)(a1 >= 0 ? S[a1].argcls + 1 : 0) << 12) ^ ((u64)(a2 >= 0 ? S[a2].argcls + 1 : 0) << 16));
  bool self = (a1 >= 0 && a1 == recv) || (a2 >= 0 && a2 == recv);
  bool selfShare = (a1 >= 0 && S[a1].argcls == A_COPY_SELF) || (a2 >= 0 && S[a2].argcls == A_COPY_SELF);
  if (self) { cnt("self_arg_ops"); g_selfArg = true; }
  if (selfShare) cnt("arg_shares_receiver_buffer_ops");
  if (mut && recv >= 0) { g_preRecv = recv; g_preState = rs; g_preLen = S[recv].m.n; g_preOp = op; } else g_preRecv = -1;
  if (rs >= 0) {
    static const char* const rc[ST_N] = { "recv_empty_default", "recv_literal_attached", "recv_attached_unterminated", "recv_owned_exclusive", "recv_owned_shared" };
    cnt(rc[rs]);
    if (mut) { static const char* const mc[ST_N] = { "mut_empty_default", "mut_literal_attached", "mut_attached_unterminated", "mut_owned_exclusive", "mut_owned_shared" }; cnt(mc[rs]);
      if (rs == ST_SHARED) g_mutShared = true; if (rs == ST_LIT || rs == ST_UNTERM) g_mutAttached = true; }
  }
}

// ------------------------------------------------------------------------------------------------ findings that may be listed instead of fixed
static const char* const K_PREPEND_SELF = "String.prepend(String)/arg=self";
static const char* const K_REPLACE_UNTERM = "String.replace(String)/recv=attached-unterminated";
static bool exclPrefix(const char* prefix) {
  const char* e = opts.exclude; if (!e || !*e) return false; size_t k = strlen(prefix);
  while (*e) { const char* c = strchr(e, ','); size_t len = c ? (size_t)(c - e) : strlen(e); if (len >= k && !memcmp(e, prefix, k)) return true; if (!c) break; e = c + 1; }
  return false;
}

// ------------------------------------------------------------------------------------------------ String-typed arguments
// Returns the slot that holds the argument. want: preferred content for the temp classes. mask: allowed classes (bit per A_*).
// nonEmpty: the argument value must not be empty (replace needle).
static void setTempOwned(int t, const Bytes& b) { setctx("String.String(buf+len)/arg-setup"); S[t].s = new String(cblock(b.d, b.n, false), b.n); S[t].m = b; S[t].src = -1; S[t].argcls = A_OWNED_TMP; S[t].ap = 0; eOwn(t); }
static void setTempLit(int t, const Bytes& b) {
  if (litOk(b.n) && R.chance(2, 3)) { setctx("String.String(literal)/arg-setup"); int si = literalSrc(b); S[t].s = newLiteral(g_src[si].blk, b.n + 1); S[t].src = si; eSet(t, ST_LIT, (const char*)g_src[si].blk); }
  else { setctx("String.attach/arg-setup"); size_t off; int si = attachSrc(b, true, off); S[t].s = new String; S[t].s->attach((const char*)g_src[si].blk + off, b.n); S[t].src = si; eSet(t, ST_LIT, (const char*)g_src[si].blk + off); }
  S[t].m = b; S[t].argcls = A_LIT_TMP;
}
static void setTempUnterm(int t, const Bytes& b) { setctx("String.attach/arg-setup"); size_t off; int si = attachSrc(b, false, off); S[t].s = new String; S[t].s->attach((const char*)g_src[si].blk + off, b.n); S[t].src = si; S[t].m = b; S[t].argcls = A_UNTERM_TMP; eSet(t, ST_UNTERM, (const char*)g_src[si].blk + off); }
static int mkArg(int recv, int t, const Bytes* want, unsigned mask = (1u << A_N) - 1, bool nonEmpty = false) {
  static const int w[A_N] = { 22, 16, 12, 10, 18, 11, 11 };
  if (recv < 0) mask &= ~((1u << A_SELF) | (1u << A_COPY_SELF));
  if (nvars < (recv < 0 ? 1 : 2)) mask &= ~((1u << A_VAR) | (1u << A_COPY_VAR));
  for (int attempt = 0; attempt < 8; ++attempt) {
    int tot = 0; for (int c = 0; c < A_N; ++c) if (mask >> c & 1) tot += w[c];
    if (!tot) harnessBug("mkArg: empty class mask");
    int pick = (int)R.below((u64)tot), c = 0; for (;; ++c) { if (!(mask >> c & 1)) continue; if (pick < w[c]) break; pick -= w[c]; }
    int j = recv;
    if (c == A_VAR || c == A_COPY_VAR) { if (recv < 0) j = (int)R.below((u64)nvars); else { j = (int)R.below((u64)nvars - 1); if (j >= recv) ++j; } }
    if (c <= A_COPY_VAR && nonEmpty && S[j].m.n == 0) { mask &= ~(1u << c); continue; }
    switch (c) {
    case A_SELF: S[recv].argcls = A_SELF; return recv;
    case A_VAR: S[j].argcls = A_VAR; return j;
    case A_COPY_SELF: case A_COPY_VAR: setctx("String.String(String)/arg-setup"); S[t].s = new String(str(j)); S[t].m = S[j].m; S[t].src = -1; S[t].argcls = c; S[t].ap = 0; eCopyOf(j, S[t].ek, S[t].eg); return t;
    default: {
      Bytes b; if (want) b = *want; else genBytes(b, c == A_LIT_TMP ? genLitLen() : genLen());
      if (nonEmpty && !b.n) b.push(g_alpha[0]);
      if (c == A_OWNED_TMP) setTempOwned(t, b); else if (c == A_LIT_TMP) setTempLit(t, b); else setTempUnterm(t, b);
      return t; }
    }
  }
  harnessBug("mkArg: no class produced an argument");
}
static const unsigned MASK_NOSELF = ((1u << A_N) - 1) & ~(1u << A_SELF);

// ================================================================================================ operations
// Every op: build arguments, set context + history line, call the library, update the model, afterOp() (= check everything).
// Returns false when the op was not applicable (nothing was called).

static void installNew(int i, String* ns, const Bytes& m, int src, int ek, u64 eg, const char* ap) { const char* saved = (const char*)ctx; setctx("String.~String/replace-variable"); delete S[i].s; setctx(saved); S[i].s = ns; S[i].m = m; S[i].src = src; S[i].ek = ek; S[i].eg = eg; S[i].ap = ap; }

static bool op_construct(int i) {
  int kind = (int)R.below(9); if (g_nul && kind == 6) kind = 2;
  Bytes b; String* ns = 0; int src = -1; int ek = ST_EXCL; u64 eg = ++g_eg; const char* ap = 0;   // record: a buffer of its own unless said otherwise below
  switch (kind) {
  case 0: ctxOp("String()", -1, -1, -1, false); hist.addf("v%d := String()\n", i); ns = new String; ek = ST_EMPTY; eg = 0; break;
  case 1: { genBytes(b, genLitLen()); src = literalSrc(b); ctxOp("String(literal)", -1, -1, -1, false); hist.addf("v%d := String(literal ", i); histVal(b); hist.add(")\n"); ns = newLiteral(g_src[src].blk, b.n + 1); ek = ST_LIT; eg = 0; ap = (const char*)g_src[src].blk; break; }
  case 2: { genBytes(b, genLen()); const char* p = cblock(b.d, b.n, false); ctxOp("String(buf+len)", -1, -1, -1, false); hist.addf("v%d := String(buf ", i); histVal(b); hist.add(")\n"); ns = new String(p, b.n); break; }
  case 3: { size_t n = genLen(); u8 c = genChar(); u8* t = (u8*)malloc(n + 1); memset(t, c, n); b.assign(t, n); free(t); ctxOp("String(len+char)", -1, -1, -1, false); hist.addf("v%d := String(%lu, 0x%02x)\n", i, (unsigned long)n, c); ns = new String((usize)n, (char)c); break; }
  case 4: { size_t cap = genLen(); ctxOp("String(capacity)", -1, -1, -1, false); hist.addf("v%d := String(capacity %lu)\n", i, (unsigned long)cap); ns = new String((usize)cap);
      if (ns->capacity() < cap) failk("capacity", "capacity() = %lu after String(capacity %lu)", (unsigned long)ns->capacity(), (unsigned long)cap); break; }
  case 5: case 8: { int a = mkArg(i, T0, 0); ctxOp("String(String)", -1, a, -1, false); hist.addf("v%d := String(copy of ", i); histSlot(a); hist.add(")\n"); b = S[a].m; ns = new String(str(a)); eCopyOf(a, ek, eg); cnt("op_copy_construct"); break; }
  case 6: { genBytes(b, genLen(), false); const char* p = cstrOf(b); ctxOp("fromCString(cstr)", -1, -1, -1, false); hist.addf("v%d := fromCString(", i); histVal(b); hist.add(")\n"); ns = new String(String::fromCString(p)); break; }
  default: { genBytes(b, genLen()); const char* p = cblock(b.d, b.n, false); ctxOp("fromCString(buf+len)", -1, -1, -1, false); hist.addf("v%d := fromCString(buf ", i); histVal(b); hist.add(")\n"); ns = new String(String::fromCString(p, b.n)); break; }
  }
  // the new value is checked before the old object is destroyed (the old object may be the copy source)
  checkStr(*ns, b, "result", true);
  installNew(i, ns, b, src, ek, eg, ap);
  afterOp(i);
  return true;
}

static bool op_assign(int i) {
  int a = mkArg(i, T0, 0);
  ctxOp("operator=(String)", i, a, -1, true); hist.addf("v%d = ", i); histSlot(a); hist.add("\n");
  Bytes am(S[a].m);
  String& ret = (str(i) = str(a));
  if (&ret != &str(i)) failk("return", "operator= did not return *this");
  S[i].m = am; eAssigned(i, a);
  afterOp(i, a);
  return true;
}

static bool op_attach(int i) {
  Bytes b; genBytes(b, genLen()); bool term = R.chance(1, 3); size_t off; int si = attachSrc(b, term, off);
  ctxOp(term ? "attach/terminated" : "attach/unterminated", i, -1, -1, true); hist.addf("v%d.attach(%s ", i, term ? "terminated" : "unterminated"); histVal(b); hist.add(")\n");
  str(i).attach((const char*)g_src[si].blk + off, b.n);
  S[i].m = b; S[i].src = si; eSet(i, term ? ST_LIT : ST_UNTERM, (const char*)g_src[si].blk + off);
  afterOp(i);
  return true;
}

static bool op_detach(int i) {
  ctxOp("detach", i, -1, -1, true); hist.addf("v%d.detach()\n", i);
  str(i).detach(); eMutated(i);
  afterOp(i);
  return true;
}

static bool op_appendS(int i) {
  int a = mkArg(i, T0, 0);
  if (S[i].m.n + S[a].m.n > MAXLEN) { dropTemps(); return false; }
  bool plus = R.chance(1, 3);
  ctxOp(plus ? "operator+=(String)" : "append(String)", i, a, -1, true); hist.addf("v%d.%s(", i, plus ? "operator+=" : "append"); histSlot(a); hist.add(")\n");
  Bytes am(S[a].m);
  String& ret = plus ? (str(i) += str(a)) : str(i).append(str(a));
  if (&ret != &str(i)) failk("return", "did not return *this");
  S[i].m.append(am.d, am.n); eMutated(i);
  afterOp(i, a);
  return true;
}

static bool op_appendP(int i) {
  Bytes b; genBytes(b, genLen()); if (S[i].m.n + b.n > MAXLEN) return false;
  const char* p = cblock(b.d, b.n, false);
  ctxOp("append(buf+len)", i, -1, -1, true); hist.addf("v%d.append(buf ", i); histVal(b); hist.add(")\n");
  String& ret = str(i).append(p, b.n);
  if (&ret != &str(i)) failk("return", "did not return *this");
  S[i].m.append(b.d, b.n); eMutated(i);
  afterOp(i);
  return true;
}

static bool op_appendC(int i) {
  u8 c = genChar(); bool plus = R.chance(1, 2);
  ctxOp(plus ? "operator+=(char)" : "append(char)", i, -1, -1, true); hist.addf("v%d.%s(0x%02x)\n", i, plus ? "operator+=" : "append", c);
  String& ret = plus ? (str(i) += (char)c) : str(i).append((char)c);
  if (&ret != &str(i)) failk("return", "did not return *this");
  S[i].m.push(c); eMutated(i);
  afterOp(i);
  return true;
}

static bool op_prependS(int i) {
  unsigned mask = (1u << A_N) - 1; if (exclPrefix(K_PREPEND_SELF)) mask = MASK_NOSELF;
  int a = mkArg(i, T0, 0, mask);
  if (S[i].m.n + S[a].m.n > MAXLEN) { dropTemps(); return false; }
  ctxOp("prepend(String)", i, a, -1, true); hist.addf("v%d.prepend(", i); histSlot(a); hist.add(")\n");
  Bytes nm(S[a].m); nm.append(S[i].m.d, S[i].m.n);
  String& ret = str(i).prepend(str(a));
  if (&ret != &str(i)) failk("return", "did not return *this");
  S[i].m = nm; eMutated(i);
  afterOp(i, a);
  return true;
}

static bool op_prependP(int i) {
  Bytes b; genBytes(b, genLen()); if (S[i].m.n + b.n > MAXLEN) return false;
  const char* p = cblock(b.d, b.n, false);
  ctxOp("prepend(buf+len)", i, -1, -1, true); hist.addf("v%d.prepend(buf ", i); histVal(b); hist.add(")\n");
  Bytes nm(b); nm.append(S[i].m.d, S[i].m.n);
  String& ret = str(i).prepend(p, b.n);
  if (&ret != &str(i)) failk("return", "did not return *this");
  S[i].m = nm; eMutated(i);
  afterOp(i);
  return true;
}

static bool op_resize(int i);   // defined behind the query operations (it runs const-view consumers on the resized String)

static bool op_reserve(int i) {
  size_t len = S[i].m.n, n; unsigned p = (unsigned)R.below(100);
  if (p < 30) n = (size_t)R.below(len + 1); else if (p < 70) n = len + (size_t)R.below(9); else n = genLen();
  ctxOp("reserve", i, -1, -1, true); hist.addf("v%d.reserve(%lu)\n", i, (unsigned long)n);
  str(i).reserve(n); eMutated(i);
  size_t need = n > len ? n : len;
  if (str(i).capacity() < need) failk("capacity", "capacity() = %lu after reserve(%lu) on length %lu", (unsigned long)str(i).capacity(), (unsigned long)n, (unsigned long)len);
  afterOp(i);
  return true;
}

static bool op_clear(int i) {
  ctxOp("clear", i, -1, -1, true); hist.addf("v%d.clear()\n", i);
  str(i).clear(); S[i].m.assign("", 0); eCleared(i);
  afterOp(i);
  return true;
}

static bool op_write(int i) {
  size_t n = S[i].m.n;
  ctxOp("operator-char*/write", i, -1, -1, true);
  char* w = str(i); eMutated(i);
  if (n) { size_t k = R.below(n); u8 c = genChar(); hist.addf("((char*)v%d)[%lu] = 0x%02x\n", i, (unsigned long)k, c); w[k] = (char)c; S[i].m.d[k] = c; }
  else hist.addf("(char*)v%d\n", i);
  if (w[n] != 0) failk("terminator", "mutable view has byte 0x%02x instead of NUL at length() = %lu", (u8)w[n], (unsigned long)n);
  afterOp(i);
  return true;
}

static bool op_replaceC(int i) {
  u8 nd = S[i].m.n && R.chance(2, 3) ? S[i].m.d[R.below(S[i].m.n)] : genChar(false), rp = genChar(false);
  if (!nd) return false;
  ctxOp("replace(char)", i, -1, -1, true); hist.addf("v%d.replace(0x%02x, 0x%02x)\n", i, nd, rp);
  String& ret = str(i).replace((char)nd, (char)rp);
  if (&ret != &str(i)) failk("return", "did not return *this");
  for (size_t k = 0; k < S[i].m.n; ++k) if (S[i].m.d[k] == nd) S[i].m.d[k] = rp;
  eMutated(i);
  afterOp(i);
  return true;
}

static bool op_replaceS(int i) {
  if (exclPrefix(K_REPLACE_UNTERM) && stateOfSlot(i) == ST_UNTERM) return false;
  Bytes nd; genNeedle(nd, &S[i].m, true);
  int a = mkArg(i, T0, &nd, (1u << A_N) - 1, true);
  Bytes rp; if (R.chance(3, 4)) genNeedle(rp, 0, false); else genBytes(rp, genLen() % 24, false);
  int b = mkArg(i, T1, &rp);
  Bytes res; bool tooBig; mReplace(S[i].m, S[a].m, S[b].m, res, MAXLEN, tooBig);
  if (tooBig) { dropTemps(); return false; }
  ctxOp("replace(String)", i, a, b, true); hist.addf("v%d.replace(", i); histSlot(a); hist.add(", "); histSlot(b); hist.add(")\n");
  bool hasMatch = mFind(S[i].m, 0, S[a].m.d, S[a].m.n) >= 0; if (hasMatch) cnt("replace_with_match");
  cpuBudget(10, "String.replace(String)/nonterminating");
  String& ret = str(i).replace(str(a), str(b));
  cpuBudget(0, 0);
  if (&ret != &str(i)) failk("return", "did not return *this");
  S[i].m = res; eViewed(i); eViewed(a); if (hasMatch) eOwn(i);   // searches through the C-string views; a match gives the receiver a new buffer
  afterOp(i, a, b);
  return true;
}

static bool op_case(int i) {
  bool up = R.chance(1, 2);
  ctxOp(up ? "toUpperCase" : "toLowerCase", i, -1, -1, true); hist.addf("v%d.%s()\n", i, up ? "toUpperCase" : "toLowerCase");
  String& ret = up ? str(i).toUpperCase() : str(i).toLowerCase();
  if (&ret != &str(i)) failk("return", "did not return *this");
  for (size_t k = 0; k < S[i].m.n; ++k) S[i].m.d[k] = up ? mUpper(S[i].m.d[k]) : mLower(S[i].m.d[k]);
  eMutated(i);
  afterOp(i);
  return true;
}

static bool op_trim(int i) {
  Bytes res;
  if (R.chance(1, 3)) {
    ctxOp("trim()", i, -1, -1, true); hist.addf("v%d.trim()\n", i);
    mTrim(S[i].m, (const u8*)" \t\r\n\v", 5, res);
    String& ret = str(i).trim(); if (&ret != &str(i)) failk("return", "did not return *this");
  } else {
    Bytes ch; genNeedle(ch, &S[i].m, false); const char* p = cstrOf(ch);
    ctxOp("trim(chars)", i, -1, -1, true); hist.addf("v%d.trim(", i); histVal(ch); hist.add(")\n");
    mTrim(S[i].m, ch.d, ch.n, res);
    String& ret = str(i).trim(p); if (&ret != &str(i)) failk("return", "did not return *this");
  }
  if (res.n != S[i].m.n) { cnt("trim_changed"); eOwn(i); }   // a trim that removes nothing leaves the String as it is
  S[i].m = res;
  afterOp(i);
  return true;
}

// ---- printf family. kinds: 0 "%s"  1 "%s%s"  2 "%d"  3 "%*d"  4 "[%s|%d|%c]"  5 "%%%s%%"  6 plain text
#define PF_SWITCH(CALL) switch (kind) { \
  case 0: CALL((fmt, a)); break; case 1: CALL((fmt, a, b)); break; case 2: CALL((fmt, d)); break; case 3: CALL((fmt, w, d)); break; \
  case 4: CALL((fmt, a, d, ch)); break; case 5: CALL((fmt, a)); break; default: CALL((fmt)); break; }
struct PfCase { int kind; const char* fmt; const char* a; const char* b; int d, w, ch; Bytes expect; };
static size_t genPfLen() { unsigned p = (unsigned)R.below(100); if (p < 35) return (size_t)R.below(12); if (p < 85) return (size_t)R.range(196, 206); if (p < 95) return (size_t)R.range(12, 195); return 1000; }
static void genPf(PfCase& c) {
  int kind = c.kind = (int)R.below(7); size_t L = genPfLen(); Bytes ab, bb, fb;
  c.a = c.b = ""; c.d = (int)R.range(-100000, 100000); c.w = 1; c.ch = g_alpha[0] >= 32 && g_alpha[0] < 127 ? g_alpha[0] : 'x';
  static const char* const fmts[] = { "%s", "%s%s", "%d", "%*d", "[%s|%d|%c]", "%%%s%%" };
  switch (kind) {
  case 0: genBytes(ab, L, false); break;
  case 1: { size_t k = (size_t)R.below(L + 1); genBytes(ab, L - k, false); genBytes(bb, k, false); break; }
  case 2: if (R.chance(1, 4)) c.d = R.chance(1, 2) ? INT_MIN : INT_MAX; break;
  case 3: c.w = (int)(L ? L : 1); if (R.chance(1, 3)) c.w = -c.w; break;
  case 4: genBytes(ab, L > 10 ? L - (size_t)R.below(10) : L, false); break;
  case 5: genBytes(ab, L >= 2 ? L - 2 : 0, false); break;
  default: genBytes(fb, L, false); for (size_t k = 0; k < fb.n; ++k) if (fb.d[k] == '%') fb.d[k] = '_'; break;
  }
  c.a = cstrOf(ab); c.b = cstrOf(bb);
  const char* fmt = c.fmt = kind < 6 ? cstrOf(Bytes(fmts[kind], strlen(fmts[kind]))) : cstrOf(fb);
  const char* a = c.a; const char* b = c.b; int d = c.d, w = c.w, ch = c.ch; int need = 0;
#define PF_SIZE(ARGS) need = snprintf(0, 0, PF_UNPACK ARGS)
#define PF_UNPACK(...) __VA_ARGS__
  PF_SWITCH(PF_SIZE)
  if (need < 0) harnessBug("snprintf failed");
  char* buf = (char*)malloc((size_t)need + 1);
#define PF_FILL(ARGS) snprintf(buf, (size_t)need + 1, PF_UNPACK ARGS)
  PF_SWITCH(PF_FILL)
  c.expect.assign(buf, (size_t)need); free(buf);
  if ((need >= 190 && need <= 210) || need <= 2 || need >= 1000) { char nm[24]; snprintf(nm, sizeof nm, "%d", need >= 1000 ? 1000 : need); setItem("printf_result_lengths", nm); }
}

static bool op_printf(int i) {
  PfCase c; genPf(c);
  ctxOp("printf", i, -1, -1, true); hist.addf("v%d.printf(kind %d) -> ", i, c.kind); histVal(c.expect); hist.add("\n");
  int kind = c.kind; const char* fmt = c.fmt; const char* a = c.a; const char* b = c.b; int d = c.d, w = c.w, ch = c.ch; int rc = 0;
#define PF_CALLM(ARGS) rc = str(i).printf(PF_UNPACK ARGS)
  PF_SWITCH(PF_CALLM)
  if (rc != (int)c.expect.n) failk("return", "printf returned %d, formatted length is %lu", rc, (unsigned long)c.expect.n);
  S[i].m = c.expect; eMutated(i);
  afterOp(i);
  return true;
}

// store a produced value into a random variable through operator= (keeps values circulating between variables)
static void storeResult(const String& res, const Bytes& m) {
  if (!R.chance(2, 5)) return;
  int k = (int)R.below((u64)nvars);
  ctxOp("operator=(String)/from-result", k, -1, -1, true); hist.addf("v%d = result\n", k);
  str(k) = res; S[k].m = m; eOwn(k);   // shares the buffer of a result that is destroyed at the end of the operation
  afterOp(k, -1, -1, false);
}
static void checkResult(String& res, const Bytes& m) { ++g_resultChecks; checkStr(res, m, "result", true); }

static bool op_fromPrintf(int) {
  PfCase c; genPf(c);
  ctxOp("fromPrintf", -1, -1, -1, false); hist.addf("fromPrintf(kind %d) -> ", c.kind); histVal(c.expect); hist.add("\n");
  int kind = c.kind; const char* fmt = c.fmt; const char* a = c.a; const char* b = c.b; int d = c.d, w = c.w, ch = c.ch;
  String res;
#define PF_CALLF(ARGS) res = String::fromPrintf(PF_UNPACK ARGS)
  PF_SWITCH(PF_CALLF)
  checkResult(res, c.expect);
  afterOp(-1, -1, -1, false);
  storeResult(res, c.expect);
  dropTemps();
  return true;
}

static bool op_join(int i) {
  int k = (int)R.below(6); u8 sep = genChar(); Vec<Bytes> toks; size_t total = 0;
  List<String>* l = new List<String>;
  setctx("List<String>.append/arg-setup");
  for (int t = 0; t < k; ++t) {
    int a = mkArg(i, T0, 0);   // A_SELF here means: the list holds a copy of the receiver (shares its buffer)
    setctx("List<String>.append/arg-setup"); l->append(str(a)); eHeldByContainer(a); toks.push(S[a].m); total += S[a].m.n + 1;
    if (S[T0].s) { delete S[T0].s; S[T0].s = 0; S[T0].src = -1; }
  }
  if (total > MAXLEN) { delete l; g_nHeld = 0; dropTemps(); return false; }
  ctxOp("join", i, -1, -1, true); hist.addf("v%d.join(%d tokens, 0x%02x)\n", i, k, sep);
  Bytes res; for (int t = 0; t < k; ++t) { if (t) res.push(sep); res.append(toks[t].d, toks[t].n); }
  String& ret = str(i).join(*l, (char)sep);
  if (&ret != &str(i)) failk("return", "did not return *this");
  S[i].m = res; eCleared(i); if (k) eMutated(i);
  int t = 0; for (List<String>::Iterator it = l->begin(), e = l->end(); it != e; ++it, ++t) { if (t >= k) failk("argument-changed", "token list grew"); checkStr(*it, toks[t], "argument-changed", true); }
  if (t != k) failk("argument-changed", "token list shrank from %d to %d", k, t);
  afterOp(i);
  setctx("List<String>.~List/arg-teardown"); delete l; g_nHeld = 0;
  return true;
}

// ---- producers
static long genStart(size_t n) {
  unsigned p = (unsigned)R.below(100);
  if (p < 80) return R.range(-(long)n - 3, (long)n + 3);
  if (p < 85) return LONG_MIN; if (p < 90) return LONG_MAX; if (p < 95) return -(long)n; return (long)n;
}
static bool op_substr(int i) {
  size_t n = S[i].m.n; long start = genStart(n); Bytes m;
  if (R.chance(2, 5)) {
    ctxOp("substr(start)", i, -1, -1, false); hist.addf("v%d.substr(%ld)\n", i, start);
    mSubstr(S[i].m, start, -1, m);
    String res = str(i).substr((ssize)start); checkResult(res, m); afterOp(i, -1, -1, false); storeResult(res, m);
  } else {
    unsigned p = (unsigned)R.below(100); long len = p < 70 ? R.range(0, (long)n + 3) : p < 85 ? -1 : p < 95 ? LONG_MAX : 0;
    ctxOp("substr(start+length)", i, -1, -1, false); hist.addf("v%d.substr(%ld, %ld)\n", i, start, len);
    mSubstr(S[i].m, start, len, m);
    String res = str(i).substr((ssize)start, (ssize)len); checkResult(res, m); afterOp(i, -1, -1, false); storeResult(res, m);
  }
  if (m.n && m.n < n) cnt("substr_proper");
  dropTemps();
  return true;
}

static bool op_token(int i) {
  size_t n = S[i].m.n; bool charForm = R.chance(1, 2); bool loop = R.chance(1, 2);
  Bytes seps; const char* sp = 0; u8 sc = 0;
  if (charForm) { sc = n && R.chance(2, 3) ? S[i].m.d[R.below(n)] : genChar(false); seps.assign(&sc, 1); } else { genNeedle(seps, &S[i].m, false); sp = cstrOf(seps); }
  ctxOp(charForm ? "token(char)" : "token(set)", i, -1, -1, false);
  hist.addf("v%d.token(%s ", i, charForm ? "char" : "set"); histVal(seps); hist.addf(") %s\n", loop ? "loop from 0" : "single call");
  if (loop) {
    if (n) eViewed(i);   // token() searches through the C-string view
    usize start = 0; size_t ms = 0; size_t rounds = 0; String first; Bytes firstM;
    while (ms < n) {
      if (++rounds > n + 2) failk("result", "token loop did not reach the end after %lu rounds", (unsigned long)rounds);
      Bytes m; mToken(S[i].m, seps.d, seps.n, ms, m);
      String res = charForm ? str(i).token((char)sc, start) : str(i).token(sp, start);
      checkResult(res, m);
      if (start != ms) failk("result", "token advanced start to %lu, model %lu", (unsigned long)start, (unsigned long)ms);
      cnt("tokens_checked");
      if (rounds == 1) { first = res; firstM = m; }
    }
    afterOp(i, -1, -1, false);
    if (rounds) storeResult(first, firstM);
    if (rounds > 1) cnt("token_loops_multi");
  } else {
    // the char form checks start >= length() itself; the set form takes a cursor inside the text
    usize start = charForm ? (usize)R.below(n + 4) : (usize)R.below(n + 1); size_t ms = start; Bytes m;
    hist.addf("  start=%lu\n", (unsigned long)start);
    if (!charForm || start < n) eViewed(i);
    mToken(S[i].m, seps.d, seps.n, ms, m);
    String res = charForm ? str(i).token((char)sc, start) : str(i).token(sp, start);
    checkResult(res, m);
    if (start != ms) failk("result", "token advanced start to %lu, model %lu", (unsigned long)start, (unsigned long)ms);
    cnt("tokens_checked");
    afterOp(i, -1, -1, false);
  }
  dropTemps();
  return true;
}

static bool op_plus(int i) {
  if (R.chance(2, 3)) {
    int a = mkArg(i, T0, 0);
    if (S[i].m.n + S[a].m.n > MAXLEN) { dropTemps(); return false; }
    ctxOp("operator+(String)", i, a, -1, false); hist.addf("v%d + ", i); histSlot(a); hist.add("\n");
    Bytes m(S[i].m); m.append(S[a].m.d, S[a].m.n);
    String res = str(i) + str(a); checkResult(res, m); afterOp(i, a, -1, false); storeResult(res, m);
  } else {
    Bytes b; genBytes(b, genLitLen()); if (S[i].m.n + b.n > MAXLEN) return false;
    const char* p = cstrOf(b);
    ctxOp("operator+(literal)", i, -1, -1, false); hist.addf("v%d + literal ", i); histVal(b); hist.add("\n");
    Bytes m(S[i].m); m.append(b.d, b.n);
    String res = litPlus(str(i), p, b.n + 1); checkResult(res, m); afterOp(i, -1, -1, false); storeResult(res, m);
  }
  dropTemps();
  return true;
}

static bool op_split(int i) {
  Bytes seps; genNeedle(seps, &S[i].m, false); const char* sp = cstrOf(seps); bool skipEmpty = R.chance(1, 2); bool defArg = skipEmpty && R.chance(1, 3);
  Vec<Bytes> toks; mSplit(S[i].m, seps.d, seps.n, skipEmpty, toks);
  if (R.chance(1, 2)) {
    List<String>* l = new List<String>; setctx("List<String>.append/arg-setup");
    for (int t = (int)R.below(4); t > 0; --t) { int v = (int)R.below((u64)nvars); l->append(str(v)); eHeldByContainer(v); }   // stale content that shares buffers with the variables
    ctxOp("split(List)", i, -1, -1, false); hist.addf("v%d.split(List, ", i); histVal(seps); hist.addf(", skipEmpty=%d)\n", (int)skipEmpty);
    usize cntRet = defArg ? str(i).split(*l, sp) : str(i).split(*l, sp, skipEmpty); eViewed(i); g_nHeld = 0;   // split() walks the C-string view and replaces the old content of the container
    if (cntRet != toks.n || l->size() != toks.n) failk("result", "split returned %lu / list size %lu, model %lu tokens", (unsigned long)cntRet, (unsigned long)l->size(), (unsigned long)toks.n);
    size_t t = 0; for (List<String>::Iterator it = l->begin(), e = l->end(); it != e; ++it, ++t) { checkResult(*it, toks[t]); cnt("tokens_checked"); }
    afterOp(i, -1, -1, false);
    if (toks.n) { size_t k = R.below(toks.n); List<String>::Iterator it = l->begin(); for (size_t j = 0; j < k; ++j) ++it; storeResult(*it, toks[k]); }
    setctx("List<String>.~List/arg-teardown"); delete l; g_nHeld = 0;
  } else {
    Vec<Bytes> uniq; for (size_t t = 0; t < toks.n; ++t) { bool dup = false; for (size_t j = 0; j < uniq.n; ++j) if (uniq[j].eq(toks[t])) dup = true; if (!dup) uniq.push(toks[t]); }
    HashSet<String>* hs = new HashSet<String>((usize)R.range(1, 16)); setctx("HashSet<String>.append/arg-setup");
    for (int t = (int)R.below(3); t > 0; --t) { int v = (int)R.below((u64)nvars); hs->append(str(v)); eViewed(v); eHeldByContainer(v); }   // (hashing takes the C-string view)
    ctxOp("split(HashSet)", i, -1, -1, false); hist.addf("v%d.split(HashSet, ", i); histVal(seps); hist.addf(", skipEmpty=%d)\n", (int)skipEmpty);
    usize cntRet = defArg ? str(i).split(*hs, sp) : str(i).split(*hs, sp, skipEmpty); eViewed(i); g_nHeld = 0;
    if (cntRet != uniq.n || hs->size() != uniq.n) failk("result", "split returned %lu / set size %lu, model %lu distinct tokens", (unsigned long)cntRet, (unsigned long)hs->size(), (unsigned long)uniq.n);
    size_t t = 0; for (HashSet<String>::Iterator it = hs->begin(), e = hs->end(); it != e; ++it, ++t) { checkResult(const_cast<String&>(*it), uniq[t]); cnt("tokens_checked"); }
    afterOp(i, -1, -1, false);
    setctx("HashSet<String>.~HashSet/arg-teardown"); delete hs; g_nHeld = 0;
  }
  if (toks.n > 1) cnt("split_multi");
  dropTemps();
  return true;
}

// ---- queries
#define QCHECK(cond, ...) do { cnt("query_results_compared"); if (!(cond)) failk("result", __VA_ARGS__); } while (0)
static bool op_eq(int i) {
  if (R.chance(2, 3)) {
    Bytes want; if (R.chance(1, 2)) want = S[i].m; else genBytes(want, S[i].m.n && R.chance(1, 2) ? S[i].m.n : genLen());
    if (want.n && R.chance(1, 4)) want.d[R.below(want.n)] = genChar();
    int a = mkArg(i, T0, &want);
    ctxOp("operator==/!=(String)", i, a, -1, false); hist.addf("v%d == ", i); histSlot(a); hist.add("\n");
    bool e = S[i].m.eq(S[a].m); if (e) cnt("eq_true");
    bool r1 = str(i) == str(a), r2 = str(i) != str(a);
    QCHECK(r1 == e, "operator== returned %d, model %d", (int)r1, (int)e); QCHECK(r2 == !e, "operator!= returned %d, model %d", (int)r2, (int)!e);
    afterOp(i, a);
  } else {
    Bytes b; if (litOk(S[i].m.n) && R.chance(1, 2)) { b = S[i].m; if (b.n && R.chance(1, 3)) b.d[R.below(b.n)] = genChar(); } else genBytes(b, genLitLen());
    const char* p = cstrOf(b);
    ctxOp("operator==/!=(literal)", i, -1, -1, false); hist.addf("v%d == literal ", i); histVal(b); hist.add("\n");
    bool e = S[i].m.eq(b); if (e) cnt("eq_true");
    bool r1 = litEq(str(i), p, b.n + 1), r2 = litNe(str(i), p, b.n + 1);
    QCHECK(r1 == e, "operator==(literal) returned %d, model %d", (int)r1, (int)e); QCHECK(r2 == !e, "operator!=(literal) returned %d, model %d", (int)r2, (int)!e);
    afterOp(i);
  }
  return true;
}

// an argument value related to the receiver: equal, a prefix, a case variant, one byte changed, or unrelated
static void genRelated(Bytes& want, const Bytes& m) {
  unsigned p = (unsigned)R.below(100);
  if (p < 20) want = m;
  else if (p < 40) want.assign(m.d, (size_t)R.below(m.n + 1));
  else if (p < 55) { want = m; for (size_t k = 0; k < want.n; ++k) if (R.chance(1, 2)) want.d[k] = R.chance(1, 2) ? mUpper(want.d[k]) : mLower(want.d[k]); }
  else if (p < 75) { want = m; if (want.n) want.d[R.below(want.n)] = genChar(false); if (R.chance(1, 3)) want.push(genChar(false)); }
  else if (p < 85 && m.n) { size_t a = R.below(m.n); want.assign(m.d + a, m.n - a); }
  else genBytes(want, genLen(), false);
}

static bool op_cmp(int i) {
  Bytes want; genRelated(want, S[i].m);
  int a = mkArg(i, T0, &want);
  const Bytes& x = S[i].m; const Bytes& y = S[a].m;
  if (x.hasNul() || y.hasNul()) { dropTemps(); return false; }
  size_t len = (size_t)R.below((x.n > y.n ? x.n : y.n) + 3);
  ctxOp("compare-family", i, a, -1, false); hist.addf("v%d <=> ", i); histSlot(a); hist.addf(" (len %lu)\n", (unsigned long)len);
  int c = sgn(mCmp(x, y, false)), ci = sgn(mCmp(x, y, true)), cn = sgn(mCmpN(x, y, len, false)), cin = sgn(mCmpN(x, y, len, true));
  if (c == 0) cnt("cmp_equal"); if (ci == 0 && c != 0) cnt("cmp_equal_only_ignoring_case");
  String& s = str(i); String& o = str(a);
  int r;
  r = s.compare(o); QCHECK(sgn(r) == c, "compare returned %d, model sign %d", r, c);
  r = s.compare(o, len); QCHECK(sgn(r) == cn, "compare(len %lu) returned %d, model sign %d", (unsigned long)len, r, cn);
  r = s.compareIgnoreCase(o); QCHECK(sgn(r) == ci, "compareIgnoreCase returned %d, model sign %d", r, ci);
  r = s.compareIgnoreCase(o, len); QCHECK(sgn(r) == cin, "compareIgnoreCase(len %lu) returned %d, model sign %d", (unsigned long)len, r, cin);
  QCHECK((s < o) == (c < 0), "operator< wrong, model sign %d", c); QCHECK((s <= o) == (c <= 0), "operator<= wrong, model sign %d", c);
  QCHECK((s > o) == (c > 0), "operator> wrong, model sign %d", c); QCHECK((s >= o) == (c >= 0), "operator>= wrong, model sign %d", c);
  bool eic = x.n == y.n && ci == 0;
  QCHECK(s.equalsIgnoreCase(o) == eic, "equalsIgnoreCase returned %d, model %d", (int)!eic, (int)eic);
  QCHECK(s.equalsIgnoreCase(o, len) == (cin == 0), "equalsIgnoreCase(len %lu) wrong, model %d", (unsigned long)len, (int)(cin == 0));
  eViewed(i); eViewed(a);   // the compare family works on the C-string views of both sides
  afterOp(i, a);
  return true;
}

// pointer results are compared as offsets into the receiver's current buffer
static long offOf(int i, const char* p) {
  if (!p) return -1; const String& s = str(i);
#ifndef VERIF_NO_PRIVATE
  const char* base = s.data->str; size_t len = s.data->len;
#else
  // the buffer the pointer must lie in: the memory the harness attached this String object to, if the pointer lies there (the String then still refers to it); otherwise the
  // String has a buffer of its own, which is what the C-string view shows (taking it changes nothing then)
  size_t len = s.length(); const char* base = S[i].ap;
  if (!(base && p >= base && p <= base + len)) base = (const char*)s;
#endif
  if (p < base || p > base + len) failk("result", "returned pointer is outside the string's buffer");
  return (long)(p - base);
}
static bool op_find(int i) {
  const Bytes& m = S[i].m; size_t n = m.n; String& s = str(i);
  Bytes nd; genNeedle(nd, &m, false); const char* np = cstrOf(nd);
  u8 c = n && R.chance(2, 3) ? m.d[R.below(n)] : genChar(false); if (!c) c = g_alpha[0];
  size_t start = (size_t)R.below(n + 3);
  ctxOp("find-family", i, -1, -1, false); hist.addf("v%d.find*(0x%02x, ", i, c); histVal(nd); hist.addf(", start %lu)\n", (unsigned long)start);
  long r, e;
  // length-bounded searches (valid for any content)
  r = offOf(i, s.find((char)c)); e = mFindChar(m, 0, c); QCHECK(r == e, "find(char) at %ld, model %ld", r, e); if (e >= 0) cnt("find_hits");
  r = offOf(i, s.findLast((char)c)); e = mFindLastChar(m, c); QCHECK(r == e, "findLast(char) at %ld, model %ld", r, e);
  if (!m.hasNul()) {
    r = offOf(i, s.find((char)c, start)); e = start >= n ? -1 : mFindChar(m, start, c); QCHECK(r == e, "find(char,start %lu) at %ld, model %ld", (unsigned long)start, r, e);
    r = offOf(i, s.find(np)); e = mFind(m, 0, nd.d, nd.n); QCHECK(r == e, "find(str) at %ld, model %ld", r, e); if (e >= 0 && nd.n) cnt("find_hits");
    r = offOf(i, s.find(np, start)); e = start >= n ? -1 : mFind(m, start, nd.d, nd.n); QCHECK(r == e, "find(str,start %lu) at %ld, model %ld", (unsigned long)start, r, e);
    r = offOf(i, s.findOneOf(np)); e = mFindOneOf(m, 0, nd.d, nd.n); QCHECK(r == e, "findOneOf at %ld, model %ld", r, e);
    r = offOf(i, s.findOneOf(np, start)); e = start >= n ? -1 : mFindOneOf(m, start, nd.d, nd.n); QCHECK(r == e, "findOneOf(start %lu) at %ld, model %ld", (unsigned long)start, r, e);
    if (nd.n) { r = offOf(i, s.findLast(np)); e = mFindLast(m, nd.d, nd.n); QCHECK(r == e, "findLast(str) at %ld, model %ld", r, e); }   // empty needle: precondition (walks past the terminator)
    r = offOf(i, s.findLastOf(np)); e = mFindLastOf(m, nd.d, nd.n); QCHECK(r == e, "findLastOf at %ld, model %ld", r, e);
    eViewed(i);   // the C-string based searches take the view
  }
  afterOp(i);
  return true;
}

static bool op_prefix(int i) {
  const Bytes& m = S[i].m; Bytes want; unsigned p = (unsigned)R.below(100);
  if (p < 35) want.assign(m.d, (size_t)R.below(m.n + 1)); else if (p < 70) { size_t a = (size_t)R.below(m.n + 1); want.assign(m.d + a, m.n - a); } else genRelated(want, m);
  int a = mkArg(i, T0, &want);
  const Bytes& y = S[a].m;
  ctxOp("startsWith/endsWith", i, a, -1, false); hist.addf("v%d.startsWith/endsWith(", i); histSlot(a); hist.add(")\n");
  bool sw = y.n <= m.n && !memcmp(m.d, y.d, y.n), ew = y.n <= m.n && !memcmp(m.d + m.n - y.n, y.d, y.n);
  if (sw && y.n) cnt("prefix_true"); if (ew && y.n) cnt("suffix_true");
  bool r1 = str(i).startsWith(str(a)), r2 = str(i).endsWith(str(a));
  QCHECK(r1 == sw, "startsWith returned %d, model %d", (int)r1, (int)sw); QCHECK(r2 == ew, "endsWith returned %d, model %d", (int)r2, (int)ew);
  if (!m.hasNul() && !y.hasNul()) {   // static startsWith(const char*, String): C-string on the left
    const char* in = cstrOf(m); bool r3 = String::startsWith(in, str(a)); QCHECK(r3 == sw, "static startsWith returned %d, model %d", (int)r3, (int)sw);
  }
  afterOp(i, a);
  return true;
}

// static C-string helpers of the class, fed with exact-size copies of a variable's bytes
static bool op_static(int i) {
  const Bytes& m = S[i].m; if (m.hasNul()) return false;
  Bytes o; genRelated(o, m); Bytes nd; genNeedle(nd, &m, false);
  const char* in = cstrOf(m); const char* other = cstrOf(o); const char* np = cstrOf(nd);
  u8 c = m.n && R.chance(2, 3) ? m.d[R.below(m.n)] : genChar(false); if (!c) c = g_alpha[0];
  size_t len = (size_t)R.below((m.n > o.n ? m.n : o.n) + 3);
  ctxOp("static-cstring-helpers", -1, -1, -1, false); hist.addf("static helpers on copy of v%d, other ", i); histVal(o); hist.add(", needle "); histVal(nd); hist.add("\n");
  long r, e;
  QCHECK(String::length(in) == m.n, "length(cstr) = %lu, model %lu", (unsigned long)String::length(in), (unsigned long)m.n);
  r = sgn(String::compare(in, other)); e = sgn(mCmp(m, o, false)); QCHECK(r == e, "static compare sign %ld, model %ld", r, e);
  r = sgn(String::compare(in, other, len)); e = sgn(mCmpN(m, o, len, false)); QCHECK(r == e, "static compare(len) sign %ld, model %ld", r, e);
  r = sgn(String::compareIgnoreCase(in, other)); e = sgn(mCmp(m, o, true)); QCHECK(r == e, "static compareIgnoreCase sign %ld, model %ld", r, e);
  r = sgn(String::compareIgnoreCase(in, other, len)); e = sgn(mCmpN(m, o, len, true)); QCHECK(r == e, "static compareIgnoreCase(len) sign %ld, model %ld", r, e);
  const char* q;
  q = String::find(in, (char)c); r = q ? q - in : -1; e = mFindChar(m, 0, c); QCHECK(r == e, "static find(char) at %ld, model %ld", r, e);
  q = String::findLast(in, (char)c); r = q ? q - in : -1; e = mFindLastChar(m, c); QCHECK(r == e, "static findLast(char) at %ld, model %ld", r, e);
  q = String::find(in, np); r = q ? q - in : -1; e = mFind(m, 0, nd.d, nd.n); QCHECK(r == e, "static find(str) at %ld, model %ld", r, e);
  q = String::findOneOf(in, np); r = q ? q - in : -1; e = mFindOneOf(m, 0, nd.d, nd.n); QCHECK(r == e, "static findOneOf at %ld, model %ld", r, e);
  if (nd.n) { q = String::findLast(in, np); r = q ? q - in : -1; e = mFindLast(m, nd.d, nd.n); QCHECK(r == e, "static findLast(str) at %ld, model %ld", r, e); }
  q = String::findLastOf(in, np); r = q ? q - in : -1; e = mFindLastOf(m, nd.d, nd.n); QCHECK(r == e, "static findLastOf at %ld, model %ld", r, e);
  afterOp(-1);
  return true;
}

static bool op_capacity(int i) {
  ctxOp("capacity", i, -1, -1, false); hist.addf("v%d.capacity()\n", i);
  usize c = str(i).capacity();
  QCHECK(c == 0 || c >= S[i].m.n, "capacity() = %lu is below length() = %lu", (unsigned long)c, (unsigned long)S[i].m.n);
  afterOp(i);
  return true;
}


// ================================================================================================ resize + growth from the empty state classes
// Consumers of the const C-string view, run on the receiver DIRECTLY after an operation whose result bytes the harness has not written itself (resize): no mutable access
// (operator char*, detach, any mutating member) lies between the operation and these calls. S[i].m holds the bytes the String has right now (for a growing resize: adopted
// from the String, they are unspecified); no draw from the case's random stream depends on those bytes, so a replay re-executes the same calls whatever the heap held.
static int constConsumers(int i, const char* what) {
  char base[320]; snprintf(base, sizeof base, "%s", (const char*)ctx);
  const size_t n = S[i].m.n;
  unsigned k = (unsigned)R.below(6); size_t r1 = (size_t)R.below(1u << 30), r2 = (size_t)R.below(1u << 30), r3 = (size_t)R.below(1u << 30);
  Bytes want;
  { const Bytes& x = S[i].m;
    switch (k) {
    case 0: want = x; break;
    case 1: want.assign(x.d, r1 % (n + 1)); break;
    case 2: want = x; want.push(g_alpha[r2 % (size_t)g_nalpha]); break;
    case 3: want = x; if (n) want.d[r1 % n] = g_alpha[r2 % (size_t)g_nalpha]; break;
    case 4: { size_t a = r1 % (n + 1); want.assign(x.d + a, n - a); break; }
    default: genBytes(want, genLen()); break;
    } }
  int a = mkArg(i, T0, &want);
  const Bytes& x = S[i].m; const Bytes& y = S[a].m;
  Bytes nd; if (n) { size_t p = r1 % n, room = n - p; nd.assign(x.d + p, 1 + r2 % (room < 3 ? room : 3)); } else nd.push(g_alpha[r2 % (size_t)g_nalpha]);
  u8 c = n ? x.d[r3 % n] : g_alpha[0];
  size_t len = r3 % ((x.n > y.n ? x.n : y.n) + 3), start = r2 % (n + 3);
  setctxf("%s/then=const-consumers", base);
  noteMatrix(what, stateOfSlot(i), S[a].argcls, stateOfSlot(a));
  hist.addf("  const consumers on v%d (length %lu, %s): ==, startsWith/endsWith, find, compare ... against ", i, (unsigned long)n, what); if (a == i) hist.add("itself"); else hist.addf("%s of length %lu", argName[S[a].argcls], (unsigned long)y.n); hist.add("\n");
  const String& s = str(i); const String& o = str(a);
  long r, e;
  // length-based members (any content)
  bool eq = x.eq(y);
  QCHECK((s == o) == eq, "operator== wrong, model %d", (int)eq); QCHECK((s != o) == !eq, "operator!= wrong, model %d", (int)!eq);
  bool sw = y.n <= x.n && !memcmp(x.d, y.d, y.n), ew = y.n <= x.n && !memcmp(x.d + x.n - y.n, y.d, y.n);
  QCHECK(s.startsWith(o) == sw, "startsWith wrong, model %d", (int)sw); QCHECK(s.endsWith(o) == ew, "endsWith wrong, model %d", (int)ew);
  if (c) {   // (NUL as char needle is a precondition)
    r = offOf(i, s.find((char)c)); e = mFindChar(x, 0, c); QCHECK(r == e, "find(char) at %ld, model %ld", r, e);
    r = offOf(i, s.findLast((char)c)); e = mFindLastChar(x, c); QCHECK(r == e, "findLast(char) at %ld, model %ld", r, e);
  }
  cnt("const_consumer_rounds");
  // C-string based members (statement: NUL-free contents only)
  if (!x.hasNul() && !y.hasNul()) {
    int cs = sgn(mCmp(x, y, false)), ci = sgn(mCmp(x, y, true)), cn = sgn(mCmpN(x, y, len, false)), cin = sgn(mCmpN(x, y, len, true)); int q;
    q = s.compare(o); QCHECK(sgn(q) == cs, "compare returned %d, model sign %d", q, cs);
    q = s.compare(o, len); QCHECK(sgn(q) == cn, "compare(len %lu) returned %d, model sign %d", (unsigned long)len, q, cn);
    q = s.compareIgnoreCase(o); QCHECK(sgn(q) == ci, "compareIgnoreCase returned %d, model sign %d", q, ci);
    q = s.compareIgnoreCase(o, len); QCHECK(sgn(q) == cin, "compareIgnoreCase(len %lu) returned %d, model sign %d", (unsigned long)len, q, cin);
    QCHECK((s < o) == (cs < 0), "operator< wrong, model sign %d", cs); QCHECK((s >= o) == (cs >= 0), "operator>= wrong, model sign %d", cs);
    bool eic = x.n == y.n && ci == 0; QCHECK(s.equalsIgnoreCase(o) == eic, "equalsIgnoreCase wrong, model %d", (int)eic);
    if (c && !nd.hasNul()) {
      const char* np = cstrOf(nd);
      r = offOf(i, s.find((char)c, start)); e = start >= n ? -1 : mFindChar(x, start, c); QCHECK(r == e, "find(char,start %lu) at %ld, model %ld", (unsigned long)start, r, e);
      r = offOf(i, s.find(np)); e = mFind(x, 0, nd.d, nd.n); QCHECK(r == e, "find(str) at %ld, model %ld", r, e);
      r = offOf(i, s.find(np, start)); e = start >= n ? -1 : mFind(x, start, nd.d, nd.n); QCHECK(r == e, "find(str,start %lu) at %ld, model %ld", (unsigned long)start, r, e);
      r = offOf(i, s.findOneOf(np)); e = mFindOneOf(x, 0, nd.d, nd.n); QCHECK(r == e, "findOneOf at %ld, model %ld", r, e);
      r = offOf(i, s.findLast(np)); e = mFindLast(x, nd.d, nd.n); QCHECK(r == e, "findLast(str) at %ld, model %ld", r, e);
      r = offOf(i, s.findLastOf(np)); e = mFindLastOf(x, nd.d, nd.n); QCHECK(r == e, "findLastOf at %ld, model %ld", r, e);
      usize ts = 0; size_t ms = 0; Bytes tm; u8 sep = c; mToken(x, &sep, 1, ms, tm);
      const String tok = s.token((char)c, ts); const char* tv = tok; ++g_resultChecks;
      QCHECK(tok.length() == tm.n && !memcmp(tv, tm.d, tm.n) && tv[tm.n] == 0, "token(0x%02x) gave length %lu, model length %lu (or other bytes / no terminator)", c, (unsigned long)tok.length(), (unsigned long)tm.n);
      QCHECK(ts == ms, "token advanced start to %lu, model %lu", (unsigned long)ts, (unsigned long)ms);
    }
    cnt("const_consumer_rounds_cstring");
  }
  // the argument's view is taken in any case (the compare family above did it if it ran), so that what follows does not depend on the unspecified bytes
  { const char* ov = o; ++g_viewChecks; eViewed(a); if (o.length() != y.n || ov[y.n] != 0 || (y.n && memcmp(ov, y.d, y.n))) failk("argument-changed", "argument of the const queries differs from its model (length %lu, model %lu)", (unsigned long)o.length(), (unsigned long)y.n); }
  // the view once more: still terminated at length(), still the same bytes
  const char* v = s; ++g_viewChecks;
  if (s.length() != n) failk("receiver-content", "length() changed from %lu to %lu during const queries", (unsigned long)n, (unsigned long)s.length());
  if (v[n] != 0) failk("terminator", "const C-string view has byte 0x%02x instead of NUL at length() = %lu after const queries", (u8)v[n], (unsigned long)n);
  if (n && memcmp(v, x.d, n)) failk("receiver-content", "content changed during const queries (length %lu)", (unsigned long)n);
  setctxf("%s", base);
  return a;
}

// resize(n): length, then DIRECTLY the const C-string view (terminator at length(), preserved prefix), then (sampled) const consumers on the untouched result; only after that
// are the unspecified bytes of a growing resize written through the mutable view.
static bool doResize(int i, size_t n) {
  size_t old = S[i].m.n; int rs = stateOfSlot(i);
  ctxOp("resize", i, -1, -1, true); hist.addf("v%d.resize(%lu)%s\n", i, (unsigned long)n, n > old ? " then const view, then fill through operator char*" : " then const view");
  str(i).resize(n); eMutated(i);
  size_t keep = old < n ? old : n;
  if (str(i).length() != n) failk("receiver-content", "length() = %lu after resize(%lu)", (unsigned long)str(i).length(), (unsigned long)n);
  { const String& cs = str(i);
    const char* v; if (R.chance(1, 4)) v = str(i); else v = cs; ++g_viewChecks;   // operator const char*() const (3 of 4) or operator const char*() on the non-const object - nothing touched the String since resize() returned
    if (cs.length() != n) failk("receiver-content", "length() = %lu after taking the const C-string view of a string resized to %lu", (unsigned long)cs.length(), (unsigned long)n);
    if (v[n] != 0) failk("terminator", "const C-string view taken directly after resize(%lu) of a string of length %lu has byte 0x%02x instead of NUL at length()", (unsigned long)n, (unsigned long)old, (u8)v[n]);
    if (keep && memcmp(v, S[i].m.d, keep)) failk("receiver-content", "resize(%lu) did not preserve the first %lu bytes", (unsigned long)n, (unsigned long)keep);
    u8* t = (u8*)malloc(n + 1); if (n) memcpy(t, v, n); S[i].m.assign(t, n); free(t);   // the model adopts the (unspecified) exposed bytes until they are written below
  }
  cnt("resize_const_view_directly_checked");
  { static const char* const g[ST_N] = { "resize_grow_empty_default", "resize_grow_literal_attached", "resize_grow_attached_unterminated", "resize_grow_owned_exclusive", "resize_grow_owned_shared" };
    static const char* const z[ST_N] = { "resize_grow_from_length0_empty_default", "resize_grow_from_length0_literal_attached", "resize_grow_from_length0_attached_unterminated", "resize_grow_from_length0_owned_exclusive", "resize_grow_from_length0_owned_shared" };
    static const char* const sh[ST_N] = { "resize_shrink_empty_default", "resize_shrink_literal_attached", "resize_shrink_attached_unterminated", "resize_shrink_owned_exclusive", "resize_shrink_owned_shared" };
    if (n > old) { cnt(g[rs]); if (!old) { cnt(z[rs]); cnt("resize_grow_from_length0_const_view_checked"); } } else if (n < old) cnt(sh[rs]); }
  int arg = -1;
  if (R.chance(2, 3)) arg = constConsumers(i, n > old ? "resize-grow+const-consumers" : n < old ? "resize-shrink+const-consumers" : "resize-same+const-consumers");
  if (n > old) {   // bytes exposed by a growing resize are unspecified: write them through the mutable view before the history goes on
    char* w = str(i); eMutated(i);
    if (str(i).length() != n) failk("receiver-content", "length() = %lu after operator char*() on a string of length %lu", (unsigned long)str(i).length(), (unsigned long)n);
    for (size_t k = old; k < n; ++k) { u8 c = genChar(); w[k] = (char)c; S[i].m.d[k] = c; }
    if (w[n] != 0) failk("terminator", "mutable view has byte 0x%02x instead of NUL at length() = %lu", (u8)w[n], (unsigned long)n);
  }
  afterOp(i, arg);
  return true;
}
static bool op_resize(int i) {
  size_t old = S[i].m.n, n; unsigned p = (unsigned)R.below(100);
  if (p < 35) n = (size_t)R.below(old + 1); else if (p < 75) n = old + 1 + (size_t)R.below(8); else if (p < 90) n = genLen(); else n = old;
  return doResize(i, n);
}


// Growth from every EMPTY state class: put the variable into one of the empty representations, apply one growth operation, then run a consumer of the const view.
// (Every step is a full operation of its own: all variables are compared with their models after each.)
enum { EK_DEFAULT, EK_LITERAL, EK_CLEAR, EK_CLEARED_SHARING_COPY, EK_CLEARED_OWNED, EK_ATTACH_TERM, EK_ATTACH_UNTERM, EK_CAPACITY, EK_RESERVED, EK_RESIZE0, EK_ASSIGNED_EMPTY, EK_BUF0, EK_SHARED_EMPTY, EK_N };
static const char* const ekName[EK_N] = { "default-constructed", "literal-empty", "cleared-in-place", "cleared-copy-sharing-a-buffer", "cleared-owned-with-old-bytes", "attached-empty-terminated", "attached-empty-unterminated",
  "String(capacity)", "default-then-reserve", "resize(0)", "assigned-from-String()", "String(buf,0)", "empty-owned-shared" };
enum { GK_RESIZE, GK_APPEND_S, GK_APPEND_P, GK_APPEND_C, GK_PREPEND_S, GK_PREPEND_P, GK_JOIN, GK_RESERVE_APPEND, GK_PRINTF, GK_N };
static const char* const gkName[GK_N] = { "resize", "append(String)", "append(buf+len)", "append(char)", "prepend(String)", "prepend(buf+len)", "join", "reserve+append(char)", "printf" };
static bool op_emptyGrow(int i) {
  int kind = (int)R.below(EK_N); Bytes none;
  if ((kind == EK_CLEARED_SHARING_COPY || kind == EK_SHARED_EMPTY) && nvars < 2) kind = EK_DEFAULT;
  int j = i; if (nvars >= 2) { j = (int)R.below((u64)nvars - 1); if (j >= i) ++j; }
  hist.addf("# v%d: empty state '%s', then growth, then const consumer\n", i, ekName[kind]);
  switch (kind) {
  case EK_DEFAULT: ctxOp("String()", -1, -1, -1, false); hist.addf("v%d := String()\n", i); installNew(i, new String, none, -1, ST_EMPTY, 0, 0); afterOp(i); break;
  case EK_LITERAL: { int src = literalSrc(none); ctxOp("String(literal)", -1, -1, -1, false); hist.addf("v%d := String(literal \"\")\n", i); String* ns = newLiteral(g_src[src].blk, 1);
      installNew(i, ns, none, src, ST_LIT, 0, (const char*)g_src[src].blk); afterOp(i); break; }
  case EK_CLEAR: op_clear(i); break;
  case EK_CLEARED_SHARING_COPY: {
      S[j].argcls = A_VAR; ctxOp("operator=(String)", i, j, -1, true); hist.addf("v%d = ", i); histSlot(j); hist.add("\n");
      str(i) = str(j); S[i].m = S[j].m; eAssigned(i, j); afterOp(i, j);
      op_clear(i); break; }
  case EK_CLEARED_OWNED: { Bytes b; genBytes(b, 1 + genLen()); const char* p = cblock(b.d, b.n, false); ctxOp("String(buf+len)", -1, -1, -1, false); hist.addf("v%d := String(buf ", i); histVal(b); hist.add(")\n");
      installNew(i, new String(p, b.n), b, -1, ST_EXCL, ++g_eg, 0); afterOp(i);
      op_clear(i); break; }
  case EK_ATTACH_TERM: case EK_ATTACH_UNTERM: { bool term = kind == EK_ATTACH_TERM; size_t off; int si = attachSrc(none, term, off);
      ctxOp(term ? "attach/terminated" : "attach/unterminated", i, -1, -1, true); hist.addf("v%d.attach(%s \"\")\n", i, term ? "terminated" : "unterminated");
      str(i).attach((const char*)g_src[si].blk + off, 0); S[i].m = none; S[i].src = si; eSet(i, term ? ST_LIT : ST_UNTERM, (const char*)g_src[si].blk + off); afterOp(i); break; }
  case EK_CAPACITY: case EK_SHARED_EMPTY: { size_t cap = genLen(); ctxOp("String(capacity)", -1, -1, -1, false); hist.addf("v%d := String(capacity %lu)\n", i, (unsigned long)cap);
      installNew(i, new String((usize)cap), none, -1, ST_EXCL, ++g_eg, 0); afterOp(i);
      if (kind == EK_SHARED_EMPTY) { S[i].argcls = A_VAR; ctxOp("operator=(String)", j, i, -1, true); hist.addf("v%d = ", j); histSlot(i); hist.add("\n"); str(j) = str(i); S[j].m = none; eAssigned(j, i); afterOp(j, i); }
      break; }
  case EK_RESERVED: { ctxOp("String()", -1, -1, -1, false); hist.addf("v%d := String()\n", i); installNew(i, new String, none, -1, ST_EMPTY, 0, 0); afterOp(i);
      size_t cap = genLen(); ctxOp("reserve", i, -1, -1, true); hist.addf("v%d.reserve(%lu)\n", i, (unsigned long)cap); str(i).reserve(cap); eMutated(i);
      if (str(i).capacity() < cap) failk("capacity", "capacity() = %lu after reserve(%lu) on an empty string", (unsigned long)str(i).capacity(), (unsigned long)cap);
      afterOp(i); break; }
  case EK_RESIZE0: doResize(i, 0); break;
  case EK_ASSIGNED_EMPTY: { ctxOp("operator=(String)/from-empty-temporary", i, -1, -1, true); hist.addf("v%d = String()\n", i); str(i) = String(); S[i].m = none; eOwn(i); afterOp(i); break; }
  default: { const char* p = cblock("", 0, false); unsigned v = (unsigned)R.below(3);
      ctxOp(v == 0 ? "String(buf+len)" : v == 1 ? "String(len+char)" : "fromCString(buf+len)", -1, -1, -1, false); hist.addf("v%d := %s\n", i, v == 0 ? "String(buf, 0)" : v == 1 ? "String(0, 'x')" : "fromCString(buf, 0)");
      String* ns = v == 0 ? new String(p, 0) : v == 1 ? new String((usize)0, 'x') : new String(String::fromCString(p, 0));
      installNew(i, ns, none, -1, ST_EXCL, ++g_eg, 0); afterOp(i); break; }
  }
  if (S[i].m.n) harnessBug("emptyGrow: variable is not empty after setup %s", ekName[kind]);
  int g = (int)R.below(GK_N); if (g_nul && g == GK_PRINTF) g = GK_RESIZE;
  if (R.chance(1, 3)) g = GK_RESIZE;
  bool ran = true;
  switch (g) {
  case GK_RESIZE: { size_t n = R.chance(1, 2) ? 1 + (size_t)R.below(8) : genLen(); if (!n) n = 1; doResize(i, n); break; }
  case GK_APPEND_S: ran = op_appendS(i); break;
  case GK_APPEND_P: ran = op_appendP(i); break;
  case GK_APPEND_C: ran = op_appendC(i); break;
  case GK_PREPEND_S: ran = op_prependS(i); break;
  case GK_PREPEND_P: ran = op_prependP(i); break;
  case GK_JOIN: ran = op_join(i); break;
  case GK_RESERVE_APPEND: op_reserve(i); ran = op_appendC(i); break;
  default: ran = op_printf(i); break;
  }
  if (ran) { char item[96]; snprintf(item, sizeof item, "%s|%s", ekName[kind], gkName[g]); setItem("empty_state_x_growth_op", item); cnt("empty_state_growth_sequences"); if (S[i].m.n) cnt("empty_state_growth_sequences_grown"); }
  switch ((int)R.below(g_nul ? 3 : 5)) { case 0: op_eq(i); break; case 1: op_find(i); break; case 2: op_prefix(i); break; case 3: op_cmp(i); break; default: op_token(i); break; }
  return true;
}

// ================================================================================================ case driver
struct OpDef { const char* name; bool (*fn)(int); bool nulSafe; int w; };
static const OpDef OPS[] = {
  { "construct", op_construct, true, 6 }, { "assign", op_assign, true, 8 }, { "attach", op_attach, true, 6 }, { "detach", op_detach, true, 2 },
  { "appendS", op_appendS, true, 7 }, { "appendP", op_appendP, true, 4 }, { "appendC", op_appendC, true, 4 }, { "prependS", op_prependS, true, 7 }, { "prependP", op_prependP, true, 4 },
  { "resize", op_resize, true, 4 }, { "reserve", op_reserve, true, 3 }, { "clear", op_clear, true, 2 }, { "write", op_write, true, 4 },
  { "replaceC", op_replaceC, false, 4 }, { "replaceS", op_replaceS, false, 8 }, { "case", op_case, false, 4 }, { "trim", op_trim, false, 5 },
  { "printf", op_printf, false, 4 }, { "fromPrintf", op_fromPrintf, false, 3 }, { "join", op_join, true, 4 },
  { "substr", op_substr, true, 6 }, { "token", op_token, false, 5 }, { "plus", op_plus, true, 5 }, { "split", op_split, false, 5 },
  { "eq", op_eq, true, 4 }, { "cmp", op_cmp, false, 5 }, { "find", op_find, true, 5 }, { "prefix", op_prefix, true, 4 }, { "static", op_static, false, 2 }, { "capacity", op_capacity, true, 1 },
  { "emptyGrow", op_emptyGrow, true, 4 },
};
enum { NOPS = sizeof OPS / sizeof *OPS };
static char g_opCntName[NOPS][40];

static void pickAlphabet() {
  static const char* const pool[] = { "ab, ", "aAbB", "ab,;", "a b\t", "xX. ", "ab\n\r", "a,", "ab", "abc, ", "aA ,;", " \t\r\n\v", "abAB ,;xy" };
  const char* a = pool[R.below(sizeof pool / sizeof *pool)];
  if (R.chance(1, 2)) a = pool[R.below(5)];      // 4-letter alphabets dominate (needles/separators up to length 3 are enumerated over them)
  g_nalpha = (int)strlen(a); if (g_nalpha > 8) g_nalpha = 8; memcpy(g_alpha, a, (size_t)g_nalpha);
}

static void runCase(long idx) {
  Rng r(opts.seed, 6006, (u64)idx); g_r = &r;
  beginCase(idx);
  g_nul = r.chance(1, 8); g_bytesMode = r.chance(2, 5); pickAlphabet();
  static const int dens[] = { 2, 6, 20, 1000000 }; g_viewDen = dens[r.below(4)];
  nvars = (int)(r.chance(1, 6) ? r.range(2, 3) : r.range(4, 6));
  int nops = (int)r.range(50, 400);
  int w[NOPS], tot = 0;
  for (int k = 0; k < NOPS; ++k) { w[k] = r.chance(1, 4) ? 0 : OPS[k].w * (int)r.range(1, 4); if (g_nul && !OPS[k].nulSafe) w[k] = 0; tot += w[k]; }
  if (!w[0]) { w[0] = 2; tot += 2; } if (!w[1]) { w[1] = 3; tot += 3; }
  g_sawShared = g_mutShared = g_mutAttached = g_selfArg = false; g_fp = 0; g_nHeld = 0;
  hist.addf("# String history: %d variables, %d ops, alphabet \"", nvars, nops); hist.addEsc(g_alpha, (size_t)g_nalpha); hist.addf("\", bytes-mode %d, nul-mode %d, view 1/%d\n", (int)g_bytesMode, (int)g_nul, g_viewDen);
  for (int i = 0; i < NSLOT; ++i) { S[i].s = 0; S[i].src = -1; S[i].argcls = 0; S[i].m.assign("", 0); S[i].ek = ST_EMPTY; S[i].eg = 0; S[i].ap = 0; }
  setctx("String.String()/case-setup");
  for (int i = 0; i < nvars; ++i) S[i].s = new String;
  for (int i = 0; i < nvars; ++i) op_construct(i);
  if (g_nul) cnt("nul_mode_cases");
  for (int o = 0; o < nops; ++o) {
    int i = (int)r.below((u64)nvars);
    if (r.chance(1, 2)) { int off = (int)r.below((u64)nvars); for (int k = 0; k < nvars; ++k) { int j = (off + k) % nvars; if (stateOfSlot(j) != ST_EXCL) { i = j; break; } } }   // prefer receivers that do not own their buffer exclusively
    if (S[i].m.n > BIGLEN) { if (r.chance(1, 2)) op_clear(i); else { ctxOp("resize/shrink-big", i, -1, -1, true); size_t n = (size_t)r.below(20); hist.addf("v%d.resize(%lu)\n", i, (unsigned long)n); str(i).resize(n); S[i].m.assign(S[i].m.d, n); eMutated(i); afterOp(i); } continue; }
    int pick = (int)r.below((u64)tot), k = 0; while (pick >= w[k]) pick -= w[k++];
    if (OPS[k].fn(i)) cnt(g_opCntName[k]);
    for (int j = 0; j < nvars; ++j) statMax("max_length", (long)S[j].m.n);
  }
  // teardown: every variable is destroyed, then every source block of the case is compared one last time
  setctx("String.~String/case-teardown");
  for (int i = 0; i < nvars; ++i) { delete S[i].s; S[i].s = 0; }
  setctx("String/case-teardown/sources");
  for (size_t i = 0; i < g_src.n; ++i) checkSrc((int)i, "source-memory-written");
  freeAllSrc();
  if (idx % 397 == 0) sample("%.1200s", hist.c());
  bool nontrivial = g_sawShared && (g_mutShared || g_mutAttached);
  if (g_sawShared) cnt("cases_with_shared_buffers"); if (g_selfArg) cnt("cases_with_self_argument");
  endCase(g_fp, nontrivial);
}

// ================================================================================================ probes (minimal reproducers of listed findings)
static int probe(const char* key) {
  static u8 alpha[] = "ab, "; memcpy(g_alpha, alpha, 4); g_nalpha = 4; Rng r(1); g_r = &r;
  if (!strncmp(key, K_PREPEND_SELF, strlen(K_PREPEND_SELF))) {
    setctx(K_PREPEND_SELF); char* p = (char*)malloc(3); memcpy(p, "abc", 3);
    String s(p, 3); s.prepend(s);
    bool ok = s.length() == 6 && !memcmp((const char*)s, "abcabc", 7); free(p);
    if (!ok) fail(key, "s = \"abc\"; s.prepend(s) gives length %lu and not \"abcabc\"", (unsigned long)s.length());
    return 0;
  }
  if (!strncmp(key, K_REPLACE_UNTERM, strlen(K_REPLACE_UNTERM))) {
    setctx(K_REPLACE_UNTERM); char* p = (char*)malloc(4); memcpy(p, "abab", 4);      // attached to the first 3 of 4 bytes: "aba" followed by 'b', no terminator in the block
    String s; s.attach(p, 3); String nd(p + 1, 1), rp(p, 1);                              // replace "b" by "a"
    s.replace(nd, rp);
    bool ok = s.length() == 3 && !memcmp((const char*)s, "aaa", 4); free(p);
    if (!ok) fail(key, "attach(\"abab\", 3).replace(\"b\", \"a\") gives length %lu and not \"aaa\"", (unsigned long)s.length());
    return 0;
  }
  harnessBug("unknown probe %s", key);
}

static void caseTables() {
  // static char mapping over all 256 byte values (once per process)
  setctx("String.toLowerCase/toUpperCase(char)");
  for (int c = 0; c < 256; ++c) {
    if ((u8)String::toLowerCase((char)c) != mLower((u8)c)) failk("result", "toLowerCase(0x%02x) = 0x%02x", c, (u8)String::toLowerCase((char)c));
    if ((u8)String::toUpperCase((char)c) != mUpper((u8)c)) failk("result", "toUpperCase(0x%02x) = 0x%02x", c, (u8)String::toUpperCase((char)c));
    cnt("query_results_compared", 2);
  }
}

int main(int argc, char** argv) {
  init(argc, argv, "h_string");
  if (opts.probe) { int rc = probe(opts.probe); finish(); return rc; }
  if (strcmp(opts.mode, "hist")) harnessBug("unknown mode %s", opts.mode);
  for (int k = 0; k < NOPS; ++k) snprintf(g_opCntName[k], sizeof g_opCntName[k], "op_%s", OPS[k].name);
  caseTables();
  for (long idx = opts.start; idx < opts.start + opts.cases; ++idx) { if (!mine(idx)) continue; runCase(idx); }
  cnt("bytes_compared", g_bytesCompared); cnt("variable_checks", g_varChecks); cnt("view_terminator_checks", g_viewChecks); cnt("source_block_checks", g_srcChecks); cnt("result_string_checks", g_resultChecks);
  if (g_recAgree || g_recDiffer) { cnt("state_record_agrees_with_private_state", g_recAgree); cnt("state_record_differs_from_private_state", g_recDiffer); }
  leakCheck("String/leak");
  finish();
  return 0;
}
