// h_sha.cpp - C17: Sha256 / HMAC-SHA-256 against the standard.
// Oracle split: every chunking / hasher-state variant of one message is compared ONLINE with the library's own one-shot digest of that
// message; the one-shot digest (and every MAC) is RECORDED and compared OFFLINE with Python hashlib / hmac (vlib/sha_ref.py).
// Record lines (--rec):
//   H <msg hex> <digest hex>                 one-shot digest of an explicit message
//   P <s> <len> <digest hex>                 digest of the pattern message pat(s)[0..len)  (byte i = (j*167 + (j>>8)*13 + s) & 255, j = i & 0xffff)
//   M <key hex> <msg hex> <mac hex>          Sha256::hmac          N <ks> <klen> <ms> <mlen> <mac hex>   hmac with key = pat(ks)[0..klen), message = pat(ms)[0..mlen)
//   V <name> <digest-or-mac hex>             published test vector (expected value lives in sha_ref.py only)
//   A <class> <key hex> <msg hex> <mac hex>  Sha256::hmac with the result buffer overlapping an input buffer (key / msg = the inputs as they were before the call)
//   G <class> <msg hex> <digest hex>         Sha256::hash with the result buffer inside the data buffer
//   Q <case> <how> <s> <len> <digest hex>    digest of the huge message big(s)[0..len), byte i = blk(s)[i mod 2^20] (blk(s) = 2^20 bytes from splitmix64, see hugeBlock);
//                                            how = chunked (many update() calls of varied sizes) | one-shot (Sha256::hash on one contiguous mapping)
//   K <case> <s> <klen> <len> <mac hex>      Sha256::hmac with key = blk(s ^ 0x5bd1e995)[0..klen) and message = big(s)[0..len) (one contiguous mapping)
// modes: chunk-q / chunk-t (length 0..300 x 3 contents x all 2-way splits x sampled / all 3-way splits x hasher states), rand, big, hmac, hmac-rand, vectors,
//        alias (result buffer == / overlapping the key, message or data buffer; finalize() into the buffer of the last update()),
//        huge (plain -O2 build: messages whose BIT length needs more than 32 bits - around 2^29, 2^30 bytes, thorough also 2^31, 2^32, 2^33 bytes - fed in varied
//        pieces from a 2 MiB window or in one call from a mirrored mapping of one 1 MiB block, so that no case holds more than ~3 MiB of memory),
//        mt / mt-tsan (2..8 threads, each with hasher objects of its own and the static helpers, hashing at the same time; results compared with the
//        digests / MACs of the same inputs computed - and recorded as H/P/M/N lines - before the threads were started)
#include "vh.hpp"
#include <nstd/Crypto/Sha256.hpp>
#include <dlfcn.h>
#include <pthread.h>
#include <errno.h>
#include <sys/mman.h>
#include <sys/syscall.h>

using namespace vh;

// gcc links libasan and libubsan as two shared objects with separate copies of sanitizer_common: vh::init registers its death callback with the
// first one only, so a UBSan abort (-fno-sanitize-recover) would carry no @CTX / history. Register an equivalent callback with libubsan's copy.
static void ubsanDeath() {
  char path[512]; snprintf(path, sizeof path, "%s/replay.h_sha.ubsan.%ld.%d.txt", opts.out, curCase, (int)getpid());
  int fd = open(path, O_WRONLY | O_CREAT | O_TRUNC, 0666);
  if (fd >= 0) { char head[600]; int k = snprintf(head, sizeof head, "harness=h_sha\nmode=%s\nseed=%llu\ncase=%ld\nexclude=%s\nkey=(ubsan)\nctx=%s\n--- history of the failing case ---\n", opts.mode, (unsigned long long)opts.seed, curCase, opts.exclude ? opts.exclude : "", (const char*)ctx);
    if (k > 0 && write(fd, head, (size_t)k) < 0) {} if (hist.n && write(fd, hist.d, hist.n) < 0) {} close(fd); }
  char line[900]; int k = snprintf(line, sizeof line, "\n@CTX %s\n@DEATHREPLAY %s\n", (const char*)ctx, path);
  if (k > 0) { if (write(1, line, (size_t)k) < 0) {} if (write(2, line, (size_t)k) < 0) {} }
}
static void hookUbsan() {
  void* h = dlopen("libubsan.so.1", RTLD_NOLOAD | RTLD_NOW); if (!h) return;
  typedef void (*Setter)(void (*)(void)); Setter set = (Setter)dlsym(h, "__sanitizer_set_death_callback"); if (set) set(ubsanDeath);
}

static const char HEXD[] = "0123456789abcdef";
static void addHex(Text& t, const u8* p, size_t n) {
  t.reserve(t.n + 2 * n);
  for (size_t i = 0; i < n; ++i) { char c[2] = { HEXD[p[i] >> 4], HEXD[p[i] & 15] }; t.add(c, 2); }
}

// exactly-sized heap block: [p, p+n) is the whole block (for n == 0: one-past-the-end of a 1-byte block), so any over-read is an ASan report
struct Exact {
  u8* blk; u8* p; size_t n;
  Exact() : blk(0), p(0), n(0) {}
  explicit Exact(size_t k) : blk(0), p(0), n(0) { alloc(k); }
  ~Exact() { free(blk); }
  void alloc(size_t k) { free(blk); n = k; blk = (u8*)malloc(k ? k : 1); if (!blk) harnessBug("out of memory (%lu)", (unsigned long)k); p = k ? blk : blk + 1; }
  void set(const u8* src, size_t k) { alloc(k); if (k) memcpy(p, src, k); }
private:
  Exact(const Exact&); Exact& operator=(const Exact&);
};

typedef byte Digest[Sha256::digestSize];
// digest destination: exactly 32 heap bytes
struct Dig {
  u8* d;
  Dig() : d((u8*)malloc(32)) { memset(d, 0xa5, 32); }
  ~Dig() { free(d); }
  Digest& ref() { return *(Digest*)d; }
private:
  Dig(const Dig&); Dig& operator=(const Dig&);
};

// a hasher living in an exactly-sized heap block (so that a write past buffer[64] is an ASan report)
struct Hasher {
  Sha256* h;
  Hasher() { void* m = malloc(sizeof(Sha256)); h = new (m) Sha256; }
  ~Hasher() { free(h); }
private:
  Hasher(const Hasher&); Hasher& operator=(const Hasher&);
};

static u8 pat(u64 s, u64 i) { u64 j = i & 0xffff; return (u8)(j * 167 + (j >> 8) * 13 + s); }

static void fillContent(u8* p, size_t n, int kind, Rng& r) {
  if (kind == 1) memset(p, 0, n); else if (kind == 2) memset(p, 0xff, n); else for (size_t i = 0; i < n; ++i) p[i] = (u8)r.next();
}

static size_t g_mark = 0;   // hist position after the case header; the "current variant" line is rewritten in place
static void curVariant(const char* fmt, ...) __attribute__((format(printf, 1, 2)));
static void curVariant(const char* fmt, ...) { hist.n = g_mark; if (hist.d) hist.d[hist.n] = 0; char tmp[256]; va_list ap; va_start(ap, fmt); int k = vsnprintf(tmp, sizeof tmp, fmt, ap); va_end(ap); if (k > 0) hist.add(tmp, (size_t)k < sizeof tmp ? (size_t)k : sizeof tmp - 1); }

static void hexStr(const u8* d, size_t n, char* out) { for (size_t i = 0; i < n; ++i) { out[2 * i] = HEXD[d[i] >> 4]; out[2 * i + 1] = HEXD[d[i] & 15]; } out[2 * n] = 0; }

static void expectEq(const u8* got, const u8* want, const char* key, const char* what) {
  cnt("digests_compared_online");
  if (memcmp(got, want, 32)) { char a[65], b[65]; hexStr(got, 32, a); hexStr(want, 32, b); fail(key, "%s: digest %s differs from the one-shot digest %s of the same message", what, a, b); }
}

static void padClass(size_t L) {
  size_t m = L % 64; char b[32];
  snprintf(b, sizeof b, "len%%64=%s", m == 0 ? "0" : m < 55 ? "1..54" : m == 55 ? "55" : m == 56 ? "56" : m < 63 ? "57..62" : "63");
  setItem("padding_classes", b);
  setItem("block_classes", L < 64 ? "blocks=0" : L < 128 ? "blocks=1" : "blocks>=2");
}

// hasher state classes for reuse
enum { ST_FRESH = 0, ST_AFTER_FINALIZE = 1, ST_AFTER_RESET_MID = 2, ST_AFTER_RESET_CLEAN = 3 };
static const char* stName(int st) { static const char* n[] = { "fresh", "reuse-after-finalize", "reset-mid-message", "reset-after-construct" }; return n[st]; }

// bring `shared` (a long-lived hasher that has been finalized before) or a fresh one into the requested state and return it
struct HasherPool {
  Hasher* longLived; Hasher* tmp; Rng junk;
  HasherPool() : longLived(new Hasher), tmp(0), junk(99) { Dig d; setctx("Sha256.finalize/empty"); longLived->h->finalize(d.ref()); }
  ~HasherPool() { delete longLived; delete tmp; }
  Sha256* get(int st) {
    delete tmp; tmp = 0;
    switch (st) {
    case ST_FRESH: tmp = new Hasher; cnt("hasher_fresh"); return tmp->h;
    case ST_AFTER_FINALIZE: cnt("hasher_reuse_after_finalize"); return longLived->h;   // every previous use ended in finalize()
    case ST_AFTER_RESET_MID: { u8 g[150]; size_t k = 1 + (size_t)junk.below(150); for (size_t i = 0; i < k; ++i) g[i] = (u8)junk.next();
        setctx("Sha256.update/junk-before-reset"); longLived->h->update(g, k); setctx("Sha256.reset/mid-message"); longLived->h->reset(); cnt("hasher_reset_mid_message"); return longLived->h; }
    default: tmp = new Hasher; setctx("Sha256.reset/after-construct"); tmp->h->reset(); cnt("hasher_reset_after_construct"); return tmp->h;
    }
  }
};

static void hashPieces(Sha256* h, const u8* p, const size_t* cut, int ncut, size_t L, Digest& out) {
  // pieces [0,cut0) [cut0,cut1) ... [cut_last, L)
  size_t pos = 0;
  for (int i = 0; i <= ncut; ++i) { size_t e = i < ncut ? cut[i] : L; h->update(p + pos, e - pos); cnt("updates"); pos = e; }
  h->finalize(out); cnt("digests");
}

// ------------------------------------------------------------------------------------------------ chunking sweep
static void chunkSweep(bool all3) {
  const long NL = 301, total = NL * 3;
  long lo = opts.start, hi = opts.cases < 0 ? total : opts.start + opts.cases; if (hi > total) hi = total;
  HasherPool pool; Dig d0, d1;
  for (long idx = lo; idx < hi; ++idx) {
    if (!mine(idx)) continue;
    beginCase(idx);
    size_t L = (size_t)(idx / 3); int kind = (int)(idx % 3);
    Rng r(opts.seed, 1701, (u64)idx);
    Exact msg(L); fillContent(msg.p, L, kind, r);
    hist.addf("# chunk sweep: length %lu content %s\nmsg=", (unsigned long)L, kind == 0 ? "seeded" : kind == 1 ? "all-zero" : "all-0xff"); addHex(hist, msg.p, L); hist.add("\n"); g_mark = hist.n;
    padClass(L);
    // one-shot digest through the static helper; recorded for the offline comparison
    setctx("Sha256.hash/one-shot"); curVariant("Sha256::hash(msg, %lu)\n", (unsigned long)L);
    Sha256::hash(msg.p, L, d0.ref()); cnt("digests"); cnt("updates"); cnt("one_shot_recorded");
    { Text t; t.add("H "); addHex(t, msg.p, L); t.add(" "); addHex(t, d0.d, 32); t.add("\n"); rec("%s", t.c()); }
    u64 fp = mix(mix(L, (u64)kind), *(u64*)d0.d);
    // all two-way splits x hasher states
    for (size_t a = 0; a <= L; ++a) for (int st = 0; st < 4; ++st) {
      Sha256* h = pool.get(st);
      setctxf("Sha256.update/split2/%s", stName(st)); curVariant("%s hasher: update(msg,%lu) update(msg+%lu,%lu) finalize\n", stName(st), (unsigned long)a, (unsigned long)a, (unsigned long)(L - a));
      size_t cut[1] = { a }; hashPieces(h, msg.p, cut, 1, L, d1.ref());
      char key[96]; snprintf(key, sizeof key, "Sha256.update/split2/%s/digest", stName(st)); expectEq(d1.d, d0.d, key, hist.c() + g_mark); cnt("chunkings2");
    }
    // two-way splits with each piece in an exactly-sized block of its own (over-read of either piece is an ASan report)
    for (size_t a = 0; a <= L; ++a) {
      Exact p1, p2; p1.set(msg.p, a); p2.set(msg.p + a, L - a);
      Sha256* h = pool.get(a & 1 ? ST_FRESH : ST_AFTER_FINALIZE);
      setctx("Sha256.update/split2-separate-blocks"); curVariant("update(block of %lu) update(block of %lu) finalize\n", (unsigned long)a, (unsigned long)(L - a));
      h->update(p1.p, a); h->update(p2.p, L - a); h->finalize(d1.ref()); cnt("updates", 2); cnt("digests");
      expectEq(d1.d, d0.d, "Sha256.update/split2-separate-blocks/digest", hist.c() + g_mark); cnt("chunkings2_separate");
    }
    // single-byte updates
    { Sha256* h = pool.get(ST_AFTER_FINALIZE); setctx("Sha256.update/single-bytes"); curVariant("%lu single-byte updates, finalize\n", (unsigned long)L);
      for (size_t i = 0; i < L; ++i) h->update(msg.p + i, 1); cnt("updates", (long)L); h->finalize(d1.ref()); cnt("digests");
      expectEq(d1.d, d0.d, "Sha256.update/single-bytes/digest", hist.c() + g_mark); cnt("single_byte_runs"); }
    // zero-length updates interleaved (incl. a null pointer with size 0 and the one-past-the-end pointer)
    { Sha256* h = pool.get(ST_FRESH); setctx("Sha256.update/zero-length"); curVariant("update(0,0) update(msg,%lu) update(end,0) finalize\n", (unsigned long)L);
      h->update(0, 0); h->update(msg.p, 0); h->update(msg.p, L); h->update(msg.p + L, 0); h->finalize(d1.ref()); cnt("updates", 4); cnt("digests");
      expectEq(d1.d, d0.d, "Sha256.update/zero-length/digest", hist.c() + g_mark); cnt("zero_length_runs"); }
    // three-way splits: all, or the boundary ones + a 1000-sample
    size_t n3 = (L + 1) * (L + 2) / 2; Sha256* reused = pool.get(ST_AFTER_FINALIZE);
    if (all3 || n3 <= 1000) {
      for (size_t a = 0; a <= L; ++a) for (size_t b = a; b <= L; ++b) {
        setctx("Sha256.update/split3"); curVariant("update x3 at cuts %lu,%lu of %lu, finalize (reused hasher)\n", (unsigned long)a, (unsigned long)b, (unsigned long)L);
        size_t cut[2] = { a, b }; hashPieces(reused, msg.p, cut, 2, L, d1.ref());
        expectEq(d1.d, d0.d, "Sha256.update/split3/digest", hist.c() + g_mark); cnt("chunkings3");
      }
      if (all3) cnt("lengths_with_all_3way_splits");
    } else {
      for (int k = 0; k < 1000; ++k) {
        size_t a, b;
        if (k < 200) { static const size_t pts[] = { 0, 1, 55, 56, 63, 64, 65, 119, 120, 127, 128, 129, 191, 192 }; a = pts[r.below(14)]; b = pts[r.below(14)]; if (a > L) a = L; if (b > L) b = L; }
        else { a = (size_t)r.below(L + 1); b = (size_t)r.below(L + 1); }
        if (a > b) { size_t t = a; a = b; b = t; }
        Sha256* h = (k & 63) == 0 ? pool.get(ST_FRESH) : reused;
        setctx("Sha256.update/split3"); curVariant("update x3 at cuts %lu,%lu of %lu, finalize\n", (unsigned long)a, (unsigned long)b, (unsigned long)L);
        size_t cut[2] = { a, b }; hashPieces(h, msg.p, cut, 2, L, d1.ref());
        expectEq(d1.d, d0.d, "Sha256.update/split3/digest", hist.c() + g_mark); cnt("chunkings3");
        if ((k & 63) == 0) reused = pool.get(ST_AFTER_FINALIZE);
      }
    }
    cnt("bytes_in_messages", (long)L); statMax("max_message_length", (long)L);
    if (idx % 211 == 0) { curVariant("%s", ""); sample("%.300s ... all splits equal one-shot", hist.c()); }
    endCase(fp, L >= 1);
  }
  statMax("chunk_sweep_space", total);
}

// ------------------------------------------------------------------------------------------------ random lengths and k-way chunkings
static size_t pickLen(Rng& r) {
  switch (r.below(8)) {
  case 0: return (size_t)r.below(301);
  case 1: { size_t b = 64 * (size_t)r.range(1, 40); long d = r.range(-9, 9); return (size_t)((long)b + d); }           // around block multiples
  case 2: { static const size_t c[] = { 65535, 65536, 65537, 65536 + 55, 65536 + 56, 65536 + 64, 32768, 70000 }; return c[r.below(8)]; }
  case 3: return (size_t)r.range(301, 2048);
  case 4: return (size_t)r.range(2049, 20000);
  case 5: return (size_t)r.range(20000, 70000);
  default: return (size_t)r.range(0, 1024);
  }
}
static size_t pickChunk(Rng& r, size_t left) {
  size_t c;
  switch (r.below(7)) { case 0: c = 0; break; case 1: c = 1; break; case 2: c = 63 + (size_t)r.below(3); break; case 3: c = (size_t)r.below(130); break; case 4: c = 64 * (size_t)r.range(1, 8); break; case 5: c = left; break; default: c = (size_t)r.below(left + 1); break; }
  return c > left ? left : c;
}

static void randomMessages() {
  HasherPool pool; Dig d0, d1;
  for (long idx = opts.start; idx < opts.start + opts.cases; ++idx) {
    if (!mine(idx)) continue;
    beginCase(idx);
    Rng r(opts.seed, 1702, (u64)idx);
    size_t L = pickLen(r); bool pattern = L > 512; u64 s = r.below(256);
    Exact msg(L);
    if (pattern) for (size_t i = 0; i < L; ++i) msg.p[i] = pat(s, i); else fillContent(msg.p, L, (int)(r.below(6) < 4 ? 0 : r.below(3)), r);
    hist.addf("# random message: length %lu %s\n", (unsigned long)L, pattern ? "pattern" : "explicit");
    if (pattern) hist.addf("pattern s=%lu\n", (unsigned long)s); else { hist.add("msg="); addHex(hist, msg.p, L); hist.add("\n"); }
    g_mark = hist.n; padClass(L);
    setctx("Sha256.hash/one-shot"); Sha256::hash(msg.p, L, d0.ref()); cnt("digests"); cnt("updates"); cnt("one_shot_recorded");
    { Text t; if (pattern) t.addf("P %lu %lu ", (unsigned long)s, (unsigned long)L); else { t.add("H "); addHex(t, msg.p, L); t.add(" "); } addHex(t, d0.d, 32); t.add("\n"); rec("%s", t.c()); }
    u64 fp = mix((u64)L, *(u64*)d0.d); int variants = (int)r.range(3, 8);
    for (int v = 0; v < variants; ++v) {
      int st = (int)r.below(4); Sha256* h = pool.get(st);
      setctxf("Sha256.update/k-way/%s", stName(st)); hist.n = g_mark; hist.addf("%s hasher, updates:", stName(st));
      size_t pos = 0; int n = 0; int maxChunks = (int)r.range(1, 40);
      while (pos < L || n == 0) { size_t c = n + 1 >= maxChunks ? L - pos : pickChunk(r, L - pos); hist.addf(" %lu", (unsigned long)c); h->update(msg.p + pos, c); cnt("updates"); pos += c; ++n; }
      hist.add(" finalize\n"); h->finalize(d1.ref()); cnt("digests"); statMax("max_updates_per_message", n);
      char key[96]; snprintf(key, sizeof key, "Sha256.update/k-way/%s/digest", stName(st)); expectEq(d1.d, d0.d, key, hist.c() + g_mark); cnt("chunkings_k");
      fp = mix(fp, (u64)n * 4 + (u64)st);
    }
    cnt("bytes_in_messages", (long)L); statMax("max_message_length", (long)L);
    if (idx % 401 == 0) sample("%.400s", hist.c());
    endCase(fp, L >= 1);
  }
}

// ------------------------------------------------------------------------------------------------ long messages (bit-length field)
static void bigMessages() {
  // total sizes; the last two make the bit length exceed 2^32 resp. the byte count exceed 2^32
  static const u64 sizes[] = { 65535, 65536, 65537, (1ull << 20) + 17, (1ull << 26) + 3, (1ull << 29) + 5, (1ull << 32) + 9 };
  const long total = 7; long lo = opts.start, hi = opts.cases < 0 ? total : opts.start + opts.cases; if (hi > total) hi = total;
  const size_t W = 4 * 65536;
  for (long idx = lo; idx < hi; ++idx) {
    if (!mine(idx)) continue;
    beginCase(idx);
    Rng r(opts.seed, 1703, (u64)idx); u64 L = sizes[idx], s = r.below(256);
    hist.addf("# long message: pattern s=%lu length %llu, fed in random pieces\n", (unsigned long)s, (unsigned long long)L);
    Exact win(W); for (size_t i = 0; i < W; ++i) win.p[i] = pat(s, i);
    Hasher hh; Dig d0, d1; u64 pos = 0; long n = 0;
    setctx("Sha256.update/long-message");
    while (pos < L) { size_t off = (size_t)(pos & 0xffff); u64 c = (u64)r.range(1, (long)(W - off)); if (r.chance(1, 16)) c = (u64)r.range(0, 70); if (c > L - pos) c = L - pos; hh.h->update(win.p + off, (size_t)c); pos += c; ++n; }
    setctx("Sha256.finalize/long-message"); hh.h->finalize(d0.ref()); cnt("digests"); cnt("updates", n); cnt("long_messages");
    { Text t; t.addf("P %lu %llu ", (unsigned long)s, (unsigned long long)L); addHex(t, d0.d, 32); t.add("\n"); rec("%s", t.c()); } cnt("one_shot_recorded");
    if (L <= (1ull << 26) + 3) {   // also as one contiguous exactly-sized block
      Exact msg((size_t)L); for (size_t i = 0; i < (size_t)L; ++i) msg.p[i] = pat(s, i);
      setctx("Sha256.hash/long-message"); Sha256::hash(msg.p, (size_t)L, d1.ref()); cnt("digests"); cnt("updates");
      expectEq(d0.d, d1.d, "Sha256.update/long-message/digest", "long message fed in pieces");
    }
    if (L >> 29) setItem("bit_length_classes", L >> 32 ? "bytes>=2^32" : "bits>=2^32"); else setItem("bit_length_classes", L >> 16 ? "bits>=2^19" : "bits<2^19");
    statMax("max_message_length", (long)L); cnt("bytes_in_messages", (long)L);
    sample("%.200s", hist.c());
    endCase(mix(L, s), true);
  }
}

// ------------------------------------------------------------------------------------------------ huge messages (the 64-bit length field beyond 32 bits)
// The padding ends with the message length in BITS as a 64-bit big-endian number; its upper word is non-zero only from 2^29 bytes on, so nothing shorter can
// show whether the whole 64-bit count reaches the padding (and whether update() copes with a size that does not fit 32 bits). Content: one pseudo-random block of
// 2^20 bytes (splitmix64 stream seeded by s) repeated. Nothing is compared online: every digest / MAC is recorded and recomputed by hashlib / hmac offline.
// One case per process (the job has as many shards as cases); chunked cases need a 2 MiB window, the one-call cases map the same 1 MiB memory file again and again
// into one contiguous address range (read-only), so hash() / hmac() see one buffer of len bytes that costs 1 MiB of memory.
static const size_t HB = (size_t)1 << 20;
static void hugeBlock(u64 s, u8* out) {
  u64 x = s * 0x9e3779b97f4a7c15ULL + 0x632be59bd9b4e019ULL;
  for (size_t i = 0; i < HB; i += 8) { u64 z = Rng::splitmix(x); for (int b = 0; b < 8; ++b) out[i + b] = (u8)(z >> (8 * b)); }
}
struct Mirror {   // [p, p+len) reads as blk repeated
  u8* p; size_t span; int fd;
  Mirror(const u8* blk, u64 len) : p(0), span(0), fd(-1) {
    fd = (int)syscall(SYS_memfd_create, "h_sha_huge", 0u);
    if (fd < 0) { char path[512]; snprintf(path, sizeof path, "%s/h_sha.huge.%d.tmp", opts.out, (int)getpid()); fd = open(path, O_RDWR | O_CREAT | O_TRUNC, 0600); if (fd >= 0) unlink(path); }
    if (fd < 0) harnessBug("huge: no memory file (%s)", strerror(errno));
    for (size_t o = 0; o < HB; ) { ssize_t k = write(fd, blk + o, HB - o); if (k <= 0) harnessBug("huge: write to the memory file failed (%s)", strerror(errno)); o += (size_t)k; }
    span = (size_t)((len + HB - 1) / HB) * HB; if (!span) span = HB;
    void* base = mmap(0, span, PROT_NONE, MAP_PRIVATE | MAP_ANONYMOUS | MAP_NORESERVE, -1, 0);
    if (base == MAP_FAILED) harnessBug("huge: cannot reserve %lu bytes of address space (%s)", (unsigned long)span, strerror(errno));
    p = (u8*)base;
    for (size_t o = 0; o < span; o += HB) if (mmap(p + o, HB, PROT_READ, MAP_SHARED | MAP_FIXED, fd, 0) == MAP_FAILED) harnessBug("huge: mapping %lu of %lu failed (%s)", (unsigned long)(o / HB), (unsigned long)(span / HB), strerror(errno));
  }
  ~Mirror() { if (p) munmap(p, span); if (fd >= 0) close(fd); }
private:
  Mirror(const Mirror&); Mirror& operator=(const Mirror&);
};
enum { HG_CHUNKED = 0, HG_ONESHOT = 1, HG_HMAC = 2 };
struct HugeCase { int how; u64 base; long spread; };   // length = base + seeded [0, spread]; for HG_HMAC the length of the message (the inner hash runs over 64 bytes more)
static const HugeCase hugeCases[] = {
  // quick tier: the first 6
  { HG_CHUNKED, (1ull << 29) + 1, (1 << 20) + 64 },     // just above the first length whose bit count needs 33 bits
  { HG_CHUNKED, (1ull << 29), 0 },                      // exactly 2^32 bits
  { HG_CHUNKED, (1ull << 29) - 1, 0 },                  // the longest message whose bit count fits 32 bits
  { HG_ONESHOT, (1ull << 29), 1 << 20 },
  { HG_HMAC, (1ull << 29) - 64, 70000 },                // inner hash over 64 + len >= 2^29 bytes (the message itself may be shorter than 2^29)
  { HG_CHUNKED, (1ull << 30), 1 << 20 },                // bit 30 of the byte count
  // thorough tier
  { HG_CHUNKED, (1ull << 31), 1 << 20 },                // bit 31 of the byte count
  { HG_ONESHOT, (1ull << 31), 1 << 20 },                // one update() whose size has bit 31 set
  { HG_CHUNKED, (1ull << 32) - 1, 0 },                  // the longest message whose BYTE count fits 32 bits
  { HG_CHUNKED, (1ull << 32), 0 },
  { HG_CHUNKED, (1ull << 32) + 1, (1 << 20) + 64 },
  { HG_ONESHOT, (1ull << 32), 1 << 20 },                // one update() whose size does not fit 32 bits
  { HG_HMAC, (1ull << 32) - 64, 70000 },
  { HG_CHUNKED, (1ull << 33), 1 << 20 },
};
static void hugeClass(u64 hashed, char* out, size_t n) {   // by the most significant bit of the bit length of what one hasher consumed
  int msb = 63; u64 bits = hashed << 3; while (msb > 0 && !((bits >> msb) & 1)) --msb;
  if (msb < 32) snprintf(out, n, "bits<2^32"); else snprintf(out, n, "bits>=2^%d", msb);
}
static void hugeMessages() {
  const long total = (long)(sizeof hugeCases / sizeof *hugeCases); long lo = opts.start, hi = opts.cases < 0 ? total : opts.start + opts.cases; if (hi > total) hi = total;
  for (long idx = lo; idx < hi; ++idx) {
    if (!mine(idx)) continue;
    beginCase(idx);
    Rng r(opts.seed, 1709, (u64)idx); const HugeCase& hc = hugeCases[idx]; u64 s = r.below(1u << 30), L = hc.base + (u64)r.range(0, hc.spread);
    Exact win(2 * HB); hugeBlock(s, win.p); memcpy(win.p + HB, win.p, HB);
    Dig d0; char cls[32]; hugeClass(hc.how == HG_HMAC ? L + 64 : L, cls, sizeof cls);
    if (hc.how == HG_CHUNKED) {
      hist.addf("# huge message: block seed %llu, length %llu (%s), fed in pieces of varied sizes (1 byte .. 2 MiB, now and then 0..70 bytes)\n", (unsigned long long)s, (unsigned long long)L, cls);
      Hasher hh; u64 pos = 0; long n = 0; size_t maxc = 0;
      setctx("Sha256.update/huge-message");
      while (pos < L) {
        size_t off = (size_t)(pos & (HB - 1)); u64 c = (u64)r.range(1, (long)(2 * HB - off)); if (r.chance(1, 16)) c = (u64)r.range(0, 70);
        if (c > L - pos) c = L - pos; hh.h->update(win.p + off, (size_t)c); pos += c; ++n; if (c > maxc) maxc = (size_t)c;
      }
      setctx("Sha256.finalize/huge-message"); hh.h->finalize(d0.ref()); cnt("digests"); cnt("updates", n); cnt("huge_chunked"); cnt("huge_updates", n); statMax("huge_max_piece", (long)maxc);
      hist.addf("%ld update() calls, finalize\n", n);
      { Text t; t.addf("Q %ld chunked %llu %llu ", idx, (unsigned long long)s, (unsigned long long)L); addHex(t, d0.d, 32); t.add("\n"); rec("%s", t.c()); }
    } else {
      Mirror m(win.p, L);
      if (memcmp(m.p, win.p, HB) || memcmp(m.p + m.span - HB, win.p, HB)) harnessBug("huge: the mirrored mapping does not read as the block");
      if (hc.how == HG_ONESHOT) {
        hist.addf("# huge message: block seed %llu, length %llu (%s), Sha256::hash() on one contiguous buffer\n", (unsigned long long)s, (unsigned long long)L, cls);
        setctx("Sha256.hash/huge-message"); Sha256::hash(m.p, (size_t)L, d0.ref()); cnt("digests"); cnt("updates"); cnt("huge_one_shot");
        { Text t; t.addf("Q %ld one-shot %llu %llu ", idx, (unsigned long long)s, (unsigned long long)L); addHex(t, d0.d, 32); t.add("\n"); rec("%s", t.c()); }
      } else {
        size_t kl = r.chance(1, 4) ? (size_t)r.range(65, 200) : (size_t)r.below(65); Exact key(HB); hugeBlock(s ^ 0x5bd1e995, key.p); Exact k; k.set(key.p, kl);
        hist.addf("# huge hmac: block seed %llu, key length %lu, message length %llu (inner hash over %llu bytes: %s), one contiguous buffer\n", (unsigned long long)s, (unsigned long)kl, (unsigned long long)L, (unsigned long long)L + 64, cls);
        setctx("Sha256.hmac/huge-message"); Sha256::hmac(k.p, kl, m.p, (size_t)L, d0.ref()); cnt("hmacs"); cnt("huge_hmacs");
        setItem("hmac_key_classes", kl == 0 ? "key=0" : kl < 64 ? "key<block" : kl == 64 ? "key=block" : "key>block");
        { Text t; t.addf("K %ld %llu %lu %llu ", idx, (unsigned long long)s, (unsigned long)kl, (unsigned long long)L); addHex(t, d0.d, 32); t.add("\n"); rec("%s", t.c()); }
      }
    }
    cnt("huge_messages"); cnt("huge_results_recorded"); cnt("huge_mib_hashed", (long)(L >> 20)); setItem("huge_length_classes", cls); statMax("max_message_length", (long)L);
    { u64 hashed = hc.how == HG_HMAC ? L + 64 : L;   /* what one hasher consumed */ if (hashed >> 29) cnt("huge_messages_of_2p29_bytes_or_more"); if (hashed >> 32) cnt("huge_messages_of_2p32_bytes_or_more"); }
    sample("%.300s", hist.c());
    endCase(mix(L, s), true);
  }
  statMax("huge_case_space", total);
}

// ------------------------------------------------------------------------------------------------ HMAC
static void oneHmac(const u8* key, size_t kl, const u8* msg, size_t ml, long ks = -1, long ms = -1) {
  Exact k, m; k.set(key, kl); m.set(msg, ml); Dig mac;
  setctxf("Sha256.hmac/key%sblock", kl < 64 ? "<" : kl == 64 ? "=" : ">");
  hist.n = g_mark; hist.add("hmac key="); addHex(hist, k.p, kl); hist.add(" msg="); addHex(hist, m.p, ml); hist.add("\n");
  Sha256::hmac(k.p, kl, m.p, ml, mac.ref()); cnt("hmacs");
  setItem("hmac_key_classes", kl == 0 ? "key=0" : kl < 64 ? "key<block" : kl == 64 ? "key=block" : "key>block");
  Text t; if (ks >= 0) t.addf("N %ld %lu %ld %lu ", ks, (unsigned long)kl, ms, (unsigned long)ml); else { t.add("M "); addHex(t, k.p, kl); t.add(" "); addHex(t, m.p, ml); t.add(" "); }
  addHex(t, mac.d, 32); t.add("\n"); rec("%s", t.c());
  // independence of the call from its surroundings: the same call again must give the same MAC (hmac uses one hasher three times)
  Dig mac2; Sha256::hmac(k.p, kl, m.p, ml, mac2.ref());
  if (memcmp(mac.d, mac2.d, 32)) fail("Sha256.hmac/repeat/mac", "two identical hmac() calls returned different MACs");
  statMax("max_key_length", (long)kl);
}

static void hmacSweep() {
  static const size_t mls[] = { 0, 1, 55, 56, 63, 64, 65, 119, 120, 1000 };
  const long total = 201 * 3; long lo = opts.start, hi = opts.cases < 0 ? total : opts.start + opts.cases; if (hi > total) hi = total;
  for (long idx = lo; idx < hi; ++idx) {
    if (!mine(idx)) continue;
    beginCase(idx);
    size_t kl = (size_t)(idx / 3); int kind = (int)(idx % 3); Rng r(opts.seed, 1704, (u64)idx);
    u8 key[256]; fillContent(key, kl, kind, r);
    hist.addf("# hmac sweep: key length %lu content kind %d\n", (unsigned long)kl, kind); g_mark = hist.n;
    u64 fp = mix(kl, (u64)kind);
    for (unsigned i = 0; i < sizeof mls / sizeof *mls; ++i) { u8 msg[1000]; fillContent(msg, mls[i], (int)r.below(3) == 0 ? kind : 0, r); oneHmac(key, kl, msg, mls[i]); fp = mix(fp, msg[0]); }
    if (idx % 151 == 0) sample("%.300s", hist.c());
    endCase(fp, true);
  }
  statMax("hmac_sweep_space", total);
}

static void hmacRandom() {
  for (long idx = opts.start; idx < opts.start + opts.cases; ++idx) {
    if (!mine(idx)) continue;
    beginCase(idx);
    Rng r(opts.seed, 1705, (u64)idx);
    size_t kl = r.chance(1, 3) ? (size_t)r.range(60, 70) : r.chance(1, 2) ? (size_t)r.below(201) : (size_t)r.below(400);
    size_t ml = r.chance(1, 4) ? (size_t)r.range(50, 130) : r.chance(1, 2) ? (size_t)r.below(300) : (size_t)r.below(3000);
    u8 key[400], msg[3000]; long ks = -1, ms = -1;
    if (kl + ml > 300) { ks = (long)r.below(256); ms = (long)r.below(256); for (size_t i = 0; i < kl; ++i) key[i] = pat((u64)ks, i); for (size_t i = 0; i < ml; ++i) msg[i] = pat((u64)ms, i); }   // long inputs: pattern content, compact record
    else { fillContent(key, kl, (int)(r.below(5) ? 0 : r.below(3)), r); fillContent(msg, ml, (int)(r.below(5) ? 0 : r.below(3)), r); }
    hist.addf("# random hmac: key length %lu message length %lu%s\n", (unsigned long)kl, (unsigned long)ml, ks >= 0 ? " (pattern content)" : ""); g_mark = hist.n;
    oneHmac(key, kl, msg, ml, ks, ms);
    endCase(mix(mix(kl, ml), key[0] * 256 + msg[0]), true);
  }
}

// ------------------------------------------------------------------------------------------------ aliasing: the result buffer overlaps an input buffer
// hmac(key, n, msg, m, result) / hash(data, n, result) / update(p, n) + finalize(result) take their inputs by const pointer and the result by reference;
// nothing forbids `result` to be (part of) the memory an input was read from (in-place key ratchet k = HMAC(k, info), digest written over the hashed
// record). Oracle: the value computed from COPIES of the inputs taken before the call (non-aliased call, compared online; both values recorded for the
// offline hashlib/hmac comparison), and every byte of the shared block outside the 32 result bytes as well as the non-shared input are unchanged.
static const size_t aliasMsgLens[] = { 0, 1, 31, 32, 33, 55, 56, 63, 64, 65, 100, 119, 120, 200 };
static const int N_ALIAS_ML = (int)(sizeof aliasMsgLens / sizeof *aliasMsgLens);

static void checkOutside(const u8* blk, const u8* orig, size_t B, size_t ro, const char* api, const char* cls) {
  for (size_t i = 0; i < B; ++i) if ((i < ro || i >= ro + 32) && blk[i] != orig[i]) {
    char key[128]; snprintf(key, sizeof key, "%s/%s/stray-write", api, cls);
    fail(key, "byte %lu of the %lu-byte block shared by input and result (result at [%lu,%lu)) changed from 0x%02x to 0x%02x", (unsigned long)i, (unsigned long)B, (unsigned long)ro, (unsigned long)ro + 32, orig[i], blk[i]);
  }
  cnt("alias_bytes_outside_result_compared", (long)(B - 32));
}
static void checkConstInput(const Exact& in, const Exact& copy, const char* api, const char* cls, const char* what) {
  if (in.n && memcmp(in.p, copy.p, in.n)) { char key[128]; snprintf(key, sizeof key, "%s/%s/stray-write", api, cls); fail(key, "the %s (separate block of %lu bytes, passed as const) was modified by the call", what, (unsigned long)in.n); }
}
static const char* aliasKeyClass(size_t kl) { return kl < 32 ? "key<32-in-32-byte-buffer" : kl == 32 ? "key=32" : kl < 64 ? "32<key<64" : kl == 64 ? "key=64" : "key>64"; }

// one aliased hmac call. `content` fills the shared block of exactly B bytes; key / message are views [ko,ko+kl) / [mo,mo+ml) into it, or (offset < 0) separate
// exactly-sized blocks filled from sepKey / sepMsg; the result is written to [ro,ro+32) of the shared block.
static u64 aliasHmac(const char* cls, const u8* content, size_t B, long ko, size_t kl, long mo, size_t ml, size_t ro, const u8* sepKey, const u8* sepMsg) {
  if (ro + 32 > B || (ko >= 0 && (size_t)ko + kl > B) || (mo >= 0 && (size_t)mo + ml > B)) harnessBug("aliasHmac layout B=%lu ko=%ld kl=%lu mo=%ld ml=%lu ro=%lu", (unsigned long)B, ko, (unsigned long)kl, mo, (unsigned long)ml, (unsigned long)ro);
  Exact blk; blk.set(content, B); Exact sepK, sepM; const u8* kp; const u8* mp;
  if (ko >= 0) kp = blk.p + ko; else { sepK.set(sepKey, kl); kp = sepK.p; }
  if (mo >= 0) mp = blk.p + mo; else { sepM.set(sepMsg, ml); mp = sepM.p; }
  Exact kc, mc, orig; kc.set(kp, kl); mc.set(mp, ml); orig.set(blk.p, B);   // the inputs as they are when the call is made
  hist.n = g_mark; hist.add("hmac key="); addHex(hist, kc.p, kl); hist.add(" msg="); addHex(hist, mc.p, ml);
  hist.addf("\n  %s: shared block of %lu bytes, key %s", cls, (unsigned long)B, ko >= 0 ? "at " : "in a block of its own"); if (ko >= 0) hist.addf("[%ld,%lu)", ko, (unsigned long)ko + (unsigned long)kl);
  hist.addf(", message %s", mo >= 0 ? "at " : "in a block of its own"); if (mo >= 0) hist.addf("[%ld,%lu)", mo, (unsigned long)mo + (unsigned long)ml);
  hist.addf(", result at [%lu,%lu)\n", (unsigned long)ro, (unsigned long)ro + 32);
  // reference: the same call on the copies with a result buffer of its own
  Dig want; setctxf("Sha256.hmac/key%sblock", kl < 64 ? "<" : kl == 64 ? "=" : ">");
  Sha256::hmac(kc.p, kl, mc.p, ml, want.ref()); cnt("hmacs");
  setItem("hmac_key_classes", kl == 0 ? "key=0" : kl < 64 ? "key<block" : kl == 64 ? "key=block" : "key>block");
  { Text t; t.add("M "); addHex(t, kc.p, kl); t.add(" "); addHex(t, mc.p, ml); t.add(" "); addHex(t, want.d, 32); t.add("\n"); rec("%s", t.c()); }
  // the aliased call
  setctxf("Sha256.hmac/%s", cls);
  Sha256::hmac(kp, kl, mp, ml, *(Digest*)(blk.p + ro)); cnt("hmacs"); cnt("alias_hmac_calls");
  if (memcmp(blk.p + ro, want.d, 32)) {
    char a[65], b[65], key[128]; hexStr(blk.p + ro, 32, a); hexStr(want.d, 32, b); snprintf(key, sizeof key, "Sha256.hmac/%s/mac", cls);
    fail(key, "hmac with the result buffer overlapping an input returned %s; the MAC of the key and message as they were before the call (same call on copies, separate result buffer) is %s", a, b);
  }
  cnt("alias_results_compared");
  checkOutside(blk.p, orig.p, B, ro, "Sha256.hmac", cls);
  if (ko < 0) checkConstInput(sepK, kc, "Sha256.hmac", cls, "key"); if (mo < 0) checkConstInput(sepM, mc, "Sha256.hmac", cls, "message");
  { Text t; t.addf("A %s ", cls); addHex(t, kc.p, kl); t.add(" "); addHex(t, mc.p, ml); t.add(" "); addHex(t, blk.p + ro, 32); t.add("\n"); rec("%s", t.c()); }
  statMax("max_key_length", (long)kl);
  return *(u64*)want.d;
}

// one aliased one-shot hash: data = [dof, dof+L) of a block of exactly B bytes, result at [ro, ro+32)
static u64 aliasHash(const u8* content, size_t B, size_t dof, size_t L, size_t ro) {
  if (ro + 32 > B || dof + L > B) harnessBug("aliasHash layout");
  Exact blk; blk.set(content, B); Exact dc, orig; dc.set(blk.p + dof, L); orig.set(blk.p, B);
  hist.n = g_mark; hist.add("hash msg="); addHex(hist, dc.p, L); hist.addf("\n  result-aliases-data: block of %lu bytes, data at [%lu,%lu), result at [%lu,%lu)\n", (unsigned long)B, (unsigned long)dof, (unsigned long)(dof + L), (unsigned long)ro, (unsigned long)ro + 32);
  Dig want; setctx("Sha256.hash/one-shot"); Sha256::hash(dc.p, L, want.ref()); cnt("digests"); cnt("updates"); cnt("one_shot_recorded"); padClass(L);
  { Text t; t.add("H "); addHex(t, dc.p, L); t.add(" "); addHex(t, want.d, 32); t.add("\n"); rec("%s", t.c()); }
  setctx("Sha256.hash/result-aliases-data");
  Sha256::hash(blk.p + dof, L, *(Digest*)(blk.p + ro)); cnt("digests"); cnt("updates"); cnt("alias_hash_calls");
  if (memcmp(blk.p + ro, want.d, 32)) { char a[65], b[65]; hexStr(blk.p + ro, 32, a); hexStr(want.d, 32, b);
    fail("Sha256.hash/result-aliases-data/digest", "hash() with the result buffer inside the data buffer returned %s; the digest of the data as it was before the call is %s", a, b); }
  cnt("alias_results_compared"); cnt("digests_compared_online");
  checkOutside(blk.p, orig.p, B, ro, "Sha256.hash", "result-aliases-data");
  { Text t; t.add("G result-aliases-data "); addHex(t, dc.p, L); t.add(" "); addHex(t, blk.p + ro, 32); t.add("\n"); rec("%s", t.c()); }
  return *(u64*)want.d;
}

// update(...) x k, then finalize() into the buffer the last update() read from
static u64 aliasFinalize(HasherPool& pool, const u8* msg, size_t L, Rng& r) {
  int st = (int)r.below(4); int pieces = (int)r.range(1, 3); size_t cut[2] = { 0, 0 };
  for (int i = 0; i + 1 < pieces; ++i) cut[i] = (size_t)r.below(L + 1);
  if (pieces == 3 && cut[0] > cut[1]) { size_t t = cut[0]; cut[0] = cut[1]; cut[1] = t; }
  size_t lastOff = pieces == 1 ? 0 : cut[pieces - 2], lastLen = L - lastOff;
  // the last piece lives in a block of max(lastLen, 32) + extra bytes at offset po; the digest goes to [ro, ro+32) overlapping the piece where possible
  size_t extra = r.chance(1, 2) ? 0 : (size_t)r.below(20), B = (lastLen > 32 ? lastLen : 32) + extra, po = (size_t)r.below(B - lastLen + 1);
  size_t lo = po > 31 ? po - 31 : 0, hi = lastLen ? po + lastLen - 1 : po; if (hi > B - 32) hi = B - 32; if (lo > hi) lo = hi;
  size_t ro = r.chance(1, 3) ? (po <= B - 32 ? po : hi) : (size_t)r.range((long)lo, (long)hi);
  Exact blk(B); for (size_t i = 0; i < B; ++i) blk.p[i] = (u8)r.next(); if (lastLen) memcpy(blk.p + po, msg + lastOff, lastLen);
  Exact head; head.set(msg, lastOff); Exact orig; orig.set(blk.p, B);
  hist.n = g_mark; hist.add("msg="); addHex(hist, msg, L);
  hist.addf("\n  %s hasher, %d update(s), last update reads [%lu,%lu) of a %lu-byte block, finalize writes [%lu,%lu) of that block\n", stName(st), pieces, (unsigned long)po, (unsigned long)(po + lastLen), (unsigned long)B, (unsigned long)ro, (unsigned long)ro + 32);
  Exact mcopy; mcopy.set(msg, L); Dig want; setctx("Sha256.hash/one-shot"); Sha256::hash(mcopy.p, L, want.ref()); cnt("digests"); cnt("updates"); cnt("one_shot_recorded"); padClass(L);
  { Text t; t.add("H "); addHex(t, mcopy.p, L); t.add(" "); addHex(t, want.d, 32); t.add("\n"); rec("%s", t.c()); }
  // control: the same hasher state and the same updates with a digest buffer of its own (a hasher-state defect must not be reported under the aliasing key)
  { Sha256* c = pool.get(st); Dig ctl; setctxf("Sha256.update/k-way/%s", stName(st));
    if (pieces == 3) { c->update(head.p, cut[0]); c->update(head.p + cut[0], cut[1] - cut[0]); cnt("updates", 2); } else if (pieces == 2) { c->update(head.p, cut[0]); cnt("updates"); }
    c->update(blk.p + po, lastLen); c->finalize(ctl.ref()); cnt("updates"); cnt("digests");
    char key[96]; snprintf(key, sizeof key, "Sha256.update/k-way/%s/digest", stName(st)); expectEq(ctl.d, want.d, key, "control run before the aliased finalize()"); }
  Sha256* h = pool.get(st);
  setctx("Sha256.update/before-aliased-finalize");
  if (pieces == 3) { h->update(head.p, cut[0]); h->update(head.p + cut[0], cut[1] - cut[0]); cnt("updates", 2); } else if (pieces == 2) { h->update(head.p, cut[0]); cnt("updates"); }
  h->update(blk.p + po, lastLen); cnt("updates");
  setctx("Sha256.finalize/result-aliases-last-update-input");
  h->finalize(*(Digest*)(blk.p + ro)); cnt("digests"); cnt("alias_finalize_calls");
  if (memcmp(blk.p + ro, want.d, 32)) { char a[65], b[65]; hexStr(blk.p + ro, 32, a); hexStr(want.d, 32, b);
    fail("Sha256.finalize/result-aliases-last-update-input/digest", "finalize() into the buffer the last update() read from returned %s; the one-shot digest of the message is %s", a, b); }
  cnt("alias_results_compared"); cnt("digests_compared_online");
  checkOutside(blk.p, orig.p, B, ro, "Sha256.finalize", "result-aliases-last-update-input");
  // the hasher must be reusable afterwards like after any finalize()
  Dig again; setctx("Sha256.update/after-aliased-finalize"); h->update(mcopy.p, L); h->finalize(again.ref()); cnt("updates"); cnt("digests");
  expectEq(again.d, want.d, "Sha256.update/after-aliased-finalize/digest", "hasher reused after a finalize() into its last input buffer");
  return *(u64*)want.d;
}

static size_t aliasKeyLen(Rng& r) { return r.chance(1, 3) ? (size_t)r.range(28, 36) : r.chance(1, 2) ? (size_t)r.range(60, 70) : (size_t)r.below(201); }
static size_t aliasMsgLen(Rng& r) { return r.chance(1, 2) ? aliasMsgLens[r.below(N_ALIAS_ML)] : (size_t)r.below(300); }
// a result offset whose 32 bytes overlap [off, off+len) inside a block of B bytes (len == 0: anywhere near)
static size_t overlapOffset(Rng& r, size_t B, size_t off, size_t len, bool& overlaps) {
  size_t lo = off > 31 ? off - 31 : 0, hi = len ? off + len - 1 : off; if (hi > B - 32) hi = B - 32; if (lo > hi) lo = hi;
  size_t ro; switch (r.below(4)) { case 0: ro = off <= B - 32 ? off : hi; break; case 1: ro = hi; break; case 2: ro = lo; break; default: ro = (size_t)r.range((long)lo, (long)hi); break; }
  overlaps = len && ro < off + len && off < ro + 32; return ro;
}

static void aliasing() {
  HasherPool pool;
  for (long idx = opts.start; idx < opts.start + opts.cases; ++idx) {
    if (!mine(idx)) continue;
    beginCase(idx);
    Rng r(opts.seed, 1706, (u64)idx); int kind = (int)(idx % 6); long sub = idx / 6; u64 fp = (u64)kind;
    u8 content[700], sepK[256], sepM[320]; int ck = (int)(r.below(5) ? 0 : r.below(3));
    fillContent(content, sizeof content, ck, r); fillContent(sepK, sizeof sepK, 0, r); fillContent(sepM, sizeof sepM, 0, r);
    switch (kind) {
    case 0: {   // result buffer == key buffer: key lengths 0..200 in turn; the buffer is max(key length, 32) bytes, exactly
      size_t kl = (size_t)(sub % 201), B = kl > 32 ? kl : 32;
      hist.addf("# aliasing: hmac result written over the start of the key buffer, key length %lu\n", (unsigned long)kl); g_mark = hist.n;
      for (int i = 0; i < N_ALIAS_ML; ++i) { fp = mix(fp, aliasHmac("result-aliases-key", content, B, 0, kl, -1, aliasMsgLens[i], 0, 0, sepM)); cnt("alias_hmac_result_is_key_buffer"); }
      setItem("alias_key_classes", aliasKeyClass(kl)); break; }
    case 1: {   // result overlapping the key at arbitrary offsets inside a larger block
      hist.add("# aliasing: hmac result overlapping the key buffer at an arbitrary offset\n"); g_mark = hist.n;
      for (int i = 0; i < 6; ++i) {
        size_t kl = aliasKeyLen(r), B = (kl > 32 ? kl : 32) + (r.chance(1, 2) ? 0 : (size_t)r.below(41)), ko = (size_t)r.below(B - kl + 1); bool ov; size_t ro = overlapOffset(r, B, ko, kl, ov);
        fp = mix(fp, aliasHmac("result-aliases-key", content, B, (long)ko, kl, -1, aliasMsgLen(r), ro, 0, sepM));
        cnt(ov ? "alias_hmac_result_overlaps_key" : "alias_hmac_result_next_to_key"); if (ov) { setItem("alias_key_classes", aliasKeyClass(kl)); if (ro != ko) cnt("alias_hmac_result_in_middle_of_key"); }
      }
      break; }
    case 2: {   // result inside / overlapping the message buffer
      hist.add("# aliasing: hmac result overlapping the message buffer\n"); g_mark = hist.n;
      for (int i = 0; i < 6; ++i) {
        size_t ml = r.chance(1, 4) ? (size_t)r.below(32) : r.chance(1, 2) ? (size_t)r.range(32, 130) : (size_t)r.range(32, 600), B = (ml > 32 ? ml : 32) + (r.chance(1, 2) ? 0 : (size_t)r.below(41)), mo = (size_t)r.below(B - ml + 1);
        bool ov; size_t ro = overlapOffset(r, B, mo, ml, ov);
        fp = mix(fp, aliasHmac("result-aliases-message", content, B, -1, aliasKeyLen(r), (long)mo, ml, ro, sepK, 0));
        cnt(ov ? "alias_hmac_result_overlaps_message" : "alias_hmac_result_next_to_message"); if (ov && ml >= 32) cnt("alias_hmac_result_in_message_of_32_or_more"); if (ov && ro != mo) cnt("alias_hmac_result_in_middle_of_message");
      }
      break; }
    case 3: {   // key, message and result all views into one block (key and message may overlap each other as well)
      hist.add("# aliasing: hmac key, message and result in one block\n"); g_mark = hist.n;
      for (int i = 0; i < 6; ++i) {
        size_t B = (size_t)r.range(32, 400), kl = (size_t)r.below((B < 200 ? B : 200) + 1), ml = (size_t)r.below(B + 1); if (r.chance(1, 4)) kl = kl % 65;
        size_t ko = (size_t)r.below(B - kl + 1), mo = (size_t)r.below(B - ml + 1); bool ovk, ovm; size_t ro = r.chance(1, 2) ? overlapOffset(r, B, ko, kl, ovk) : overlapOffset(r, B, mo, ml, ovm);
        ovk = kl && ro < ko + kl && ko < ro + 32; ovm = ml && ro < mo + ml && mo < ro + 32;
        fp = mix(fp, aliasHmac("result-aliases-key-and-message", content, B, (long)ko, kl, (long)mo, ml, ro, 0, 0));
        cnt("alias_hmac_shared_block"); if (ovk && ovm) cnt("alias_hmac_result_overlaps_key_and_message");
      }
      break; }
    case 4: {   // one-shot hash with the digest written into the data buffer: lengths 0..300 in turn
      size_t L = (size_t)(sub % 301), B = L > 32 ? L : 32;
      hist.addf("# aliasing: hash() result written into the data buffer, length %lu\n", (unsigned long)L); g_mark = hist.n;
      fp = mix(fp, aliasHash(content, B, 0, L, 0)); fp = mix(fp, aliasHash(content, B, 0, L, B - 32)); fp = mix(fp, aliasHash(content, B, 0, L, (size_t)r.below(B - 32 + 1)));
      { size_t B2 = B + (size_t)r.below(41), dof = (size_t)r.below(B2 - L + 1); bool ov; size_t ro = overlapOffset(r, B2, dof, L, ov); fp = mix(fp, aliasHash(content, B2, dof, L, ro)); }
      { size_t L2 = (size_t)r.range(301, 700); fp = mix(fp, aliasHash(content, L2, 0, L2, (size_t)r.below(L2 - 32 + 1))); }
      cnt("alias_hash_result_in_data", 5); cnt("bytes_in_messages", (long)L); break; }
    default: {  // finalize() into the buffer that the last update() consumed
      hist.add("# aliasing: finalize() into the input buffer of the last update()\n"); g_mark = hist.n;
      for (int i = 0; i < 6; ++i) { size_t L = r.chance(1, 3) ? aliasMsgLens[r.below(N_ALIAS_ML)] : r.chance(1, 2) ? (size_t)r.below(130) : (size_t)r.below(700); fp = mix(fp, aliasFinalize(pool, content, L, r)); cnt("alias_finalize_into_last_input"); }
      break; }
    }
    if (idx % 499 < 6 && idx / 499 < 3) sample("%.500s", hist.c());
    endCase(fp, true);
  }
}

// ------------------------------------------------------------------------------------------------ several threads hashing at the same time
// A Sha256 object is plain data (8 state words, count, block buffer) and hash()/hmac() work on a local object: hashers that are not shared between threads
// are independent, so every result computed while other threads hash must equal the result of the same call computed while the process was single-threaded.
// Case = 2..8 threads (case index mod 7), each with 4..10 seeded work items of its own (one-shot hash(), a long-lived hasher of its own fed in 1..3 pieces with
// reset() in between, a fresh hasher per call fed in up to 6 pieces, hmac(), the RFC 2104 construction spelled out with two hashers of its own) and as many rounds
// over them as make 6000..20000 compressed blocks per thread (equal work, so that all threads hash for the whole duration of the case). Phase 1 (main thread only): the expected value of every item through one-shot hash()/hmac(), recorded for the offline hashlib/hmac comparison, and
// two control rounds of every thread's work list run serially. Phase 2: all threads are released by one barrier.
// Threads touch only their own MtThread (plus relaxed-atomic progress counters); vh::cnt/setItem/fail are called by the main thread after joining.
enum { MT_HASH = 0, MT_REUSED = 1, MT_FRESH = 2, MT_HMAC = 3, MT_HMAC_PARTS = 4, MT_KINDS = 5, MT_MAXT = 8 };
static const char* const mtName[MT_KINDS] = { "hash()", "own reused hasher, chunked", "fresh hasher per call, chunked", "hmac()", "RFC 2104 construction from two own hashers" };
static const char* const mtKey[MT_KINDS] = { "Sha256.hash/other-threads-hashing/digest", "Sha256.update/other-threads-hashing/reused-hasher/digest", "Sha256.update/other-threads-hashing/fresh-hasher/digest",
                                              "Sha256.hmac/other-threads-hashing/mac", "Sha256.update/other-threads-hashing/hmac-construction/mac" };
static const char* const mtCtlKey[MT_KINDS] = { "Sha256.hash/mt-control-single-threaded/digest", "Sha256.update/mt-control-single-threaded/reused-hasher/digest", "Sha256.update/mt-control-single-threaded/fresh-hasher/digest",
                                                 "Sha256.hmac/mt-control-single-threaded/mac", "Sha256.hmac+update/mt-control-single-threaded/hmac()-differs-from-RFC-2104-construction-from-own-hashers/mac" };
static const char* const mtCounter[MT_KINDS] = { "mt_static_hash_digests", "mt_reused_hasher_digests", "mt_fresh_hasher_digests", "mt_static_hmacs", "mt_hmacs_from_own_hashers" };

struct MtItem { int kind; Exact msg, key; u8 want[32]; MtItem() : kind(0) {} };
struct MtThread {
  int id, nthreads, rounds, nitems; bool serial; u64 rseed; MtItem** items; pthread_barrier_t* bar; MtThread* all;
  long progress;                                   // rounds completed; read by the other threads (__atomic, relaxed)
  long results[MT_KINDS], wrong[MT_KINDS], updates, overlapRounds;
  int badItem[MT_KINDS], badRound[MT_KINDS]; u8 badGot[MT_KINDS][32];
};

static void mtCompute(MtThread& t, Hasher& own, Rng& r, const MtItem& it, int round, Digest& out) {
  const u8* m = it.msg.p; size_t L = it.msg.n;
  switch (it.kind) {
  case MT_HASH: Sha256::hash(m, L, out); ++t.updates; break;
  case MT_REUSED: {
    if ((round & 3) == 1) { u8 g[70]; size_t k = 1 + (size_t)r.below(70); for (size_t i = 0; i < k; ++i) g[i] = (u8)r.next(); own.h->update(g, k); own.h->reset(); ++t.updates; }   // abandon a message half-way
    size_t a = (size_t)r.below(L + 1), b = (size_t)r.below(L + 1); if (a > b) { size_t x = a; a = b; b = x; } int pieces = 1 + (int)r.below(3);
    if (pieces == 1) { own.h->update(m, L); } else if (pieces == 2) { own.h->update(m, a); own.h->update(m + a, L - a); } else { own.h->update(m, a); own.h->update(m + a, b - a); own.h->update(m + b, L - b); }
    t.updates += pieces; own.h->finalize(out); break; }
  case MT_FRESH: { Hasher h; size_t pos = 0; int n = 0; while (pos < L || n == 0) { size_t c = n >= 5 ? L - pos : pickChunk(r, L - pos); h.h->update(m + pos, c); pos += c; ++n; } t.updates += n; h.h->finalize(out); break; }
  case MT_HMAC: Sha256::hmac(it.key.p, it.key.n, m, L, out); break;
  default: {   // RFC 2104: H((K0 ^ opad) || H((K0 ^ ipad) || text)), K0 = key padded with zeros to the block size, or H(key) padded when the key is longer than a block
    u8 k0[64]; memset(k0, 0, sizeof k0); size_t kl = it.key.n;
    if (kl > 64) { own.h->update(it.key.p, kl); own.h->finalize(*(Digest*)k0); ++t.updates; } else if (kl) memcpy(k0, it.key.p, kl);
    u8 ipad[64], opad[64]; for (int i = 0; i < 64; ++i) { ipad[i] = (u8)(k0[i] ^ 0x36); opad[i] = (u8)(k0[i] ^ 0x5c); }
    Dig inner; own.h->update(ipad, 64); own.h->update(m, L); own.h->finalize(inner.ref());
    Hasher outer; outer.h->update(opad, 64); outer.h->update(inner.d, 32); outer.h->finalize(out); t.updates += 4; break; }
  }
}

static void* mtWorker(void* arg) {
  MtThread& t = *(MtThread*)arg; Hasher own; Dig d; Rng r(t.rseed); long seen[MT_MAXT];
  if (!t.serial) { pthread_barrier_wait(t.bar); for (int o = 0; o < t.nthreads; ++o) seen[o] = __atomic_load_n(&t.all[o].progress, __ATOMIC_RELAXED); }
  for (int round = 0; round < t.rounds; ++round) {
    for (int i = 0; i < t.nitems; ++i) {
      const MtItem& it = *t.items[i]; int k = it.kind;
      mtCompute(t, own, r, it, round, d.ref()); ++t.results[k];
      if (memcmp(d.d, it.want, 32)) { if (!t.wrong[k]++) { t.badItem[k] = i; t.badRound[k] = round; memcpy(t.badGot[k], d.d, 32); } }
    }
    if (!t.serial) {   // did another thread complete a round while this one did? (evidence that the threads really ran at the same time)
      __atomic_store_n(&t.progress, (long)round + 1, __ATOMIC_RELAXED); bool adv = false;
      for (int o = 0; o < t.nthreads; ++o) if (o != t.id) { long p = __atomic_load_n(&t.all[o].progress, __ATOMIC_RELAXED); if (p != seen[o]) { seen[o] = p; adv = true; } }
      if (adv) ++t.overlapRounds;
    }
  }
  return 0;
}

static void mtReset(MtThread& t, bool serial) {
  t.serial = serial; t.progress = 0; t.updates = t.overlapRounds = 0;
  for (int k = 0; k < MT_KINDS; ++k) { t.results[k] = t.wrong[k] = 0; t.badItem[k] = t.badRound[k] = -1; }
}

static size_t mtLen(Rng& r) {
  static const size_t pts[] = { 0, 1, 55, 56, 63, 64, 65, 119, 120, 127, 128, 129 };
  switch (r.below(8)) {
  case 0: case 1: case 2: return pts[r.below(12)];
  case 3: case 4: return (size_t)r.below(301);
  case 5: return (size_t)r.range(301, 2048);
  case 6: return (size_t)r.range(2049, 9000);
  default: return r.chance(1, 4) ? (size_t)r.range(9000, 20000) : (size_t)r.range(0, 1024);
  }
}

static bool g_mtStop = false;
// In the ThreadSanitizer build the process must end normally for the driver to read the TSan log (it skips the log of a process that exited 3), so there the
// oracle failure is reported with the same protocol as vh::fail (replay file + @VIOL line) but without exiting; the case loop stops after this case.
static void mtViolation(const char* key, const char* msg) {
#ifdef __SANITIZE_THREAD__
  char path[512]; snprintf(path, sizeof path, "%s/replay.h_sha.%ld.%d.txt", opts.out, curCase, (int)getpid());
  int fd = open(path, O_WRONLY | O_CREAT | O_TRUNC, 0666);
  if (fd >= 0) { Text head; head.addf("harness=h_sha\nmode=%s\nseed=%llu\ncase=%ld\nexclude=%s\nkey=%s\nctx=%s\n", opts.mode, (unsigned long long)opts.seed, curCase, opts.exclude ? opts.exclude : "", key, (const char*)ctx);
    head.add("msg="); head.add(msg); head.add("\n--- history of the failing case ---\n"); if (write(fd, head.d, head.n) < 0) {} if (hist.n && write(fd, hist.d, hist.n) < 0) {} close(fd); }
  printf("@VIOL key=%s replay=%s msg=%s\n", key, path, msg); fflush(stdout); g_mtStop = true;
#else
  fail(key, "%s", msg);
#endif
}

static void mtReport(MtThread* th, int nt, bool control) {
  long wrongAll = 0, resultsAll = 0; for (int t = 0; t < nt; ++t) for (int k = 0; k < MT_KINDS; ++k) { wrongAll += th[t].wrong[k]; resultsAll += th[t].results[k]; }
  if (!wrongAll) return;
  for (int k = 0; k < MT_KINDS; ++k) for (int t = 0; t < nt; ++t) if (th[t].wrong[k]) {   // fixed order: API class first, then thread number
    const MtThread& T = th[t]; const MtItem& it = *T.items[T.badItem[k]]; char a[65], b[65]; hexStr(T.badGot[k], 32, a); hexStr(it.want, 32, b); Text m;
    if (control) m.addf("single-threaded control round, work list of thread %d, item %d (%s, message of %lu bytes", t, T.badItem[k], mtName[k], (unsigned long)it.msg.n);
    else m.addf("thread %d of %d, round %d, item %d (%s, message of %lu bytes", t, nt, T.badRound[k], T.badItem[k], mtName[k], (unsigned long)it.msg.n);
    if (k >= MT_HMAC) m.addf(", key of %lu bytes", (unsigned long)it.key.n);
    m.addf("): result %s, but the %s of the same input computed before the threads were started is %s; %ld of the %ld results %s were wrong", a, k >= MT_HMAC ? "MAC" : "digest", b, wrongAll, resultsAll,
           control ? "of the control rounds" : "computed while the other threads were hashing");
    mtViolation(control ? mtCtlKey[k] : mtKey[k], m.c()); return;
  }
}

static void multiThreaded() {
  for (long idx = opts.start; idx < opts.start + opts.cases && !g_mtStop; ++idx) {
    if (!mine(idx)) continue;
    beginCase(idx);
    Rng r(opts.seed, strcmp(opts.mode, "mt-tsan") ? 1707 : 1708, (u64)idx);   // the ThreadSanitizer job runs other inputs than the ASan job
    int nt = 2 + (int)(idx % 7); long budget = r.range(6000, 20000);   // 64-byte blocks compressed by every thread
    hist.addf("# %d threads hashing at the same time, each in rounds over its own work items until about %ld blocks are compressed; expected values computed beforehand by the main thread\n", nt, budget);
    MtThread th[MT_MAXT]; pthread_barrier_t bar; u64 fp = mix((u64)nt, (u64)budget); long nitemsAll = 0;
    // ---- phase 1: work items and their expected values (single-threaded), recorded for the offline comparison
    for (int t = 0; t < nt; ++t) {
      MtThread& T = th[t]; T.id = t; T.nthreads = nt; T.rounds = 0; T.nitems = (int)r.range(4, 10); T.rseed = r.next(); T.bar = &bar; T.all = th;
      T.items = (MtItem**)malloc(sizeof(MtItem*) * (size_t)T.nitems);
      hist.addf("thread %d:", t); long blocksPerRound = 0;
      for (int i = 0; i < T.nitems; ++i) {
        MtItem* it = new MtItem; T.items[i] = it; it->kind = i < MT_KINDS && t < 2 ? (i + t) % MT_KINDS : (int)r.below(MT_KINDS);   // the first two threads have every kind
        size_t L = mtLen(r); Dig want;
        if (it->kind >= MT_HMAC) {
          size_t kl = r.chance(1, 3) ? (size_t)r.range(60, 70) : r.chance(1, 2) ? (size_t)r.below(201) : (size_t)r.below(400);
          it->key.alloc(kl); it->msg.alloc(L); Text rl;
          if (kl + L > 300) { u64 ks = r.below(256), ms = r.below(256); for (size_t j = 0; j < kl; ++j) it->key.p[j] = pat(ks, j); for (size_t j = 0; j < L; ++j) it->msg.p[j] = pat(ms, j); rl.addf("N %lu %lu %lu %lu ", (unsigned long)ks, (unsigned long)kl, (unsigned long)ms, (unsigned long)L); }
          else { fillContent(it->key.p, kl, (int)(r.below(5) ? 0 : r.below(3)), r); fillContent(it->msg.p, L, (int)(r.below(5) ? 0 : r.below(3)), r); rl.add("M "); addHex(rl, it->key.p, kl); rl.add(" "); addHex(rl, it->msg.p, L); rl.add(" "); }
          setctxf("Sha256.hmac/key%sblock", kl < 64 ? "<" : kl == 64 ? "=" : ">"); Sha256::hmac(it->key.p, kl, it->msg.p, L, want.ref()); cnt("hmacs");
          setItem("hmac_key_classes", kl == 0 ? "key=0" : kl < 64 ? "key<block" : kl == 64 ? "key=block" : "key>block");
          addHex(rl, want.d, 32); rl.add("\n"); rec("%s", rl.c()); cnt("mt_expected_macs_recorded");
          hist.addf(" %s(key %lu, msg %lu)", it->kind == MT_HMAC ? "hmac" : "hmac-from-own-hashers", (unsigned long)kl, (unsigned long)L);
        } else {
          it->msg.alloc(L); Text rl;
          if (L > 512) { u64 s = r.below(256); for (size_t j = 0; j < L; ++j) it->msg.p[j] = pat(s, j); rl.addf("P %lu %lu ", (unsigned long)s, (unsigned long)L); }
          else { fillContent(it->msg.p, L, (int)(r.below(6) < 4 ? 0 : r.below(3)), r); rl.add("H "); addHex(rl, it->msg.p, L); rl.add(" "); }
          setctx("Sha256.hash/one-shot"); Sha256::hash(it->msg.p, L, want.ref()); cnt("digests"); cnt("updates"); cnt("one_shot_recorded"); padClass(L);
          addHex(rl, want.d, 32); rl.add("\n"); rec("%s", rl.c()); cnt("mt_expected_digests_recorded");
          hist.addf(" %s(%lu)", it->kind == MT_HASH ? "hash" : it->kind == MT_REUSED ? "reused-hasher" : "fresh-hasher", (unsigned long)L);
        }
        blocksPerRound += (long)(L / 64) + 2 + (it->kind >= MT_HMAC ? 4 + (long)(it->key.n / 64) : 0);
        memcpy(it->want, want.d, 32); fp = mix(fp, mix((u64)it->kind * 1000003 + L, *(u64*)want.d)); cnt("bytes_in_messages", (long)L);
      }
      long rounds = budget / blocksPerRound; T.rounds = rounds < 4 ? 4 : rounds > 400 ? 400 : (int)rounds;
      hist.addf(" x %d rounds\n", T.rounds); nitemsAll += T.nitems; fp = mix(fp, (u64)T.rounds);
    }
    // ---- control: two rounds of every work list, serially in the main thread (a defect that needs no second thread must not be reported as a threading defect)
    setctx("Sha256.update+hash+hmac/mt-control-single-threaded");
    for (int t = 0; t < nt; ++t) { mtReset(th[t], true); int keep = th[t].rounds; th[t].rounds = 2; mtWorker(&th[t]);   /* round 1 takes the reset() path of the reused hasher */ th[t].rounds = keep; for (int k = 0; k < MT_KINDS; ++k) cnt("mt_control_results_compared", th[t].results[k]); }
    mtReport(th, nt, true);
    // ---- phase 2: the same work lists in nt threads released together
    if (!g_mtStop) {
      setctx("Sha256.update+hash+hmac/other-threads-hashing");
      if (pthread_barrier_init(&bar, 0, (unsigned)nt) != 0) harnessBug("pthread_barrier_init");
      for (int t = 0; t < nt; ++t) mtReset(th[t], false);
      pthread_t tid[MT_MAXT];
      for (int t = 0; t < nt; ++t) if (pthread_create(&tid[t], 0, mtWorker, &th[t]) != 0) harnessBug("pthread_create: %s", strerror(errno));
      for (int t = 0; t < nt; ++t) if (pthread_join(tid[t], 0) != 0) harnessBug("pthread_join");
      pthread_barrier_destroy(&bar);
      long overlap = 0, all = 0;
      for (int t = 0; t < nt; ++t) {
        for (int k = 0; k < MT_KINDS; ++k) { cnt(mtCounter[k], th[t].results[k]); cnt("mt_results_compared", th[t].results[k]); all += th[t].results[k]; }
        cnt("mt_updates", th[t].updates); cnt("mt_thread_rounds", th[t].rounds); overlap += th[t].overlapRounds;
      }
      cnt("mt_thread_rounds_during_which_another_thread_advanced", overlap); if (overlap) cnt("mt_cases_with_observed_overlap");
      cnt("mt_cases"); cnt("mt_threads_run", nt); cnt("mt_work_items", nitemsAll); statMax("mt_max_threads", nt); statMax("mt_max_results_per_case", all);
      { char b[16]; snprintf(b, sizeof b, "%d", nt); setItem("mt_thread_counts", b); }
      mtReport(th, nt, false);
    }
    for (int t = 0; t < nt; ++t) { for (int i = 0; i < th[t].nitems; ++i) delete th[t].items[i]; free(th[t].items); }
    if (idx % 97 == 0) sample("%.600s", hist.c());
    endCase(fp, true);
  }
}

// ------------------------------------------------------------------------------------------------ published vectors (expected values only in sha_ref.py)
static void recDigest(const char* name, const u8* d) { Text t; t.addf("V %s ", name); addHex(t, d, 32); t.add("\n"); rec("%s", t.c()); cnt("vectors"); }
static void vecHash(const char* name, const char* s, size_t n) { Exact m; m.set((const u8*)s, n); Dig d; setctx("Sha256.hash/vector"); hist.addf("vector %s\n", name); Sha256::hash(m.p, n, d.ref()); cnt("digests"); recDigest(name, d.d); }
static void vecHmac(const char* name, const u8* k, size_t kl, const u8* m, size_t ml) { Exact kk, mm; kk.set(k, kl); mm.set(m, ml); Dig d; setctx("Sha256.hmac/vector"); hist.addf("vector %s\n", name); Sha256::hmac(kk.p, kl, mm.p, ml, d.ref()); cnt("hmacs"); recDigest(name, d.d); }
static void vectors() {
  if (!mine(0)) return;
  beginCase(0);
  vecHash("nist-empty", "", 0);
  vecHash("nist-abc", "abc", 3);
  vecHash("nist-448bits", "abcdbcdecdefdefgefghfghighijhijkijkljklmklmnlmnomnopnopq", 56);
  vecHash("nist-896bits", "abcdefghbcdefghicdefghijdefghijkefghijklfghijklmghijklmnhijklmnoijklmnopjklmnopqklmnopqrlmnopqrsmnopqrstnopqrstu", 112);
  { size_t n = 1000000; char* a = (char*)malloc(n); memset(a, 'a', n); vecHash("nist-million-a", a, n); free(a); }
  u8 k[131], m[152];
  memset(k, 0x0b, 20); vecHmac("rfc4231-1", k, 20, (const u8*)"Hi There", 8);
  vecHmac("rfc4231-2", (const u8*)"Jefe", 4, (const u8*)"what do ya want for nothing?", 28);
  memset(k, 0xaa, 20); memset(m, 0xdd, 50); vecHmac("rfc4231-3", k, 20, m, 50);
  for (int i = 0; i < 25; ++i) k[i] = (u8)(i + 1); memset(m, 0xcd, 50); vecHmac("rfc4231-4", k, 25, m, 50);
  memset(k, 0x0c, 20); vecHmac("rfc4231-5-untruncated", k, 20, (const u8*)"Test With Truncation", 20);
  memset(k, 0xaa, 131); vecHmac("rfc4231-6", k, 131, (const u8*)"Test Using Larger Than Block-Size Key - Hash Key First", 54);
  const char* m7 = "This is a test using a larger than block-size key and a larger than block-size data. The key needs to be hashed before being used by the HMAC algorithm.";
  vecHmac("rfc4231-7", k, 131, (const u8*)m7, strlen(m7));
  endCase(7, true);
}

int main(int argc, char** argv) {
  init(argc, argv, "h_sha"); hookUbsan();
  if (opts.probe) harnessBug("unknown probe %s", opts.probe);
  const char* m = opts.mode;
  if (!strcmp(m, "chunk-q")) chunkSweep(false);
  else if (!strcmp(m, "chunk-t")) chunkSweep(true);
  else if (!strcmp(m, "rand")) randomMessages();
  else if (!strcmp(m, "big")) bigMessages();
  else if (!strcmp(m, "huge")) hugeMessages();
  else if (!strcmp(m, "hmac")) hmacSweep();
  else if (!strcmp(m, "hmac-rand")) hmacRandom();
  else if (!strcmp(m, "vectors")) vectors();
  else if (!strcmp(m, "alias")) aliasing();
  else if (!strcmp(m, "mt") || !strcmp(m, "mt-tsan")) multiThreaded();
  else harnessBug("unknown mode %s", m);
  leakCheck("Sha256/leak");
  finish();
  return 0;
}
